import MtailVerif.Proofs.ScopeDup
/-! A declaration nobody refers to is reported when its block ends.  `G P x id` is a well-formedness
    invariant of the checker's state (symbol ids are their indices, every entry of every scope and
    every use mark points at an existing symbol) that, when `P` holds, also says: the symbol `id` is
    the one named `x`, nobody has marked it used, and every entry pointing at it is keyed `x`.
    `walk_g` keeps it along any tree that does not mention `x` (with `P := False` it is plain
    well-formedness, kept along every tree).  With frame keeping (`walk_fk`) the entry made by the
    declaration is still in its block's scope when the block is swept (`block_unused`), hence
    `unused_fires`. -/
namespace MtailVerif.Scope
open MtailVerif MtailVerif.Ast

/-- a frame is well formed (entries point at existing symbols) and, when `P`, keeps the symbol
    `id` under the key `x` only -/
def FrG (P : Prop) (x : String) (id : Nat) (syms : List Sym) (f : Frame) : Prop :=
  ∀ e ∈ f, e.2 < syms.length ∧ (P → e.2 = id → e.1 = x)

/-- well-formedness of the checker's state; and, when `P`: the symbol `id` is the non-capture-group
    symbol named `x`, nobody has marked it used, and every entry that points at it is keyed `x` -/
structure G (P : Prop) (x : String) (id : Nat) (s : St) : Prop where
  ids : ∀ (i : Nat) (sy : Sym), s.syms[i]? = some sy → sy.id = i
  ub : ∀ i ∈ s.used, i < s.syms.length
  frames : ∀ f ∈ s.frames, FrG P x id s.syms f
  decos : ∀ f ∈ s.decoScopes, FrG P x id s.syms f
  zyg : ∀ z ∈ s.zygotes, FrG P x id s.syms z.2
  unused : P → id ∉ s.used
  symx : P → ∃ sy, s.syms[id]? = some sy ∧ sy.name = x ∧ sy.kind ≠ .capref

theorem g_init (x : String) : G False x 0 ({} : St) :=
  ⟨by intro i sy h; simp at h, by intro i h; simp at h, by intro f h; simp at h, by intro f h; simp at h,
   by intro z h; simp at h, fun h => h.elim, fun h => h.elim⟩

theorem g_core {P : Prop} {x : String} {id : Nat} {a b : St} (h : G P x id a) (h1 : b.frames = a.frames)
    (h2 : b.syms = a.syms) (h3 : b.decoScopes = a.decoScopes) (h4 : b.zygotes = a.zygotes) (h5 : b.used = a.used) :
    G P x id b :=
  ⟨by rw [h2]; exact h.ids, by rw [h5, h2]; exact h.ub, by rw [h1, h2]; exact h.frames,
   by rw [h3, h2]; exact h.decos, by rw [h4, h2]; exact h.zyg, by rw [h5]; exact h.unused, by rw [h2]; exact h.symx⟩

theorem used_sweep (s : St) : (sweep s).used = s.used := by
  unfold sweep
  split
  · rfl
  · refine foldl_inv _ (fun a b => b.used = a.used) (fun _ => rfl) (fun a b c h1 h2 => by rw [h2, h1]) ?_ _ s
    intro s e
    split
    · split
      · rfl
      · split <;> rfl
    · rfl

theorem g_sweep {P : Prop} {x : String} {id : Nat} {s : St} (h : G P x id s) : G P x id (sweep s) :=
  g_core h (core_sweep s).1 (core_sweep s).2.1 (core_sweep s).2.2.1 (core_sweep s).2.2.2 (used_sweep s)

theorem g_depthCut {P : Prop} {x : String} {id : Nat} (cfg : Cfg) (n : Node) {s : St} (h : G P x id s) : G P x id (depthCut cfg n s) := by
  unfold depthCut
  simp only
  split <;> exact g_core h rfl rfl rfl rfl rfl

theorem g_leave {P : Prop} {x : String} {id : Nat} {s : St} {k : St → St} (hk : ∀ y, G P x id y → G P x id (k y))
    (h : G P x id s) : G P x id (leave s k) := by
  unfold leave
  split
  · exact h
  · exact g_core (hk s h) rfl rfl rfl rfl rfl

theorem g_guarded {P : Prop} {x : String} {id : Nat} (cfg : Cfg) (n : Node) {k : St → St}
    (hk : ∀ y, G P x id y → G P x id (k y)) {s : St} (h : G P x id s) : G P x id (guarded cfg n k s) := by
  unfold guarded
  split
  · exact g_depthCut cfg n h
  · exact hk _ (g_core h rfl rfl rfl rfl rfl)

theorem frG_append {P : Prop} {x : String} {id : Nat} {syms : List Sym} (sy : Sym) {f : Frame} (h : FrG P x id syms f) :
    FrG P x id (syms ++ [sy]) f := by
  intro e he
  have := h e he
  exact ⟨by simp; omega, this.2⟩

theorem g_markUsed {P : Prop} {x : String} {id : Nat} {s : St} (i : Nat) (hi : i < s.syms.length) (hne : P → i ≠ id)
    (h : G P x id s) : G P x id (markUsed s i) := by
  unfold markUsed
  split
  · exact h
  · refine ⟨h.ids, ?_, h.frames, h.decos, h.zyg, ?_, h.symx⟩
    · intro j hj
      simp only [List.mem_cons] at hj
      rcases hj with rfl | hj
      · exact hi
      · exact h.ub j hj
    · intro hp hm
      simp only [List.mem_cons] at hm
      rcases hm with rfl | hm
      · exact hne hp rfl
      · exact h.unused hp hm

theorem g_newSym {P : Prop} {x : String} {id : Nat} {s : St} (n : String) (k : Kind) (p : Option Pos) (a : Nat)
    (h : G P x id s) : G P x id (s.newSym n k p a).1 := by
  unfold St.newSym
  refine ⟨?_, ?_, fun f hf => frG_append _ (h.frames f hf), fun f hf => frG_append _ (h.decos f hf),
    fun z hz => frG_append _ (h.zyg z hz), h.unused, ?_⟩
  · intro i sy hi
    simp only at hi
    by_cases hlt : i < s.syms.length
    · rw [List.getElem?_append_left hlt] at hi; exact h.ids i sy hi
    · rw [List.getElem?_append_right (by omega)] at hi
      have : i - s.syms.length = 0 := by
        cases hc : i - s.syms.length with
        | zero => rfl
        | succ m => rw [hc] at hi; simp at hi
      rw [this] at hi
      simp at hi
      subst hi
      simp; omega
  · intro i hi
    have := h.ub i hi
    simp; omega
  · intro hp
    obtain ⟨sy, h1, h2, h3⟩ := h.symx hp
    have hlt : id < s.syms.length := (List.getElem?_eq_some_iff.mp h1).1
    exact ⟨sy, by simp only; rw [List.getElem?_append_left hlt]; exact h1, h2, h3⟩

theorem g_insertTop {P : Prop} {x : String} {id : Nat} {s : St} (key : String) (i : Nat)
    (he : i < s.syms.length ∧ (P → i = id → key = x)) (h : G P x id s) : G P x id (insertTop s key i).1 := by
  unfold insertTop
  split
  · exact h
  · next f rest hf =>
    split
    · exact h
    · refine ⟨h.ids, h.ub, ?_, h.decos, h.zyg, h.unused, h.symx⟩
      intro g hg
      simp only [List.mem_cons] at hg
      rcases hg with rfl | hg
      · intro e hm
        simp only [List.mem_append, List.mem_singleton] at hm
        rcases hm with hm | rfl
        · exact h.frames f (by rw [hf]; simp) e hm
        · exact he
      · exact h.frames g (by rw [hf]; simp [hg])

theorem used_insertTop (s : St) (key : String) (i : Nat) : (insertTop s key i).1.used = s.used := by
  unfold insertTop
  split
  · rfl
  · split <;> rfl

theorem g_symx_lt {P : Prop} {x : String} {id : Nat} {s : St} (h : G P x id s) (hp : P) : id < s.syms.length := by
  obtain ⟨sy, h1, _, _⟩ := h.symx hp
  exact (List.getElem?_eq_some_iff.mp h1).1

theorem g_declare {P : Prop} {x : String} {id : Nat} (n : String) (k : Kind) (p : Option Pos) (c : Cls) (dp : Option Pos)
    {ok : Sym → St → St} (hok : ∀ sy y, G P x id y → G P x id (ok sy y)) {s : St} (h : G P x id s) :
    G P x id (declare n k p c dp ok s) := by
  unfold declare
  simp only
  have h1 : G P x id (s.newSym n k p).1 := g_newSym n k p 0 h
  have h2 : G P x id (insertTop (s.newSym n k p).1 n (s.newSym n k p).2.id).1 := by
    refine g_insertTop n _ ⟨by simp [St.newSym], ?_⟩ h1
    intro hp he
    have := g_symx_lt h hp
    simp [St.newSym] at he
    omega
  split
  · exact g_core h2 rfl rfl rfl rfl rfl
  · exact hok _ _ h2

theorem g_insertOrErr {P : Prop} {x : String} {id : Nat} {s : St} (key : String) (i : Nat) (p : Option Pos)
    (he : i < s.syms.length ∧ (P → i = id → key = x)) (h : G P x id s) : G P x id (insertOrErr s key i p) := by
  unfold insertOrErr
  split
  · exact g_core (g_insertTop key i he h) rfl rfl rfl rfl rfl
  · exact g_insertTop key i he h

/-- renaming a symbol other than `id` -/
theorem g_renameSym {P : Prop} {x : String} {id : Nat} {s : St} (i : Nat) (n : String) (hne : P → i ≠ id)
    (h : G P x id s) : G P x id (renameSym s i n) := by
  have hget : ∀ j sy', (s.syms.modify i (fun sy => { sy with name := n }))[j]? = some sy' →
      ∃ sy0, s.syms[j]? = some sy0 ∧ sy0.kind = sy'.kind ∧ sy0.id = sy'.id ∧ (j ≠ i → sy0 = sy') := by
    intro j sy' hj
    rw [List.getElem?_modify] at hj
    cases h0 : s.syms[j]? with
    | none => simp [h0] at hj
    | some sy0 =>
      simp only [h0, Option.map_eq_map, Option.map_some, Option.some.injEq] at hj
      refine ⟨sy0, rfl, ?_, ?_, ?_⟩
      · subst hj; split <;> rfl
      · subst hj; split <;> rfl
      · intro hne'; subst hj; simp [Ne.symm hne']
  have hok : ∀ f, FrG P x id s.syms f → FrG P x id (s.syms.modify i (fun sy => { sy with name := n })) f := by
    intro f hf e he
    have := hf e he
    exact ⟨by simpa using this.1, this.2⟩
  unfold renameSym
  refine ⟨?_, ?_, fun f hf => hok f (h.frames f hf), fun f hf => hok f (h.decos f hf), fun z hz => hok _ (h.zyg z hz),
    h.unused, ?_⟩
  · intro j sy' hj
    obtain ⟨sy0, g1, _, g3, _⟩ := hget _ _ hj
    rw [← g3]; exact h.ids j sy0 g1
  · intro j hj
    have := h.ub j hj
    simpa using this
  · intro hp
    obtain ⟨sy, h1, h2, h3⟩ := h.symx hp
    refine ⟨sy, ?_, h2, h3⟩
    simp only
    rw [List.getElem?_modify, h1]
    simp [hne hp]

theorem g_addGroup {P : Prop} {x : String} {id : Nat} (p : Option Pos) {s : St} (e : String × Nat) (h : G P x id s) :
    G P x id (addGroup p s e) := by
  unfold addGroup
  simp only
  have h1 : G P x id (s.newSym (toString e.2) .capref p e.2).1 := g_newSym _ _ _ _ h
  have hid : (s.newSym (toString e.2) .capref p e.2).2.id = s.syms.length := rfl
  have hsy : (s.newSym (toString e.2) .capref p e.2).1.syms = s.syms ++ [(s.newSym (toString e.2) .capref p e.2).2] := rfl
  have hlt : P → s.syms.length ≠ id := fun hp => by have := g_symx_lt h hp; omega
  have hent : ∀ key, s.syms.length < (s.newSym (toString e.2) .capref p e.2).1.syms.length ∧ (P → s.syms.length = id → key = x) := by
    intro key
    exact ⟨by rw [hsy]; simp, fun hp he => absurd he (hlt hp)⟩
  have h2 : G P x id (insertOrErr (s.newSym (toString e.2) .capref p e.2).1 (toString e.2) s.syms.length p) :=
    g_insertOrErr _ _ _ (hent _) h1
  have hs2 : (insertOrErr (s.newSym (toString e.2) .capref p e.2).1 (toString e.2) s.syms.length p).syms =
      (s.newSym (toString e.2) .capref p e.2).1.syms := syms_insertOrErr _ _ _ _
  rw [hid]
  split
  · have h3 : G P x id (renameSym (insertOrErr (s.newSym (toString e.2) .capref p e.2).1 (toString e.2) s.syms.length p)
        s.syms.length e.1) := g_renameSym _ _ hlt h2
    refine g_insertOrErr _ _ _ ⟨?_, fun hp he => absurd he (hlt hp)⟩ h3
    show s.syms.length < (renameSym _ _ _).syms.length
    unfold renameSym
    simp only [List.length_modify]
    rw [hs2, hsy]; simp
  · exact h2

theorem g_foldl_addGroup {P : Prop} {x : String} {id : Nat} (p : Option Pos) (l : List (String × Nat)) {s : St}
    (h : G P x id s) : G P x id (l.foldl (addGroup p) s) := by
  induction l generalizing s with
  | nil => exact h
  | cons a l ih => exact ih (g_addGroup p a h)

theorem g_checkRegex {P : Prop} {x : String} {id : Nat} (cfg : Cfg) {s : St} (pat : Bytes) (p : Option Pos) (h : G P x id s) :
    G P x id (checkRegex cfg s pat p) := by
  unfold checkRegex
  split
  · exact g_core h rfl rfl rfl rfl rfl
  · split
    · exact g_core h rfl rfl rfl rfl rfl
    · split
      · exact h
      · exact g_foldl_addGroup p _ h

theorem g_evalCheck {P : Prop} {x : String} {id : Nat} (cfg : Cfg) (e : Node) (p : Option Pos) {s : St} (h : G P x id s) :
    G P x id (evalCheck cfg e p s) := by
  unfold evalCheck
  simp only
  split
  · exact g_core h rfl rfl rfl rfl rfl
  · exact g_checkRegex cfg _ _ (g_core h rfl rfl rfl rfl rfl)

theorem g_recordPattern {P : Prop} {x : String} {id : Nat} (cfg : Cfg) (sy : Sym) (e : Node) {s : St} (h : G P x id s) :
    G P x id (recordPattern cfg sy e s) := by
  unfold recordPattern
  simp only
  split
  · exact g_core h rfl rfl rfl rfl rfl
  · split <;> exact g_core h rfl rfl rfl rfl rfl

theorem frG_nil (P : Prop) (x : String) (id : Nat) (syms : List Sym) : FrG P x id syms [] := by intro e he; simp at he

theorem frG_flatten {P : Prop} {x : String} {id : Nat} {s : St} (h : G P x id s) (frames : List Frame) (into : Frame)
    (hi : FrG P x id s.syms into) : FrG P x id s.syms (flatten s frames into) := by
  unfold flatten
  induction frames generalizing into with
  | nil => exact hi
  | cons f rest ih =>
    simp only [List.foldl_cons]
    apply ih
    clear ih
    induction f generalizing into with
    | nil => exact hi
    | cons e f ihf =>
      simp only [List.foldl_cons]
      apply ihf
      split
      · next sy hs =>
        split
        · exact hi
        · intro y hy
          simp only [List.mem_append, List.mem_singleton] at hy
          rcases hy with hy | rfl
          · exact hi y hy
          · have hid : sy.id = e.2 := h.ids e.2 sy hs
            have hlt : e.2 < s.syms.length := by
              unfold St.sym at hs
              exact (List.getElem?_eq_some_iff.mp hs).1
            refine ⟨by show sy.id < _; omega, ?_⟩
            intro hp he
            show sy.name = x
            obtain ⟨sy0, g1, g2, _⟩ := h.symx hp
            have : s.syms[id]? = some sy := by
              have e1 : sy.id = id := he
              rw [← e1, hid]; exact hs
            rw [this] at g1
            cases g1
            exact g2
      · exact hi

theorem g_push {P : Prop} {x : String} {id : Nat} {s : St} (f : Frame) (hf : FrG P x id s.syms f) (h : G P x id s) :
    G P x id (push s f) := by
  unfold push
  refine ⟨h.ids, h.ub, ?_, h.decos, h.zyg, h.unused, h.symx⟩
  intro g hg
  simp only [List.mem_cons] at hg
  rcases hg with rfl | hg
  · exact hf
  · exact h.frames g hg

theorem g_pop {P : Prop} {x : String} {id : Nat} {s : St} (h : G P x id s) : G P x id (pop s) := by
  unfold pop
  exact ⟨h.ids, h.ub, fun f hf => h.frames f (List.mem_of_mem_tail hf), h.decos, h.zyg, h.unused, h.symx⟩

theorem g_doNext {P : Prop} {x : String} {id : Nat} (p : Pos) {s : St} (h : G P x id s) : G P x id (doNext p s) := by
  unfold doNext
  split
  · exact g_core h rfl rfl rfl rfl rfl
  · next ds rest hd =>
    split
    · exact g_core h rfl rfl rfl rfl rfl
    · refine ⟨h.ids, h.ub, h.frames, ?_, h.zyg, h.unused, h.symx⟩
      intro f hf
      simp only [List.mem_cons] at hf
      rcases hf with rfl | hf
      · exact frG_flatten h _ _ (frG_nil _ _ _ _)
      · exact h.decos f (by rw [hd]; simp [hf])

theorem g_openDecoScope {P : Prop} {x : String} {id : Nat} {s : St} (h : G P x id s) : G P x id (openDecoScope s) := by
  unfold openDecoScope
  refine ⟨h.ids, h.ub, h.frames, ?_, h.zyg, h.unused, h.symx⟩
  intro f hf
  simp only [List.mem_cons] at hf
  rcases hf with rfl | hf
  · exact frG_nil _ _ _ _
  · exact h.decos f hf

theorem g_closeDeco {P : Prop} {x : String} {id : Nat} (sy : Sym) (w : Option Pos) {s : St} (h : G P x id s) :
    G P x id (closeDeco sy w s) := by
  unfold closeDeco
  split
  · exact h
  · next ds rest hd =>
    have hds : FrG P x id s.syms ds := h.decos ds (by rw [hd]; simp)
    have hrest : ∀ f ∈ rest, FrG P x id s.syms f := fun f hf => h.decos f (by rw [hd]; simp [hf])
    simp only
    split
    · refine ⟨h.ids, h.ub, h.frames, hrest, ?_, h.unused, h.symx⟩
      intro z hz
      simp only [List.mem_cons] at hz
      rcases hz with rfl | hz
      · exact hds
      · exact h.zyg z hz
    · refine ⟨h.ids, h.ub, h.frames, hrest, ?_, h.unused, h.symx⟩
      intro z hz
      simp only [List.mem_cons] at hz
      rcases hz with rfl | hz
      · exact hds
      · exact h.zyg z hz

/-- what a successful lookup says: the symbol stands in some frame under the name looked up -/
theorem lookup_some {s : St} {name : String} {k : Kind} {sy : Sym} (h : lookup s name k = some sy) :
    ∃ f ∈ s.frames, ∃ i, (name, i) ∈ f ∧ s.syms[i]? = some sy ∧ sy.kind = k := by
  unfold lookup at h
  have : ∀ fr : List Frame, lookup.go s name k fr = some sy →
      ∃ f ∈ fr, ∃ i, (name, i) ∈ f ∧ s.syms[i]? = some sy ∧ sy.kind = k := by
    intro fr
    induction fr with
    | nil => intro h; simp [lookup.go] at h
    | cons f rest ih =>
      intro h
      unfold lookup.go at h
      split at h
      · next sy' hs =>
        split at h
        · next hk =>
          cases h
          cases hg : frameGet f name with
          | none => simp [hg] at hs
          | some i =>
            simp only [hg, Option.bind_some] at hs
            exact ⟨f, by simp, i, frameGet_mem hg, hs, hk⟩
        · obtain ⟨g, hg, r⟩ := ih h
          exact ⟨g, by simp [hg], r⟩
      · obtain ⟨g, hg, r⟩ := ih h
        exact ⟨g, by simp [hg], r⟩
  exact this s.frames h

/-- a symbol found under another name than `x`, or of kind capture group, is not the symbol `id` -/
theorem g_lookup {P : Prop} {x : String} {id : Nat} {s : St} (h : G P x id s) {name : String} {k : Kind} {sy : Sym}
    (hl : lookup s name k = some sy) (hne : P → name ≠ x ∨ k = .capref) : sy.id < s.syms.length ∧ (P → sy.id ≠ id) := by
  obtain ⟨f, hf, i, hm, hs, hk⟩ := lookup_some hl
  have hi : sy.id = i := h.ids i sy hs
  have := h.frames f hf (name, i) hm
  refine ⟨by rw [hi]; exact this.1, ?_⟩
  intro hp he
  rcases hne hp with hn | hc
  · exact hn (this.2 hp (by rw [← hi]; exact he))
  · obtain ⟨sy0, g1, _, g3⟩ := h.symx hp
    have : s.syms[id]? = some sy := by rw [← he, hi]; exact hs
    rw [this] at g1
    cases g1
    exact g3 (by rw [hk, hc])

theorem g_idK {P : Prop} {x : String} {id : Nat} (n : String) (p : Pos) (hn : P → n ≠ x) {s : St} (h : G P x id s) :
    G P x id (idK n p s) := by
  unfold idK
  split
  · next sy hl =>
    have := g_lookup h hl (fun hp => Or.inl (hn hp))
    exact g_leave (fun y hy => hy) (g_markUsed _ this.1 this.2 h)
  · split
    · next sy hl =>
      have := g_lookup h hl (fun hp => Or.inl (hn hp))
      exact g_leave (fun y hy => hy) (g_markUsed _ this.1 this.2 h)
    · exact g_core h rfl rfl rfl rfl rfl

theorem g_capK {P : Prop} {x : String} {id : Nat} (n : String) (p : Pos) {s : St} (h : G P x id s) : G P x id (capK n p s) := by
  unfold capK
  split
  · next sy hl =>
    have := g_lookup h hl (fun _ => Or.inr rfl)
    exact g_leave (fun y hy => hy) (g_markUsed _ this.1 this.2 h)
  · exact g_core h rfl rfl rfl rfl rfl

theorem g_declK {P : Prop} {x : String} {id : Nat} (d : Decl) (p : Pos) {s : St} (h : G P x id s) : G P x id (declK d p s) := by
  unfold declK
  refine g_declare _ _ _ _ _ ?_ h
  intro sy y hy
  split
  · exact g_core hy rfl rfl rfl rfl rfl
  · exact g_leave (fun z hz => hz) hy

theorem g_decoK {P : Prop} {x : String} {id : Nat} (n : String) (w : Option Pos) (hn : P → n ≠ x) {wb : St → St}
    (hwb : ∀ y, G P x id y → G P x id (wb y)) {s : St} (h : G P x id s) : G P x id (decoK n w wb s) := by
  unfold decoK
  split
  · exact g_core h rfl rfl rfl rfl rfl
  · next sy hl =>
    have hlk := g_lookup h hl (fun hp => Or.inl (hn hp))
    have hm : G P x id (markUsed s sy.id) := g_markUsed _ hlk.1 hlk.2 h
    split
    · exact g_core hm rfl rfl rfl rfl rfl
    · next z hz =>
      refine g_leave (fun y hy => g_pop hy) (hwb _ (g_push _ ?_ hm))
      exact frG_flatten hm _ _ (frG_nil _ _ _ _)

theorem g_constK {P : Prop} {x : String} {id : Nat} (cfg : Cfg) (i e : Node) {we : St → St}
    (hwe : ∀ y, G P x id y → G P x id (we y)) {s : St} (h : G P x id s) : G P x id (constK cfg i e we s) := by
  unfold constK
  split
  · exact g_declare _ _ _ _ _ (fun sy y hy => g_leave (fun z hz => g_recordPattern cfg sy e hz) (hwe y hy)) h
  · exact g_core h rfl rfl rfl rfl rfl

theorem g_matchK {P : Prop} {x : String} {id : Nat} (cfg : Cfg) (op : Op) (r : Node) {s : St} (h : G P x id s) :
    G P x id (matchK cfg op r s) := by
  unfold matchK
  split
  · exact g_guarded cfg r (fun y hy => g_evalCheck cfg r _ hy) h
  · exact h

theorem g_idxK {P : Prop} {x : String} {id : Nat} (cfg : Cfg) (lhs : Node) {s : St} (h : G P x id s) : G P x id (idxK cfg lhs s) := by
  unfold idxK
  split
  · exact g_evalCheck cfg lhs _ h
  · exact h

theorem g_substK {P : Prop} {x : String} {id : Nat} (n : String) (b : Bool) {s : St} (h : G P x id s) : G P x id (substK n b s) := by
  unfold substK
  split
  · exact g_core h rfl rfl rfl rfl rfl
  · exact h

mutual
/-- the state stays well formed along every visit; and if the tree does not mention `x`, the
    symbol `id` stays unused and keyed `x` -/
theorem walk_g (cfg : Cfg) (P : Prop) (x : String) (id : Nat) : ∀ (n : Node), (P → mentions x n = false) →
    ∀ s, G P x id s → G P x id (walk cfg n s)
  | .nil, _, s, h => by rw [walk]; exact h
  | .error _ _, _, s, h => by rw [walk]; exact h
  | .stmts cs, hm, s, h => by
    rw [walk]
    exact g_guarded cfg _ (fun y hy => g_leave (fun z hz => g_pop (g_sweep hz))
      (walkList_g cfg P x id cs (fun hp => by have := hm hp; simpa [mentions] using this) _ (g_push [] (frG_nil _ _ _ _) hy))) h
  | .exprs cs, hm, s, h => by
    rw [walk]
    exact g_guarded cfg _ (fun y hy => g_leave (fun z hz => hz)
      (walkList_g cfg P x id cs (fun hp => by have := hm hp; simpa [mentions] using this) _ hy)) h
  | .cond c t e, hm, s, h => by
    rw [walk]
    have hm' : P → mentions x c = false ∧ mentions x t = false ∧ mentions x e = false := fun hp => by
      have := hm hp; simp only [mentions, Bool.or_eq_false_iff] at this; exact ⟨this.1.1, this.1.2, this.2⟩
    exact g_guarded cfg _ (fun y hy => g_leave (fun z hz => g_pop (g_sweep hz))
      (walk_g cfg P x id e (fun hp => (hm' hp).2.2) _ (walk_g cfg P x id t (fun hp => (hm' hp).2.1) _
        (walk_g cfg P x id c (fun hp => (hm' hp).1) _ (g_push [] (frG_nil _ _ _ _) hy))))) h
  | .id n p ty, hm, s, h => by
    rw [walk]
    exact g_guarded cfg _ (fun y hy => g_idK n p (fun hp => by have := hm hp; simp only [mentions] at this; exact ne_of_beq_false this) hy) h
  | .cap n nd p ty, _, s, h => by rw [walk]; exact g_guarded cfg _ (fun y hy => g_capK n p hy) h
  | .builtin n args p ty, hm, s, h => by
    rw [walk]
    exact g_guarded cfg _ (fun y hy => g_leave (fun z hz => g_substK n false hz)
      (walk_g cfg P x id args (fun hp => by have := hm hp; simpa [mentions] using this) _ (g_substK n true hy))) h
  | .bin op l r ty, hm, s, h => by
    rw [walk]
    have hm' : P → mentions x l = false ∧ mentions x r = false := fun hp => by
      have := hm hp; simp only [mentions, Bool.or_eq_false_iff] at this; exact this
    exact g_guarded cfg _ (fun y hy => g_leave (fun z hz => g_matchK cfg op r hz)
      (walk_g cfg P x id r (fun hp => (hm' hp).2) _ (walk_g cfg P x id l (fun hp => (hm' hp).1) _ hy))) h
  | .un op e p ty, hm, s, h => by
    rw [walk]
    exact g_guarded cfg _ (fun y hy => g_leave (fun z hz => hz)
      (walk_g cfg P x id e (fun hp => by have := hm hp; simpa [mentions] using this) _ hy)) h
  | .idx lhs index ty, hm, s, h => by
    rw [walk]
    have hm' : P → mentions x index = false ∧ mentions x lhs = false := fun hp => by
      have := hm hp; simp only [mentions, Bool.or_eq_false_iff] at this; exact this
    exact g_guarded cfg _ (fun y hy => g_leave (fun z hz => g_idxK cfg lhs hz)
      (walk_g cfg P x id lhs (fun hp => (hm' hp).2) _ (walk_g cfg P x id index (fun hp => (hm' hp).1) _ hy))) h
  | .decl d p, _, s, h => by rw [walk]; exact g_guarded cfg _ (fun y hy => g_declK d p hy) h
  | .str t p, _, s, h => by rw [walk]; exact g_guarded cfg _ (fun y hy => g_leave (fun z hz => hz) hy) h
  | .int i p, _, s, h => by rw [walk]; exact g_guarded cfg _ (fun y hy => g_leave (fun z hz => hz) hy) h
  | .float b p, _, s, h => by rw [walk]; exact g_guarded cfg _ (fun y hy => g_leave (fun z hz => hz) hy) h
  | .patlit t p, _, s, h => by rw [walk]; exact g_guarded cfg _ (fun y hy => g_leave (fun z hz => hz) hy) h
  | .patexpr e pt, hm, s, h => by
    rw [walk]
    exact g_guarded cfg _ (fun y hy => g_leave (fun z hz => g_evalCheck cfg e _ hz)
      (walk_g cfg P x id e (fun hp => by have := hm hp; simpa [mentions] using this) _ hy)) h
  | .const (.id n p ty) e pt, hm, s, h => by
    rw [walk]
    exact g_guarded cfg _ (fun y hy => g_constK cfg _ e
      (walk_g cfg P x id e (fun hp => by have := hm hp; simpa [mentions] using this)) hy) h
  | .decodecl n block p, hm, s, h => by
    rw [walk]
    exact g_guarded cfg _ (fun y hy => g_declare _ _ _ _ _
      (fun sy z hz => g_leave (fun w hw => g_closeDeco sy _ hw)
        (walk_g cfg P x id block (fun hp => by have := hm hp; simpa [mentions] using this) _ (g_openDecoScope hz))) hy) h
  | .deco n block p, hm, s, h => by
    rw [walk]
    have hm' : P → n ≠ x ∧ mentions x block = false := fun hp => by
      have := hm hp; simp only [mentions, Bool.or_eq_false_iff] at this; exact ⟨ne_of_beq_false this.1, this.2⟩
    exact g_guarded cfg _ (fun y hy => g_decoK n _ (fun hp => (hm' hp).1)
      (walk_g cfg P x id block (fun hp => (hm' hp).2)) hy) h
  | .next p, _, s, h => by rw [walk]; exact g_guarded cfg _ (fun y hy => g_leave (fun z hz => g_doNext p hz) hy) h
  | .otherwise p, _, s, h => by rw [walk]; exact g_guarded cfg _ (fun y hy => g_leave (fun z hz => hz) hy) h
  | .stop p, _, s, h => by rw [walk]; exact g_guarded cfg _ (fun y hy => g_leave (fun z hz => hz) hy) h
  | .del n ex p, hm, s, h => by
    rw [walk]
    exact g_guarded cfg _ (fun y hy => g_leave (fun z hz => hz)
      (walk_g cfg P x id n (fun hp => by have := hm hp; simpa [mentions] using this) _ hy)) h
  | .conv n ty, hm, s, h => by
    rw [walk]
    exact g_guarded cfg _ (fun y hy => g_leave (fun z hz => hz)
      (walk_g cfg P x id n (fun hp => by have := hm hp; simpa [mentions] using this) _ hy)) h
  | .const .nil e pt, _, s, h => by
    rw [walk]; exact g_guarded cfg _ (fun y hy => g_core (b := cut y) hy rfl rfl rfl rfl rfl) h
  | .const (.stmts _) e pt, _, s, h => by
    rw [walk]; exact g_guarded cfg _ (fun y hy => g_core (b := cut y) hy rfl rfl rfl rfl rfl) h
  | .const (.exprs _) e pt, _, s, h => by
    rw [walk]; exact g_guarded cfg _ (fun y hy => g_core (b := cut y) hy rfl rfl rfl rfl rfl) h
  | .const (.cond _ _ _) e pt, _, s, h => by
    rw [walk]; exact g_guarded cfg _ (fun y hy => g_core (b := cut y) hy rfl rfl rfl rfl rfl) h
  | .const (.cap _ _ _ _) e pt, _, s, h => by
    rw [walk]; exact g_guarded cfg _ (fun y hy => g_core (b := cut y) hy rfl rfl rfl rfl rfl) h
  | .const (.builtin _ _ _ _) e pt, _, s, h => by
    rw [walk]; exact g_guarded cfg _ (fun y hy => g_core (b := cut y) hy rfl rfl rfl rfl rfl) h
  | .const (.bin _ _ _ _) e pt, _, s, h => by
    rw [walk]; exact g_guarded cfg _ (fun y hy => g_core (b := cut y) hy rfl rfl rfl rfl rfl) h
  | .const (.un _ _ _ _) e pt, _, s, h => by
    rw [walk]; exact g_guarded cfg _ (fun y hy => g_core (b := cut y) hy rfl rfl rfl rfl rfl) h
  | .const (.idx _ _ _) e pt, _, s, h => by
    rw [walk]; exact g_guarded cfg _ (fun y hy => g_core (b := cut y) hy rfl rfl rfl rfl rfl) h
  | .const (.decl _ _) e pt, _, s, h => by
    rw [walk]; exact g_guarded cfg _ (fun y hy => g_core (b := cut y) hy rfl rfl rfl rfl rfl) h
  | .const (.str _ _) e pt, _, s, h => by
    rw [walk]; exact g_guarded cfg _ (fun y hy => g_core (b := cut y) hy rfl rfl rfl rfl rfl) h
  | .const (.int _ _) e pt, _, s, h => by
    rw [walk]; exact g_guarded cfg _ (fun y hy => g_core (b := cut y) hy rfl rfl rfl rfl rfl) h
  | .const (.float _ _) e pt, _, s, h => by
    rw [walk]; exact g_guarded cfg _ (fun y hy => g_core (b := cut y) hy rfl rfl rfl rfl rfl) h
  | .const (.patexpr _ _) e pt, _, s, h => by
    rw [walk]; exact g_guarded cfg _ (fun y hy => g_core (b := cut y) hy rfl rfl rfl rfl rfl) h
  | .const (.patlit _ _) e pt, _, s, h => by
    rw [walk]; exact g_guarded cfg _ (fun y hy => g_core (b := cut y) hy rfl rfl rfl rfl rfl) h
  | .const (.const _ _ _) e pt, _, s, h => by
    rw [walk]; exact g_guarded cfg _ (fun y hy => g_core (b := cut y) hy rfl rfl rfl rfl rfl) h
  | .const (.decodecl _ _ _) e pt, _, s, h => by
    rw [walk]; exact g_guarded cfg _ (fun y hy => g_core (b := cut y) hy rfl rfl rfl rfl rfl) h
  | .const (.deco _ _ _) e pt, _, s, h => by
    rw [walk]; exact g_guarded cfg _ (fun y hy => g_core (b := cut y) hy rfl rfl rfl rfl rfl) h
  | .const (.next _) e pt, _, s, h => by
    rw [walk]; exact g_guarded cfg _ (fun y hy => g_core (b := cut y) hy rfl rfl rfl rfl rfl) h
  | .const (.otherwise _) e pt, _, s, h => by
    rw [walk]; exact g_guarded cfg _ (fun y hy => g_core (b := cut y) hy rfl rfl rfl rfl rfl) h
  | .const (.stop _) e pt, _, s, h => by
    rw [walk]; exact g_guarded cfg _ (fun y hy => g_core (b := cut y) hy rfl rfl rfl rfl rfl) h
  | .const (.del _ _ _) e pt, _, s, h => by
    rw [walk]; exact g_guarded cfg _ (fun y hy => g_core (b := cut y) hy rfl rfl rfl rfl rfl) h
  | .const (.conv _ _) e pt, _, s, h => by
    rw [walk]; exact g_guarded cfg _ (fun y hy => g_core (b := cut y) hy rfl rfl rfl rfl rfl) h
  | .const (.error _ _) e pt, _, s, h => by
    rw [walk]; exact g_guarded cfg _ (fun y hy => g_core (b := cut y) hy rfl rfl rfl rfl rfl) h
theorem walkList_g (cfg : Cfg) (P : Prop) (x : String) (id : Nat) : ∀ (ns : Nodes), (P → mentionsList x ns = false) →
    ∀ s, G P x id s → G P x id (walkList cfg ns s)
  | .nil, _, s, h => by rw [walkList]; exact h
  | .cons n ns, hm, s, h => by
    rw [walkList]
    have hm' : P → mentions x n = false ∧ mentionsList x ns = false := fun hp => by
      have := hm hp; simp only [mentionsList, Bool.or_eq_false_iff] at this; exact this
    exact walkList_g cfg P x id ns (fun hp => (hm' hp).2) _ (walk_g cfg P x id n (fun hp => (hm' hp).1) _ h)
end

/-! ### a declaration nobody refers to is rejected, wherever it stands -/

/-- the innermost scope holds the entry `(x, id)` -/
def TopHasE (x : String) (id : Nat) (fr : List Frame) : Prop := ∃ f r, fr = f :: r ∧ (x, id) ∈ f

theorem TopHasE.grows {x : String} {id : Nat} {a b : List Frame} (h : TopHasE x id a) (g : Grows a b) : TopHasE x id b := by
  obtain ⟨f, r, rfl, hm⟩ := h
  cases b with
  | nil => simp [Grows] at g
  | cons g' r' =>
    obtain ⟨_, extra, he⟩ := g
    exact ⟨g', r', rfl, by rw [he]; simp [hm]⟩

theorem foldl_grows {α : Type} (step : St → α → St) (Q : St → Prop) (hQ : ∀ s a, Q s → Q (step s a))
    (hm : ∀ s a, Ext s (step s a)) (a0 : α) (hfire : ∀ s, Q s → s.errors.length < (step s a0).errors.length) :
    ∀ (l : List α), a0 ∈ l → ∀ s, Q s → s.errors.length < (l.foldl step s).errors.length := by
  intro l
  induction l with
  | nil => intro h; simp at h
  | cons a l ih =>
    intro hmem s hq
    simp only [List.foldl_cons]
    simp only [List.mem_cons] at hmem
    by_cases he : a0 = a
    · subst he
      have h1 := hfire s hq
      have h2 := ext_len (ext_foldl step hm l (step s a0))
      omega
    · have hl : a0 ∈ l := by rcases hmem with h | h; exact absurd h he; exact h
      have h1 := ih hl (step s a) (hQ s a hq)
      have h2 := ext_len (hm s a)
      omega

/-- the sweep at the end of a block reports the unused symbol -/
theorem sweep_fires {x : String} {id : Nat} {s : St} (h : G True x id s) (ht : TopHasE x id s.frames) :
    s.errors.length < (sweep s).errors.length := by
  obtain ⟨f, r, hf, hmem⟩ := ht
  obtain ⟨sy, h1, _, h3⟩ := h.symx trivial
  have hid : sy.id = id := h.ids id sy h1
  have hun : id ∉ s.used := h.unused trivial
  unfold sweep
  rw [hf]
  simp only
  refine foldl_grows _ (fun s' => s'.syms = s.syms ∧ s'.used = s.used) ?_ ?_ (x, id) ?_ f hmem s ⟨rfl, rfl⟩
  · intro s' e hq
    split
    · split
      · exact hq
      · split
        · exact hq
        · exact hq
    · exact hq
  · intro s' e
    split
    · split
      · exact Ext.refl _
      · split
        · exact Ext.refl _
        · exact ext_err _ _ _
    · exact Ext.refl _
  · intro s' hq
    have hs : s'.sym id = some sy := by unfold St.sym; rw [hq.1]; exact h1
    simp only [hs]
    have hc : sy.id ∉ s'.used := by
      rw [hq.2, hid]
      exact hun
    simp [hc, h3, St.err]

theorem frG_fresh {x : String} {syms : List Sym} (sy : Sym) {f : Frame} (h : FrG False x 0 syms f) :
    FrG True x syms.length (syms ++ [sy]) f := by
  intro e he
  have := (h e he).1
  exact ⟨by simp; omega, fun _ h2 => by omega⟩

theorem g_weaken {x : String} {id : Nat} {s : St} (h : G True x id s) : G False x 0 s :=
  ⟨h.ids, h.ub, fun f hf e he => ⟨(h.frames f hf e he).1, fun hp => hp.elim⟩,
   fun f hf e he => ⟨(h.decos f hf e he).1, fun hp => hp.elim⟩,
   fun z hz e he => ⟨(h.zyg z hz e he).1, fun hp => hp.elim⟩, fun hp => hp.elim, fun hp => hp.elim⟩

/-- a fresh declaration of `x`: afterwards its symbol is in the innermost scope, unused and keyed `x`
    (or an error was reported) -/
theorem declare_unused (x : String) (k : Kind) (p : Option Pos) (c : Cls) (dp : Option Pos) {ok : Sym → St → St}
    (hok : ∀ sy, FK (ok sy)) (hg : ∀ id sy y, G True x id y → G True x id (ok sy y)) (hk : k ≠ .capref)
    (s : St) (hs : s.tooDeep = false) (hw : G False x 0 s) (hne : s.frames ≠ []) :
    (G True x s.syms.length (declare x k p c dp ok s) ∧ TopHasE x s.syms.length (declare x k p c dp ok s).frames ∧
        (declare x k p c dp ok s).tooDeep = false) ∨
      s.errors.length < (declare x k p c dp ok s).errors.length := by
  cases hfr : s.frames with
  | nil => exact absurd hfr hne
  | cons f r =>
    cases hgt : frameGet f x with
    | some i => right; exact declare_dup x k p c dp ok s ⟨f, r, i, hfr, hgt⟩
    | none =>
      unfold declare
      have h1 : insertTop (s.newSym x k p).1 x (s.newSym x k p).2.id =
          ({ (s.newSym x k p).1 with frames := (f ++ [(x, (s.newSym x k p).2.id)]) :: r }, none) := by
        unfold insertTop
        simp [St.newSym, hfr, hgt]
      simp only [h1, Option.isSome_none, Bool.false_eq_true, if_false]
      have hL : (s.newSym x k p).2.id = s.syms.length := rfl
      have hw1 : G False x 0 (s.newSym x k p).1 := g_newSym x k p 0 hw
      have hg3 : G True x s.syms.length ({ (s.newSym x k p).1 with frames := (f ++ [(x, (s.newSym x k p).2.id)]) :: r } : St) := by
        refine ⟨hw1.ids, hw1.ub, ?_, ?_, ?_, ?_, ?_⟩
        · intro g hg'
          simp only [List.mem_cons] at hg'
          rcases hg' with rfl | hg'
          · intro e he
            simp only [List.mem_append, List.mem_singleton] at he
            rcases he with he | rfl
            · exact frG_fresh _ (hw.frames f (by rw [hfr]; simp)) e he
            · exact ⟨by simp [St.newSym], fun _ _ => rfl⟩
          · exact frG_fresh _ (hw.frames g (by rw [hfr]; simp [hg']))
        · intro g hg'; exact frG_fresh _ (hw.decos g hg')
        · intro z hz; exact frG_fresh _ (hw.zyg z hz)
        · intro _ hm
          have := hw.ub _ hm
          omega
        · intro _
          exact ⟨(s.newSym x k p).2, by simp [St.newSym], rfl, hk⟩
      have htop : TopHasE x s.syms.length ({ (s.newSym x k p).1 with frames := (f ++ [(x, (s.newSym x k p).2.id)]) :: r } : St).frames :=
        ⟨_, r, rfl, by simp [hL]⟩
      have hs' : ({ (s.newSym x k p).1 with frames := (f ++ [(x, (s.newSym x k p).2.id)]) :: r } : St).tooDeep = false := hs
      rcases (hok (s.newSym x k p).2).tr.keeps _ hs' with ⟨_, h2⟩ | h
      · rcases (hok (s.newSym x k p).2).fr _ hs' with g | h
        · left; exact ⟨hg _ _ _ hg3, htop.grows g, h2⟩
        · right; exact h
      · right; exact h

/-- the declaring statement -/
theorem decl_unused (cfg : Cfg) (x : String) : ∀ (n : Node), declName n = some x → mentions x n = false → ∀ s,
    s.tooDeep = false → G False x 0 s → s.frames ≠ [] →
    (G True x s.syms.length (walk cfg n s) ∧ TopHasE x s.syms.length (walk cfg n s).frames ∧ (walk cfg n s).tooDeep = false) ∨
      s.errors.length < (walk cfg n s).errors.length := by
  intro n hn hm s hs hw hne
  have key : ∀ (k : Kind) (p : Option Pos) (c : Cls) (dp : Option Pos) (ok : Sym → St → St), (∀ sy, FK (ok sy)) →
      (∀ id sy y, G True x id y → G True x id (ok sy y)) → k ≠ .capref →
      (G True x s.syms.length (guarded cfg n (declare x k p c dp ok) s) ∧
        TopHasE x s.syms.length (guarded cfg n (declare x k p c dp ok) s).frames ∧
        (guarded cfg n (declare x k p c dp ok) s).tooDeep = false) ∨
        s.errors.length < (guarded cfg n (declare x k p c dp ok) s).errors.length := by
    intro k p c dp ok hok hg hk
    unfold guarded
    split
    · right; unfold depthCut; simp [hs, St.err]
    · exact declare_unused x k p c dp hok hg hk { s with depth := s.depth + 1 } hs (g_core hw rfl rfl rfl rfl rfl) hne
  cases n with
  | decl d p =>
    simp only [declName, Option.some.injEq] at hn
    rw [walk]; unfold declK; rw [hn]
    refine key _ _ _ _ _ (fun sy => ?_) (fun id sy y hy => ?_) (by decide)
    · refine ⟨⟨fun s => ?_, fun s hs => ?_⟩, fun s hs => ?_⟩
      · split
        · exact Ext.trans (ext_err s _ _) (ext_cut _)
        · exact ext_leave ext_id
      · split
        · right; simp [cut, St.err]
        · exact (tr_leave Tr.id Tr.id').keeps s hs
      · split
        · right; simp [cut, St.err]
        · exact (fk_leave fk_id fk_id').fr s hs
    · split
      · exact g_core hy rfl rfl rfl rfl rfl
      · exact g_leave (fun z hz => hz) hy
  | decodecl name block p =>
    simp only [declName, Option.some.injEq] at hn
    simp only [mentions] at hm
    rw [walk, hn]
    exact key _ _ _ _ _ (fun sy => fk_openDeco_close (walk_fk cfg block) sy _)
      (fun id sy y hy => g_leave (fun w hw => g_closeDeco sy _ hw) (walk_g cfg True x id block (fun _ => hm) _ (g_openDecoScope hy)))
      (by decide)
  | const i e pt =>
    cases i with
    | id name p ty =>
      simp only [declName, Option.some.injEq] at hn
      simp only [mentions] at hm
      rw [walk]; unfold constK; simp only; rw [hn]
      exact key _ _ _ _ _ (fun sy => fk_leave (walk_fk cfg e) (fk_recordPattern cfg sy e))
        (fun id sy y hy => g_leave (fun z hz => g_recordPattern cfg sy e hz) (walk_g cfg True x id e (fun _ => hm) _ hy))
        (by decide)
    | _ => simp [declName] at hn
  | _ => simp [declName] at hn

/-- the statements after the declaration, then the end of the block -/
theorem rest_unused (cfg : Cfg) (x : String) (id : Nat) : ∀ (ns : Nodes), mentionsList x ns = false → ∀ s, s.tooDeep = false →
    G True x id s → TopHasE x id s.frames →
    s.errors.length < (leave (walkList cfg ns s) fun s => pop (sweep s)).errors.length
  | .nil, _, s, hs, hg, ht => by
    rw [walkList]
    unfold leave
    simp only [hs]
    have := sweep_fires hg ht
    simpa [pop] using this
  | .cons n ns, hm, s, hs, hg, ht => by
    rw [walkList]
    simp only [mentionsList, Bool.or_eq_false_iff] at hm
    have m1 := ext_len (walk_ext cfg n s)
    have m2 := ext_len (walkList_ext cfg ns (walk cfg n s))
    have m3 := ext_len (ext_leave (s := walkList cfg ns (walk cfg n s)) (Tr.comp tr_sweep tr_pop).mono)
    rcases (walk_fk cfg n).tr.keeps s hs with ⟨_, h2⟩ | hgrow
    · rcases (walk_fk cfg n).fr s hs with g | hgrow
      · have := rest_unused cfg x id ns hm.2 (walk cfg n s) h2 (walk_g cfg True x id n (fun _ => hm.1) s hg) (ht.grows g)
        omega
      · omega
    · omega

/-- a block one of whose statements declares `x` -/
theorem block_unused (cfg : Cfg) (x : String) : ∀ (ns : Nodes), declaredIn x ns = true → mentionsList x ns = false → ∀ s,
    s.tooDeep = false → G False x 0 s → s.frames ≠ [] →
    s.errors.length < (leave (walkList cfg ns s) fun s => pop (sweep s)).errors.length
  | .nil, h, _, _, _, _, _ => by simp [declaredIn] at h
  | .cons n ns, h, hm, s, hs, hw, hne => by
    rw [walkList]
    simp only [mentionsList, Bool.or_eq_false_iff] at hm
    have m1 := ext_len (walk_ext cfg n s)
    have m2 := ext_len (walkList_ext cfg ns (walk cfg n s))
    have m3 := ext_len (ext_leave (s := walkList cfg ns (walk cfg n s)) (Tr.comp tr_sweep tr_pop).mono)
    by_cases hd : declName n = some x
    · rcases decl_unused cfg x n hd hm.1 s hs hw hne with ⟨g1, g2, g3⟩ | hgrow
      · have := rest_unused cfg x s.syms.length ns hm.2 (walk cfg n s) g3 g1 g2
        omega
      · omega
    · have h' : declaredIn x ns = true := by
        simp only [declaredIn, Bool.or_eq_true, beq_iff_eq] at h
        rcases h with h | h
        · exact absurd h hd
        · exact h
      rcases (walk_fk cfg n).tr.keeps s hs with ⟨_, h2⟩ | hgrow
      · rcases (walk_fk cfg n).fr s hs with g | hgrow
        · have := block_unused cfg x ns h' hm.2 (walk cfg n s) h2 (walk_g cfg False x 0 n (fun hp => hp.elim) s hw)
            (grows_ne_nil g hne)
          omega
        · omega
      · omega

mutual
/-- does some block of the tree hold a statement that declares `x`? -/
def declaresInBlock (x : String) : Node → Bool
  | .stmts cs => declaredIn x cs || declaresInBlockList x cs
  | .cond _ t e => declaresInBlock x t || declaresInBlock x e
  | .decodecl _ block _ => declaresInBlock x block
  | .deco _ block _ => declaresInBlock x block
  | _ => false
def declaresInBlockList (x : String) : Nodes → Bool
  | .nil => false
  | .cons n ns => declaresInBlock x n || declaresInBlockList x ns
end

/-- below the depth limit, from a well-formed state, `f` reports an error -/
def FiresW (x : String) (f : St → St) : Prop :=
  ∀ s, s.tooDeep = false → G False x 0 s → s.errors.length < (f s).errors.length

structure TrW (x : String) (f : St → St) : Prop where
  tr : Tr f
  wf : ∀ s, G False x 0 s → G False x 0 (f s)

theorem TrW.comp {x : String} {f g : St → St} (hf : TrW x f) (hg : TrW x g) : TrW x (fun s => g (f s)) :=
  ⟨Tr.comp hf.tr hg.tr, fun s h => hg.wf _ (hf.wf s h)⟩

theorem trW_walk (cfg : Cfg) (x : String) (n : Node) : TrW x (walk cfg n) :=
  ⟨walk_tr cfg n, walk_g cfg False x 0 n (fun hp => hp.elim)⟩
theorem trW_walkList (cfg : Cfg) (x : String) (ns : Nodes) : TrW x (walkList cfg ns) :=
  ⟨walkList_tr cfg ns, walkList_g cfg False x 0 ns (fun hp => hp.elim)⟩
theorem trW_push (x : String) : TrW x (fun s => push s []) :=
  ⟨tr_push [], fun _ h => g_push [] (frG_nil _ _ _ _) h⟩

theorem firesW_then {x : String} {f g : St → St} (hf : FiresW x f) (hg : ∀ s, Ext s (g s)) : FiresW x (fun s => g (f s)) := by
  intro s h1 h2
  show s.errors.length < (g (f s)).errors.length
  have := hf s h1 h2
  have := ext_len (hg (f s))
  omega

theorem then_firesW {x : String} {f g : St → St} (hf : TrW x f) (hg : FiresW x g) (mg : ∀ s, Ext s (g s)) :
    FiresW x (fun s => g (f s)) := by
  intro s h1 h2
  show s.errors.length < (g (f s)).errors.length
  have m1 := ext_len (hf.tr.mono s)
  have m2 := ext_len (mg (f s))
  rcases hf.tr.keeps s h1 with ⟨_, h4⟩ | h
  · have := hg (f s) h4 (hf.wf s h2)
    omega
  · omega

theorem firesW_guarded {x : String} (cfg : Cfg) (n : Node) {k : St → St} (hk : FiresW x k) : FiresW x (guarded cfg n k) := by
  intro s h1 h2
  unfold guarded
  split
  · unfold depthCut
    simp [h1, St.err]
  · exact hk { s with depth := s.depth + 1 } h1 (g_core h2 rfl rfl rfl rfl rfl)

theorem firesW_leave_before {x : String} {f k : St → St} (hf : FiresW x f) (mk : ∀ s, Ext s (k s)) :
    FiresW x (fun s => leave (f s) k) := by
  intro s h1 h2
  show s.errors.length < (leave (f s) k).errors.length
  have := hf s h1 h2
  have := ext_len (ext_leave (s := f s) mk)
  omega

theorem firesW_declare {x : String} (n : String) (k : Kind) (p : Option Pos) (c : Cls) (dp : Option Pos) {ok : Sym → St → St}
    (hok : ∀ sy, FiresW x (ok sy)) : FiresW x (declare n k p c dp ok) := by
  intro s h1 h2
  unfold declare
  simp only
  have hsame := same_insertTop (s.newSym n k p).1 n (s.newSym n k p).2.id
  have hlen := ext_len (ext_insertTop (s.newSym n k p).1 n (s.newSym n k p).2.id)
  have e0 : s.errors.length = (s.newSym n k p).1.errors.length := rfl
  have i1 : G False x 0 (s.newSym n k p).1 := g_newSym n k p 0 h2
  have i2 : G False x 0 (insertTop (s.newSym n k p).1 n (s.newSym n k p).2.id).1 :=
    g_insertTop n _ ⟨by simp [St.newSym], fun hp => hp.elim⟩ i1
  split
  · simp [cut, St.err]; omega
  · have := hok (s.newSym n k p).2 _ (by rw [hsame.2]; exact h1) i2
    omega

theorem firesW_decoK {x : String} (n : String) (w : Option Pos) {wb : St → St} (hwb : FiresW x wb) :
    FiresW x (decoK n w wb) := by
  intro s h1 h2
  unfold decoK
  split
  · simp [cut, St.err]
  · next sy hl =>
    have e1 : (markUsed s sy.id).errors = s.errors := by unfold markUsed; split <;> rfl
    have t1 : (markUsed s sy.id).tooDeep = s.tooDeep := by unfold markUsed; split <;> rfl
    have hlk := g_lookup h2 hl (fun hp => hp.elim)
    have hm : G False x 0 (markUsed s sy.id) := g_markUsed _ hlk.1 (fun hp => hp.elim) h2
    split
    · simp only [cut, St.err, List.length_append, List.length_cons, List.length_nil, e1]; omega
    · next z _ =>
      have := hwb (push (markUsed s sy.id) (flatten (markUsed s sy.id) [z.2] [])) (by simp [push, t1, h1])
        (g_push _ (frG_flatten hm _ _ (frG_nil _ _ _ _)) hm)
      have hl' := ext_len (ext_leave (s := wb (push (markUsed s sy.id) (flatten (markUsed s sy.id) [z.2] []))) ext_pop)
      have e2 : (push (markUsed s sy.id) (flatten (markUsed s sy.id) [z.2] [])).errors.length = s.errors.length := by
        simp [push, e1]
      omega

mutual
/-- **a declaration nobody refers to is rejected, wherever it stands** -/
theorem unused_fires (cfg : Cfg) (x : String) : ∀ (n : Node), declaresInBlock x n = true → mentions x n = false →
    FiresW x (walk cfg n)
  | .stmts cs, h, hm => by
    have : walk cfg (.stmts cs) = guarded cfg (.stmts cs) (fun s => leave (walkList cfg cs (push s)) fun s => pop (sweep s)) := by
      funext s; rw [walk]
    rw [this]
    simp only [declaresInBlock, Bool.or_eq_true] at h
    simp only [mentions] at hm
    refine firesW_guarded cfg _ ?_
    rcases h with h | h
    · intro s hs hw
      exact block_unused cfg x cs h hm (push s) hs (g_push [] (frG_nil _ _ _ _) hw) (by simp [push])
    · exact firesW_leave_before
        (then_firesW (trW_push x) (unusedList_fires cfg x cs h hm) (walkList_tr cfg cs).mono) (Tr.comp tr_sweep tr_pop).mono
  | .cond c t e, h, hm => by
    have : walk cfg (.cond c t e) = guarded cfg (.cond c t e)
        (fun s => leave (walk cfg e (walk cfg t (walk cfg c (push s)))) fun s => pop (sweep s)) := by
      funext s; rw [walk]
    rw [this]
    simp only [declaresInBlock, Bool.or_eq_true] at h
    simp only [mentions, Bool.or_eq_false_iff] at hm
    refine firesW_guarded cfg _ (firesW_leave_before ?_ (Tr.comp tr_sweep tr_pop).mono)
    rcases h with h | h
    · exact firesW_then (f := fun s => walk cfg t (walk cfg c (push s)))
        (then_firesW (f := fun s => walk cfg c (push s)) (TrW.comp (trW_push x) (trW_walk cfg x c)) (unused_fires cfg x t h hm.1.2)
          (walk_tr cfg t).mono) (walk_tr cfg e).mono
    · exact then_firesW (f := fun s => walk cfg t (walk cfg c (push s)))
        (TrW.comp (TrW.comp (trW_push x) (trW_walk cfg x c)) (trW_walk cfg x t)) (unused_fires cfg x e h hm.2) (walk_tr cfg e).mono
  | .decodecl name block p, h, hm => by
    have : walk cfg (.decodecl name block p) = guarded cfg (.decodecl name block p)
        (declare name .deco (some p) .redeclDeco (merge (some p) (posOf block)) fun sy s =>
          leave (walk cfg block (openDecoScope s)) (closeDeco sy (merge (some p) (posOf block)))) := by
      funext s; rw [walk]
    rw [this]
    simp only [declaresInBlock] at h
    simp only [mentions] at hm
    refine firesW_guarded cfg _ (firesW_declare _ _ _ _ _ (fun sy => ?_))
    intro s h1 h2
    have := unused_fires cfg x block h hm (openDecoScope s) h1 (g_openDecoScope h2)
    have hl := ext_len (ext_leave (s := walk cfg block (openDecoScope s)) (ext_closeDeco sy (merge (some p) (posOf block))))
    have e0 : (openDecoScope s).errors.length = s.errors.length := rfl
    show s.errors.length < (leave (walk cfg block (openDecoScope s)) (closeDeco sy (merge (some p) (posOf block)))).errors.length
    omega
  | .deco name block p, h, hm => by
    have : walk cfg (.deco name block p) = guarded cfg (.deco name block p)
        (decoK name (merge (some p) (posOf block)) (walk cfg block)) := by funext s; rw [walk]
    rw [this]
    simp only [declaresInBlock] at h
    simp only [mentions, Bool.or_eq_false_iff] at hm
    exact firesW_guarded cfg _ (firesW_decoK name _ (unused_fires cfg x block h hm.2))
  | .exprs _, h, _ => by simp [declaresInBlock] at h
  | .nil, h, _ => by simp [declaresInBlock] at h
  | .id _ _ _, h, _ => by simp [declaresInBlock] at h
  | .cap _ _ _ _, h, _ => by simp [declaresInBlock] at h
  | .builtin _ _ _ _, h, _ => by simp [declaresInBlock] at h
  | .bin _ _ _ _, h, _ => by simp [declaresInBlock] at h
  | .un _ _ _ _, h, _ => by simp [declaresInBlock] at h
  | .idx _ _ _, h, _ => by simp [declaresInBlock] at h
  | .decl _ _, h, _ => by simp [declaresInBlock] at h
  | .str _ _, h, _ => by simp [declaresInBlock] at h
  | .int _ _, h, _ => by simp [declaresInBlock] at h
  | .float _ _, h, _ => by simp [declaresInBlock] at h
  | .patexpr _ _, h, _ => by simp [declaresInBlock] at h
  | .patlit _ _, h, _ => by simp [declaresInBlock] at h
  | .const _ _ _, h, _ => by simp [declaresInBlock] at h
  | .next _, h, _ => by simp [declaresInBlock] at h
  | .otherwise _, h, _ => by simp [declaresInBlock] at h
  | .stop _, h, _ => by simp [declaresInBlock] at h
  | .del _ _ _, h, _ => by simp [declaresInBlock] at h
  | .conv _ _, h, _ => by simp [declaresInBlock] at h
  | .error _ _, h, _ => by simp [declaresInBlock] at h
theorem unusedList_fires (cfg : Cfg) (x : String) : ∀ (ns : Nodes), declaresInBlockList x ns = true → mentionsList x ns = false →
    FiresW x (walkList cfg ns)
  | .nil, h, _ => by simp [declaresInBlockList] at h
  | .cons n ns, h, hm => by
    have : walkList cfg (.cons n ns) = fun s => walkList cfg ns (walk cfg n s) := by funext s; rw [walkList]
    rw [this]
    simp only [declaresInBlockList, Bool.or_eq_true] at h
    simp only [mentionsList, Bool.or_eq_false_iff] at hm
    rcases h with h | h
    · exact firesW_then (unused_fires cfg x n h hm.1) (walkList_tr cfg ns).mono
    · exact then_firesW (trW_walk cfg x n) (unusedList_fires cfg x ns h hm.2) (walkList_tr cfg ns).mono
end
end MtailVerif.Scope
