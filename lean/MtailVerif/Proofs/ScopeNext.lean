import MtailVerif.Proofs.Scope
/-! `next` outside a decorator definition is rejected wherever it stands: a statement over all
    programs, proved with a small algebra of state transformers. -/
namespace MtailVerif.Scope
open MtailVerif MtailVerif.Ast

theorem ext_len {a b : St} (h : Ext a b) : a.errors.length ≤ b.errors.length := by
  obtain ⟨m, e⟩ := h; rw [e]; simp

/-- `f` never removes an error and, from a state that has not hit the depth limit, either leaves the
    decorator stack at the same height (and the limit not hit) or reports an error -/
structure Tr (f : St → St) : Prop where
  mono : ∀ s, Ext s (f s)
  keeps : ∀ s, s.tooDeep = false →
    ((f s).decoScopes.length = s.decoScopes.length ∧ (f s).tooDeep = false) ∨ s.errors.length < (f s).errors.length

/-- outside every decorator definition (and below the depth limit) `f` reports an error -/
def Fires (f : St → St) : Prop :=
  ∀ s, s.tooDeep = false → s.decoScopes = [] → s.errors.length < (f s).errors.length

theorem Tr.comp {f g : St → St} (hf : Tr f) (hg : Tr g) : Tr (fun s => g (f s)) where
  mono s := Ext.trans (hf.mono s) (hg.mono _)
  keeps s hs := by
    have m1 := ext_len (hf.mono s)
    have m2 := ext_len (hg.mono (f s))
    rcases hf.keeps s hs with ⟨h1, h2⟩ | h
    · rcases hg.keeps (f s) h2 with ⟨h3, h4⟩ | h'
      · left; exact ⟨by rw [h3, h1], h4⟩
      · right; omega
    · right; omega

/-- a transformer that touches neither errors, decorator stack nor the limit flag -/
theorem Tr.neutral {f : St → St} (he : ∀ s, (f s).errors = s.errors) (hd : ∀ s, (f s).decoScopes = s.decoScopes)
    (ht : ∀ s, (f s).tooDeep = s.tooDeep) : Tr f where
  mono s := ext_of_errors_eq (he s)
  keeps s hs := Or.inl ⟨by rw [hd], by rw [ht, hs]⟩

/-- a transformer that only appends errors -/
theorem Tr.errs {f : St → St} (hm : ∀ s, Ext s (f s)) (hd : ∀ s, (f s).decoScopes = s.decoScopes)
    (ht : ∀ s, (f s).tooDeep = s.tooDeep) : Tr f where
  mono := hm
  keeps s hs := Or.inl ⟨by rw [hd], by rw [ht, hs]⟩

theorem Tr.id : Tr (fun s => s) := Tr.neutral (fun _ => rfl) (fun _ => rfl) (fun _ => rfl)
theorem Tr.id' : Tr (_root_.id : St → St) := Tr.neutral (fun _ => rfl) (fun _ => rfl) (fun _ => rfl)

theorem fires_then {f g : St → St} (hf : Fires f) (hg : ∀ s, Ext s (g s)) : Fires (fun s => g (f s)) := by
  intro s h1 h2
  show s.errors.length < (g (f s)).errors.length
  have := hf s h1 h2
  have := ext_len (hg (f s))
  omega

theorem then_fires {f g : St → St} (hf : Tr f) (hg : Fires g) (mg : ∀ s, Ext s (g s)) : Fires (fun s => g (f s)) := by
  intro s h1 h2
  show s.errors.length < (g (f s)).errors.length
  have m1 := ext_len (hf.mono s)
  have m2 := ext_len (mg (f s))
  rcases hf.keeps s h1 with ⟨h3, h4⟩ | h
  · have hnil : (f s).decoScopes = [] := by
      have : (f s).decoScopes.length = 0 := by rw [h3, h2]; rfl
      exact List.eq_nil_of_length_eq_zero this
    have := hg (f s) h4 hnil
    omega
  · omega

/-! ### the combinators -/

theorem tr_markUsed (i : Nat) : Tr (fun s => markUsed s i) := by
  refine Tr.neutral ?_ ?_ ?_ <;> intro s <;> unfold markUsed <;> split <;> rfl

theorem tr_push (f : Frame) : Tr (fun s => push s f) := Tr.neutral (fun _ => rfl) (fun _ => rfl) (fun _ => rfl)
theorem tr_pop : Tr pop := Tr.neutral (fun _ => rfl) (fun _ => rfl) (fun _ => rfl)
theorem tr_cut : Tr cut := Tr.neutral (fun _ => rfl) (fun _ => rfl) (fun _ => rfl)
theorem tr_err (c : Cls) (p : Option Pos) : Tr (fun s => s.err c p) :=
  Tr.errs (fun s => ext_err s c p) (fun _ => rfl) (fun _ => rfl)

theorem foldl_inv {α : Type} (f : St → α → St) (P : St → St → Prop) (hr : ∀ s, P s s)
    (ht : ∀ a b c, P a b → P b c → P a c) (hf : ∀ s a, P s (f s a)) (l : List α) (s : St) : P s (l.foldl f s) := by
  induction l generalizing s with
  | nil => exact hr s
  | cons a l ih => exact ht _ _ _ (hf s a) (ih (f s a))

/-- same decorator stack and limit flag -/
def Same (a b : St) : Prop := b.decoScopes = a.decoScopes ∧ b.tooDeep = a.tooDeep

theorem same_sweep (s : St) : Same s (sweep s) := by
  unfold sweep
  split
  · exact ⟨rfl, rfl⟩
  · refine foldl_inv _ Same (fun _ => ⟨rfl, rfl⟩) (fun a b c h1 h2 => ⟨by rw [h2.1, h1.1], by rw [h2.2, h1.2]⟩) ?_ _ s
    intro s e
    split
    · split
      · exact ⟨rfl, rfl⟩
      · split <;> exact ⟨rfl, rfl⟩
    · exact ⟨rfl, rfl⟩

theorem tr_sweep : Tr sweep :=
  Tr.errs ext_sweep (fun s => (same_sweep s).1) (fun s => (same_sweep s).2)

theorem same_insertTop (s : St) (k : String) (i : Nat) : Same s (insertTop s k i).1 := by
  unfold insertTop
  split
  · exact ⟨rfl, rfl⟩
  · split <;> exact ⟨rfl, rfl⟩

theorem same_insertOrErr (s : St) (k : String) (i : Nat) (p : Option Pos) : Same s (insertOrErr s k i p) := by
  unfold insertOrErr
  split
  · exact ⟨(same_insertTop s k i).1, (same_insertTop s k i).2⟩
  · exact same_insertTop s k i

theorem same_trans {a b c : St} (h1 : Same a b) (h2 : Same b c) : Same a c :=
  ⟨by rw [h2.1, h1.1], by rw [h2.2, h1.2]⟩

theorem same_addGroup (p : Option Pos) (s : St) (e : String × Nat) : Same s (addGroup p s e) := by
  unfold addGroup
  simp only
  split
  · exact same_trans (same_trans (same_trans (⟨rfl, rfl⟩ : Same s (s.newSym _ _ _ _).1) (same_insertOrErr _ _ _ _))
      (⟨rfl, rfl⟩ : Same _ (renameSym _ _ _))) (same_insertOrErr _ _ _ _)
  · exact same_trans (⟨rfl, rfl⟩ : Same s (s.newSym _ _ _ _).1) (same_insertOrErr _ _ _ _)

theorem same_checkRegex (cfg : Cfg) (s : St) (pat : Bytes) (p : Option Pos) : Same s (checkRegex cfg s pat p) := by
  unfold checkRegex
  split
  · exact ⟨rfl, rfl⟩
  · split
    · exact ⟨rfl, rfl⟩
    · split
      · exact ⟨rfl, rfl⟩
      · exact foldl_inv _ Same (fun _ => ⟨rfl, rfl⟩) (fun _ _ _ => same_trans) (same_addGroup p) _ s

theorem tr_evalCheck (cfg : Cfg) (e : Node) (p : Option Pos) : Tr (evalCheck cfg e p) := by
  refine Tr.errs (ext_evalCheck cfg e p) ?_ ?_ <;> intro s <;> unfold evalCheck <;> simp only <;> split
  · rfl
  · exact (same_checkRegex cfg _ _ _).1
  · rfl
  · exact (same_checkRegex cfg _ _ _).2

theorem tr_recordPattern (cfg : Cfg) (sy : Sym) (e : Node) : Tr (recordPattern cfg sy e) := by
  refine Tr.errs (ext_recordPattern cfg sy e) ?_ ?_ <;> intro s <;> unfold recordPattern <;> simp only <;> split <;>
    first | rfl | (split <;> rfl)

/-- `leave (f s) k` -/
theorem tr_leave {f k : St → St} (hf : Tr f) (hk : Tr k) : Tr (fun s => leave (f s) k) where
  mono s := Ext.trans (hf.mono s) (ext_leave hk.mono)
  keeps s hs := by
    have m1 := ext_len (hf.mono s)
    rcases hf.keeps s hs with ⟨h1, h2⟩ | h
    · unfold leave
      simp only [h2]
      have m2 := ext_len (hk.mono (f s))
      rcases hk.keeps (f s) h2 with ⟨h3, h4⟩ | h'
      · left; exact ⟨by simp [h3, h1], by simp [h4]⟩
      · right; simp; omega
    · right
      have := ext_len (ext_leave (s := f s) hk.mono)
      omega

theorem tr_guarded (cfg : Cfg) (n : Node) {k : St → St} (hk : Tr k) : Tr (guarded cfg n k) where
  mono := ext_guarded cfg n k hk.mono
  keeps s hs := by
    unfold guarded
    split
    · right
      unfold depthCut
      simp [hs, St.err]
    · rcases hk.keeps { s with depth := s.depth + 1 } hs with h | h
      · left; exact h
      · right; exact h

theorem fires_guarded (cfg : Cfg) (n : Node) {k : St → St} (hk : Fires k) : Fires (guarded cfg n k) := by
  intro s h1 h2
  unfold guarded
  split
  · unfold depthCut
    simp [h1, St.err]
  · exact hk { s with depth := s.depth + 1 } h1 h2

theorem tr_declare (name : String) (k : Kind) (p : Option Pos) (c : Cls) (dp : Option Pos) {ok : Sym → St → St}
    (hok : ∀ sy, Tr (ok sy)) : Tr (declare name k p c dp ok) where
  mono := ext_declare name k p c dp ok (fun sy => (hok sy).mono)
  keeps s hs := by
    unfold declare
    simp only
    have hsame := same_insertTop (s.newSym name k p).1 name (s.newSym name k p).2.id
    split
    · right
      have := ext_len (ext_insertTop (s.newSym name k p).1 name (s.newSym name k p).2.id)
      simp [cut, St.err] at this ⊢
      exact Nat.lt_succ_of_le this
    · have hs' : (insertTop (s.newSym name k p).1 name (s.newSym name k p).2.id).1.tooDeep = false := by
        rw [hsame.2]; exact hs
      have hlen := ext_len (ext_insertTop (s.newSym name k p).1 name (s.newSym name k p).2.id)
      rcases (hok _).keeps _ hs' with ⟨h1, h2⟩ | h
      · left; exact ⟨by rw [h1, hsame.1]; rfl, h2⟩
      · right
        have : s.errors.length = (s.newSym name k p).1.errors.length := rfl
        omega

theorem fires_declare (name : String) (k : Kind) (p : Option Pos) (c : Cls) (dp : Option Pos) {ok : Sym → St → St}
    (hok : ∀ sy, Fires (ok sy)) : Fires (declare name k p c dp ok) := by
  intro s h1 h2
  unfold declare
  simp only
  have hsame := same_insertTop (s.newSym name k p).1 name (s.newSym name k p).2.id
  have hlen := ext_len (ext_insertTop (s.newSym name k p).1 name (s.newSym name k p).2.id)
  have e0 : s.errors.length = (s.newSym name k p).1.errors.length := rfl
  split
  · simp [cut, St.err]; omega
  · have := hok (s.newSym name k p).2 _ (by rw [hsame.2]; exact h1) (by rw [hsame.1]; exact h2)
    omega

theorem tr_closeDeco (sy : Sym) (w : Option Pos) : ∀ s, Ext s (closeDeco sy w s) := ext_closeDeco sy w

theorem tr_doNext (p : Pos) : Tr (doNext p) where
  mono := ext_doNext p
  keeps s hs := by
    unfold doNext
    split
    · right; simp [St.err]
    · split
      · right; simp [St.err]
      · left
        next _ ds rest heq _ => exact ⟨by simp [heq], hs⟩

theorem fires_doNext (p : Pos) : Fires (doNext p) := by
  intro s _ h2
  unfold doNext
  simp [h2, St.err]

theorem fires_leave_after {f k : St → St} (hf : Tr f) (hk : Fires k) (mk : ∀ s, Ext s (k s)) :
    Fires (fun s => leave (f s) k) := by
  intro s h1 h2
  show s.errors.length < (leave (f s) k).errors.length
  have m1 := ext_len (hf.mono s)
  rcases hf.keeps s h1 with ⟨h3, h4⟩ | h
  · unfold leave
    simp only [h4]
    have hnil : (f s).decoScopes = [] := by
      have : (f s).decoScopes.length = 0 := by rw [h3, h2]; rfl
      exact List.eq_nil_of_length_eq_zero this
    have := hk (f s) h4 hnil
    simp; omega
  · have := ext_len (ext_leave (s := f s) mk)
    omega

theorem fires_leave_before {f k : St → St} (hf : Fires f) (mk : ∀ s, Ext s (k s)) :
    Fires (fun s => leave (f s) k) := by
  intro s h1 h2
  show s.errors.length < (leave (f s) k).errors.length
  have := hf s h1 h2
  have := ext_len (ext_leave (s := f s) mk)
  omega

theorem leave_notDeep {s : St} (k : St → St) (h : s.tooDeep = false) :
    leave s k = { k s with depth := (k s).depth - 1 } := by
  unfold leave; simp [h]

theorem tr_openDeco_close {f : St → St} (hf : Tr f) (sy : Sym) (w : Option Pos) :
    Tr (fun s => leave (f (openDecoScope s)) (closeDeco sy w)) where
  mono s := Ext.trans (Ext.trans (ext_of_errors_eq (b := openDecoScope s) rfl) (hf.mono _)) (ext_leave (ext_closeDeco sy w))
  keeps s hs := by
    show ((leave (f (openDecoScope s)) (closeDeco sy w)).decoScopes.length = s.decoScopes.length ∧
      (leave (f (openDecoScope s)) (closeDeco sy w)).tooDeep = false) ∨
      s.errors.length < (leave (f (openDecoScope s)) (closeDeco sy w)).errors.length
    have m1 := ext_len (hf.mono (openDecoScope s))
    have e0 : (openDecoScope s).errors.length = s.errors.length := rfl
    have ml := ext_len (ext_leave (s := f (openDecoScope s)) (ext_closeDeco sy w))
    rcases hf.keeps (openDecoScope s) hs with ⟨h1, h2⟩ | h
    · rw [leave_notDeep _ h2]
      have hlen : (f (openDecoScope s)).decoScopes.length = s.decoScopes.length + 1 := by
        rw [h1]; simp [openDecoScope]
      cases hd : (f (openDecoScope s)).decoScopes with
      | nil => rw [hd] at hlen; simp at hlen
      | cons ds rest =>
        rw [hd] at hlen
        simp only [List.length_cons] at hlen
        unfold closeDeco
        simp only [hd]
        by_cases hde : ds.isEmpty = true
        · right
          simp only [hde, if_true, St.err, List.length_append, List.length_cons, List.length_nil]
          omega
        · left
          simp only [hde]
          refine ⟨?_, ?_⟩
          · show rest.length = s.decoScopes.length
            omega
          · exact h2
    · right; omega

theorem tr_idK (name : String) (p : Pos) : Tr (idK name p) where
  mono := ext_idK name p
  keeps s hs := by
    unfold idK
    split
    · exact (tr_leave (tr_markUsed _) Tr.id').keeps s hs
    · split
      · exact (tr_leave (tr_markUsed _) Tr.id').keeps s hs
      · right; simp [cut, St.err]

theorem tr_capK (name : String) (p : Pos) : Tr (capK name p) where
  mono := ext_capK name p
  keeps s hs := by
    unfold capK
    split
    · exact (tr_leave (tr_markUsed _) Tr.id').keeps s hs
    · right; simp [cut, St.err]

theorem tr_declK (d : Decl) (p : Pos) : Tr (declK d p) := by
  unfold declK
  refine tr_declare _ _ _ _ _ (fun sy => ⟨fun s => ?_, fun s hs => ?_⟩)
  · split
    · exact Ext.trans (ext_err s _ _) (ext_cut _)
    · exact ext_leave ext_id
  · split
    · right; simp [cut, St.err]
    · exact (tr_leave Tr.id Tr.id').keeps s hs

theorem tr_decoK (name : String) (w : Option Pos) {wb : St → St} (hwb : Tr wb) : Tr (decoK name w wb) where
  mono := ext_decoK name w wb hwb.mono
  keeps s hs := by
    unfold decoK
    split
    · right; simp [cut, St.err]
    · next sy _ =>
      have hm := (tr_markUsed sy.id).keeps s hs
      have hme := ext_len ((tr_markUsed sy.id).mono s)
      split
      · right; simp only [cut, St.err, List.length_append, List.length_cons, List.length_nil]; omega
      · next z _ =>
        have hT := tr_leave (Tr.comp (tr_push (flatten (markUsed s sy.id) [z.2] [])) hwb) tr_pop
        rcases hm with ⟨h1, h2⟩ | h
        · rcases hT.keeps (markUsed s sy.id) h2 with ⟨h3, h4⟩ | h'
          · left; exact ⟨by rw [h3, h1], h4⟩
          · right; omega
        · right
          have := ext_len (hT.mono (markUsed s sy.id))
          omega

theorem tr_constK (cfg : Cfg) (i e : Node) {we : St → St} (hwe : Tr we) : Tr (constK cfg i e we) := by
  unfold constK
  cases i with
  | id name p ty => exact tr_declare _ _ _ _ _ (fun sy => tr_leave hwe (tr_recordPattern cfg sy e))
  | _ => exact tr_cut

theorem tr_matchK (cfg : Cfg) (op : Op) (r : Node) : Tr (matchK cfg op r) := by
  unfold matchK
  by_cases hc : (op = .match ∨ op = .notMatch) ∧ isLiteralish r
  · simp only [hc, and_self, if_true]
    exact tr_guarded cfg r (tr_evalCheck cfg r (posOf r))
  · simp only [hc, if_false]
    exact Tr.id

theorem tr_idxK (cfg : Cfg) (lhs : Node) : Tr (idxK cfg lhs) where
  mono := ext_idxK cfg lhs
  keeps s hs := by
    unfold idxK
    split
    · exact (tr_evalCheck cfg lhs _).keeps s hs
    · exact Or.inl ⟨rfl, hs⟩

theorem tr_substK (name : String) (b : Bool) : Tr (substK name b) := by
  refine Tr.neutral ?_ ?_ ?_ <;> intro s <;> unfold substK <;> split <;> rfl

mutual
theorem walk_tr (cfg : Cfg) : ∀ (n : Node), Tr (walk cfg n)
  | .nil => by
    have : walk cfg .nil = fun s => s := by funext s; rw [walk]
    rw [this]; exact Tr.id
  | .error sp p => by
    have : walk cfg (.error sp p) = fun s => s := by funext s; rw [walk]
    rw [this]; exact Tr.id
  | .stmts cs => by
    have : walk cfg (.stmts cs) = guarded cfg (.stmts cs) (fun s => leave (walkList cfg cs (push s)) fun s => pop (sweep s)) := by
      funext s; rw [walk]
    rw [this]
    exact tr_guarded cfg _ (tr_leave (Tr.comp (tr_push []) (walkList_tr cfg cs)) (Tr.comp tr_sweep tr_pop))
  | .exprs cs => by
    have : walk cfg (.exprs cs) = guarded cfg (.exprs cs) (fun s => leave (walkList cfg cs s) id) := by
      funext s; rw [walk]
    rw [this]
    exact tr_guarded cfg _ (tr_leave (walkList_tr cfg cs) Tr.id')
  | .cond c t e => by
    have : walk cfg (.cond c t e) = guarded cfg (.cond c t e)
        (fun s => leave (walk cfg e (walk cfg t (walk cfg c (push s)))) fun s => pop (sweep s)) := by
      funext s; rw [walk]
    rw [this]
    exact tr_guarded cfg _ (tr_leave (Tr.comp (Tr.comp (Tr.comp (tr_push []) (walk_tr cfg c)) (walk_tr cfg t)) (walk_tr cfg e))
      (Tr.comp tr_sweep tr_pop))
  | .id name p ty => by
    have : walk cfg (.id name p ty) = guarded cfg (.id name p ty) (idK name p) := by funext s; rw [walk]
    rw [this]; exact tr_guarded cfg _ (tr_idK name p)
  | .cap name nd p ty => by
    have : walk cfg (.cap name nd p ty) = guarded cfg (.cap name nd p ty) (capK name p) := by funext s; rw [walk]
    rw [this]; exact tr_guarded cfg _ (tr_capK name p)
  | .builtin name args p ty => by
    have : walk cfg (.builtin name args p ty) = guarded cfg (.builtin name args p ty)
        (fun s => leave (walk cfg args (substK name true s)) (substK name false)) := by funext s; rw [walk]
    rw [this]
    exact tr_guarded cfg _ (tr_leave (Tr.comp (tr_substK name true) (walk_tr cfg args)) (tr_substK name false))
  | .bin op l r ty => by
    have : walk cfg (.bin op l r ty) = guarded cfg (.bin op l r ty)
        (fun s => leave (walk cfg r (walk cfg l s)) (matchK cfg op r)) := by funext s; rw [walk]
    rw [this]
    exact tr_guarded cfg _ (tr_leave (Tr.comp (walk_tr cfg l) (walk_tr cfg r)) (tr_matchK cfg op r))
  | .un op e p ty => by
    have : walk cfg (.un op e p ty) = guarded cfg (.un op e p ty) (fun s => leave (walk cfg e s) id) := by
      funext s; rw [walk]
    rw [this]
    exact tr_guarded cfg _ (tr_leave (walk_tr cfg e) Tr.id')
  | .idx lhs index ty => by
    have : walk cfg (.idx lhs index ty) = guarded cfg (.idx lhs index ty)
        (fun s => leave (walk cfg lhs (walk cfg index s)) (idxK cfg lhs)) := by funext s; rw [walk]
    rw [this]
    exact tr_guarded cfg _ (tr_leave (Tr.comp (walk_tr cfg index) (walk_tr cfg lhs)) (tr_idxK cfg lhs))
  | .decl d p => by
    have : walk cfg (.decl d p) = guarded cfg (.decl d p) (declK d p) := by funext s; rw [walk]
    rw [this]; exact tr_guarded cfg _ (tr_declK d p)
  | .str t p => by
    have : walk cfg (.str t p) = guarded cfg (.str t p) (fun s => leave s id) := by funext s; rw [walk]
    rw [this]; exact tr_guarded cfg _ (tr_leave Tr.id Tr.id')
  | .int i p => by
    have : walk cfg (.int i p) = guarded cfg (.int i p) (fun s => leave s id) := by funext s; rw [walk]
    rw [this]; exact tr_guarded cfg _ (tr_leave Tr.id Tr.id')
  | .float b p => by
    have : walk cfg (.float b p) = guarded cfg (.float b p) (fun s => leave s id) := by funext s; rw [walk]
    rw [this]; exact tr_guarded cfg _ (tr_leave Tr.id Tr.id')
  | .patlit t p => by
    have : walk cfg (.patlit t p) = guarded cfg (.patlit t p) (fun s => leave s id) := by funext s; rw [walk]
    rw [this]; exact tr_guarded cfg _ (tr_leave Tr.id Tr.id')
  | .patexpr e pt => by
    have : walk cfg (.patexpr e pt) = guarded cfg (.patexpr e pt) (fun s => leave (walk cfg e s) (evalCheck cfg e (posOf e))) := by
      funext s; rw [walk]
    rw [this]
    exact tr_guarded cfg _ (tr_leave (walk_tr cfg e) (tr_evalCheck cfg e _))
  | .const i e pt => by
    have : walk cfg (.const i e pt) = guarded cfg (.const i e pt) (constK cfg i e (walk cfg e)) := by funext s; rw [walk]
    rw [this]; exact tr_guarded cfg _ (tr_constK cfg i e (walk_tr cfg e))
  | .decodecl name block p => by
    have : walk cfg (.decodecl name block p) = guarded cfg (.decodecl name block p)
        (declare name .deco (some p) .redeclDeco (merge (some p) (posOf block)) fun sy s =>
          leave (walk cfg block (openDecoScope s)) (closeDeco sy (merge (some p) (posOf block)))) := by
      funext s; rw [walk]
    rw [this]
    exact tr_guarded cfg _ (tr_declare _ _ _ _ _ (fun sy => tr_openDeco_close (walk_tr cfg block) sy _))
  | .deco name block p => by
    have : walk cfg (.deco name block p) = guarded cfg (.deco name block p)
        (decoK name (merge (some p) (posOf block)) (walk cfg block)) := by funext s; rw [walk]
    rw [this]; exact tr_guarded cfg _ (tr_decoK name _ (walk_tr cfg block))
  | .next p => by
    have : walk cfg (.next p) = guarded cfg (.next p) (fun s => leave s (doNext p)) := by funext s; rw [walk]
    rw [this]; exact tr_guarded cfg _ (tr_leave Tr.id (tr_doNext p))
  | .otherwise p => by
    have : walk cfg (.otherwise p) = guarded cfg (.otherwise p) (fun s => leave s id) := by funext s; rw [walk]
    rw [this]; exact tr_guarded cfg _ (tr_leave Tr.id Tr.id')
  | .stop p => by
    have : walk cfg (.stop p) = guarded cfg (.stop p) (fun s => leave s id) := by funext s; rw [walk]
    rw [this]; exact tr_guarded cfg _ (tr_leave Tr.id Tr.id')
  | .del n ex p => by
    have : walk cfg (.del n ex p) = guarded cfg (.del n ex p) (fun s => leave (walk cfg n s) id) := by
      funext s; rw [walk]
    rw [this]; exact tr_guarded cfg _ (tr_leave (walk_tr cfg n) Tr.id')
  | .conv n ty => by
    have : walk cfg (.conv n ty) = guarded cfg (.conv n ty) (fun s => leave (walk cfg n s) id) := by
      funext s; rw [walk]
    rw [this]; exact tr_guarded cfg _ (tr_leave (walk_tr cfg n) Tr.id')
theorem walkList_tr (cfg : Cfg) : ∀ (ns : Nodes), Tr (walkList cfg ns)
  | .nil => by
    have : walkList cfg .nil = fun s => s := by funext s; rw [walkList]
    rw [this]; exact Tr.id
  | .cons n ns => by
    have : walkList cfg (.cons n ns) = fun s => walkList cfg ns (walk cfg n s) := by funext s; rw [walkList]
    rw [this]; exact Tr.comp (walk_tr cfg n) (walkList_tr cfg ns)
end

end MtailVerif.Scope

namespace MtailVerif.Scope
open MtailVerif MtailVerif.Ast

mutual
/-- does the tree contain a `next` that is not inside a decorator definition? -/
def hasNextOutside : Node → Bool
  | .next _ => true
  | .decodecl _ _ _ => false
  | .stmts cs => hasNextOutsideList cs
  | .exprs cs => hasNextOutsideList cs
  | .cond c t e => hasNextOutside c || hasNextOutside t || hasNextOutside e
  | .builtin _ args _ _ => hasNextOutside args
  | .bin _ l r _ => hasNextOutside l || hasNextOutside r
  | .un _ e _ _ => hasNextOutside e
  | .idx lhs index _ => hasNextOutside index || hasNextOutside lhs
  | .patexpr e _ => hasNextOutside e
  | .const (.id _ _ _) e _ => hasNextOutside e      -- the parser only builds constants named by an identifier
  | .deco _ block _ => hasNextOutside block
  | .del n _ _ => hasNextOutside n
  | .conv n _ => hasNextOutside n
  | _ => false
def hasNextOutsideList : Nodes → Bool
  | .nil => false
  | .cons n ns => hasNextOutside n || hasNextOutsideList ns
end

theorem fires_decoK (name : String) (w : Option Pos) {wb : St → St} (hwb : Fires wb) :
    Fires (decoK name w wb) := by
  intro s h1 h2
  unfold decoK
  split
  · simp [cut, St.err]
  · next sy _ =>
    have e1 : (markUsed s sy.id).errors = s.errors := by unfold markUsed; split <;> rfl
    have d1 : (markUsed s sy.id).decoScopes = s.decoScopes := by unfold markUsed; split <;> rfl
    have t1 : (markUsed s sy.id).tooDeep = s.tooDeep := by unfold markUsed; split <;> rfl
    split
    · simp only [cut, St.err, List.length_append, List.length_cons, List.length_nil, e1]; omega
    · next z _ =>
      have := hwb (push (markUsed s sy.id) (flatten (markUsed s sy.id) [z.2] [])) (by simp [push, t1, h1])
        (by simp [push, d1, h2])
      have hl := ext_len (ext_leave (s := wb (push (markUsed s sy.id) (flatten (markUsed s sy.id) [z.2] []))) ext_pop)
      have e2 : (push (markUsed s sy.id) (flatten (markUsed s sy.id) [z.2] [])).errors.length = s.errors.length := by
        simp [push, e1]
      omega

theorem fires_of_eq {f g : St → St} (h : f = g) (hg : Fires g) : Fires f := h ▸ hg

mutual
/-- **`next` outside a decorator is rejected, wherever it stands** -/
theorem next_fires (cfg : Cfg) : ∀ (n : Node), hasNextOutside n = true → Fires (walk cfg n)
  | .next p, _ => by
    have : walk cfg (.next p) = guarded cfg (.next p) (fun s => leave s (doNext p)) := by funext s; rw [walk]
    rw [this]
    exact fires_guarded cfg _ (fires_leave_after Tr.id (fires_doNext p) (ext_doNext p))
  | .stmts cs, h => by
    have : walk cfg (.stmts cs) = guarded cfg (.stmts cs) (fun s => leave (walkList cfg cs (push s)) fun s => pop (sweep s)) := by
      funext s; rw [walk]
    rw [this]
    simp only [hasNextOutside] at h
    exact fires_guarded cfg _ (fires_leave_before
      (then_fires (tr_push []) (nextList_fires cfg cs h) (walkList_tr cfg cs).mono) (Tr.comp tr_sweep tr_pop).mono)
  | .exprs cs, h => by
    have : walk cfg (.exprs cs) = guarded cfg (.exprs cs) (fun s => leave (walkList cfg cs s) id) := by
      funext s; rw [walk]
    rw [this]
    simp only [hasNextOutside] at h
    exact fires_guarded cfg _ (fires_leave_before (nextList_fires cfg cs h) ext_id)
  | .cond c t e, h => by
    have : walk cfg (.cond c t e) = guarded cfg (.cond c t e)
        (fun s => leave (walk cfg e (walk cfg t (walk cfg c (push s)))) fun s => pop (sweep s)) := by
      funext s; rw [walk]
    rw [this]
    simp only [hasNextOutside, Bool.or_eq_true] at h
    refine fires_guarded cfg _ (fires_leave_before ?_ (Tr.comp tr_sweep tr_pop).mono)
    rcases h with (h | h) | h
    · exact fires_then (f := fun s => walk cfg t (walk cfg c (push s)))
        (fires_then (f := fun s => walk cfg c (push s)) (then_fires (tr_push []) (next_fires cfg c h) (walk_tr cfg c).mono)
          (walk_tr cfg t).mono) (walk_tr cfg e).mono
    · exact fires_then (f := fun s => walk cfg t (walk cfg c (push s)))
        (then_fires (f := fun s => walk cfg c (push s)) (Tr.comp (tr_push []) (walk_tr cfg c)) (next_fires cfg t h)
          (walk_tr cfg t).mono) (walk_tr cfg e).mono
    · exact then_fires (f := fun s => walk cfg t (walk cfg c (push s)))
        (Tr.comp (Tr.comp (tr_push []) (walk_tr cfg c)) (walk_tr cfg t)) (next_fires cfg e h) (walk_tr cfg e).mono
  | .builtin name args p ty, h => by
    have : walk cfg (.builtin name args p ty) = guarded cfg (.builtin name args p ty)
        (fun s => leave (walk cfg args (substK name true s)) (substK name false)) := by funext s; rw [walk]
    rw [this]
    simp only [hasNextOutside] at h
    exact fires_guarded cfg _ (fires_leave_before
      (then_fires (tr_substK name true) (next_fires cfg args h) (walk_tr cfg args).mono) (tr_substK name false).mono)
  | .bin op l r ty, h => by
    have : walk cfg (.bin op l r ty) = guarded cfg (.bin op l r ty)
        (fun s => leave (walk cfg r (walk cfg l s)) (matchK cfg op r)) := by funext s; rw [walk]
    rw [this]
    simp only [hasNextOutside, Bool.or_eq_true] at h
    refine fires_guarded cfg _ (fires_leave_before ?_ (tr_matchK cfg op r).mono)
    rcases h with h | h
    · exact fires_then (next_fires cfg l h) (walk_tr cfg r).mono
    · exact then_fires (walk_tr cfg l) (next_fires cfg r h) (walk_tr cfg r).mono
  | .un op e p ty, h => by
    have : walk cfg (.un op e p ty) = guarded cfg (.un op e p ty) (fun s => leave (walk cfg e s) id) := by
      funext s; rw [walk]
    rw [this]
    simp only [hasNextOutside] at h
    exact fires_guarded cfg _ (fires_leave_before (next_fires cfg e h) ext_id)
  | .idx lhs index ty, h => by
    have : walk cfg (.idx lhs index ty) = guarded cfg (.idx lhs index ty)
        (fun s => leave (walk cfg lhs (walk cfg index s)) (idxK cfg lhs)) := by funext s; rw [walk]
    rw [this]
    simp only [hasNextOutside, Bool.or_eq_true] at h
    refine fires_guarded cfg _ (fires_leave_before ?_ (tr_idxK cfg lhs).mono)
    rcases h with h | h
    · exact fires_then (next_fires cfg index h) (walk_tr cfg lhs).mono
    · exact then_fires (walk_tr cfg index) (next_fires cfg lhs h) (walk_tr cfg lhs).mono
  | .patexpr e pt, h => by
    have : walk cfg (.patexpr e pt) = guarded cfg (.patexpr e pt) (fun s => leave (walk cfg e s) (evalCheck cfg e (posOf e))) := by
      funext s; rw [walk]
    rw [this]
    simp only [hasNextOutside] at h
    exact fires_guarded cfg _ (fires_leave_before (next_fires cfg e h) (ext_evalCheck cfg e _))
  | .const (.id name p ty) e pt, h => by
    have : walk cfg (.const (.id name p ty) e pt) = guarded cfg (.const (.id name p ty) e pt)
        (constK cfg (.id name p ty) e (walk cfg e)) := by funext s; rw [walk]
    rw [this]
    simp only [hasNextOutside] at h
    refine fires_guarded cfg _ ?_
    unfold constK
    exact fires_declare _ _ _ _ _ (fun sy => fires_leave_before (next_fires cfg e h) (ext_recordPattern cfg sy e))
  | .deco name block p, h => by
    have : walk cfg (.deco name block p) = guarded cfg (.deco name block p)
        (decoK name (merge (some p) (posOf block)) (walk cfg block)) := by funext s; rw [walk]
    rw [this]
    simp only [hasNextOutside] at h
    exact fires_guarded cfg _ (fires_decoK name _ (next_fires cfg block h))
  | .del n ex p, h => by
    have : walk cfg (.del n ex p) = guarded cfg (.del n ex p) (fun s => leave (walk cfg n s) id) := by
      funext s; rw [walk]
    rw [this]
    simp only [hasNextOutside] at h
    exact fires_guarded cfg _ (fires_leave_before (next_fires cfg n h) ext_id)
  | .conv n ty, h => by
    have : walk cfg (.conv n ty) = guarded cfg (.conv n ty) (fun s => leave (walk cfg n s) id) := by
      funext s; rw [walk]
    rw [this]
    simp only [hasNextOutside] at h
    exact fires_guarded cfg _ (fires_leave_before (next_fires cfg n h) ext_id)
  | .nil, h => by simp [hasNextOutside] at h
  | .error _ _, h => by simp [hasNextOutside] at h
  | .id _ _ _, h => by simp [hasNextOutside] at h
  | .cap _ _ _ _, h => by simp [hasNextOutside] at h
  | .decl _ _, h => by simp [hasNextOutside] at h
  | .str _ _, h => by simp [hasNextOutside] at h
  | .int _ _, h => by simp [hasNextOutside] at h
  | .float _ _, h => by simp [hasNextOutside] at h
  | .patlit _ _, h => by simp [hasNextOutside] at h
  | .decodecl _ _ _, h => by simp [hasNextOutside] at h
  | .otherwise _, h => by simp [hasNextOutside] at h
  | .stop _, h => by simp [hasNextOutside] at h
  | .const .nil _ _, h => by simp [hasNextOutside] at h
  | .const (.stmts _) _ _, h => by simp [hasNextOutside] at h
  | .const (.exprs _) _ _, h => by simp [hasNextOutside] at h
  | .const (.cond _ _ _) _ _, h => by simp [hasNextOutside] at h
  | .const (.cap _ _ _ _) _ _, h => by simp [hasNextOutside] at h
  | .const (.builtin _ _ _ _) _ _, h => by simp [hasNextOutside] at h
  | .const (.bin _ _ _ _) _ _, h => by simp [hasNextOutside] at h
  | .const (.un _ _ _ _) _ _, h => by simp [hasNextOutside] at h
  | .const (.idx _ _ _) _ _, h => by simp [hasNextOutside] at h
  | .const (.decl _ _) _ _, h => by simp [hasNextOutside] at h
  | .const (.str _ _) _ _, h => by simp [hasNextOutside] at h
  | .const (.int _ _) _ _, h => by simp [hasNextOutside] at h
  | .const (.float _ _) _ _, h => by simp [hasNextOutside] at h
  | .const (.patexpr _ _) _ _, h => by simp [hasNextOutside] at h
  | .const (.patlit _ _) _ _, h => by simp [hasNextOutside] at h
  | .const (.const _ _ _) _ _, h => by simp [hasNextOutside] at h
  | .const (.decodecl _ _ _) _ _, h => by simp [hasNextOutside] at h
  | .const (.deco _ _ _) _ _, h => by simp [hasNextOutside] at h
  | .const (.next _) _ _, h => by simp [hasNextOutside] at h
  | .const (.otherwise _) _ _, h => by simp [hasNextOutside] at h
  | .const (.stop _) _ _, h => by simp [hasNextOutside] at h
  | .const (.del _ _ _) _ _, h => by simp [hasNextOutside] at h
  | .const (.conv _ _) _ _, h => by simp [hasNextOutside] at h
  | .const (.error _ _) _ _, h => by simp [hasNextOutside] at h
theorem nextList_fires (cfg : Cfg) : ∀ (ns : Nodes), hasNextOutsideList ns = true → Fires (walkList cfg ns)
  | .nil, h => by simp [hasNextOutsideList] at h
  | .cons n ns, h => by
    have : walkList cfg (.cons n ns) = fun s => walkList cfg ns (walk cfg n s) := by funext s; rw [walkList]
    rw [this]
    simp only [hasNextOutsideList, Bool.or_eq_true] at h
    rcases h with h | h
    · exact fires_then (next_fires cfg n h) (walkList_tr cfg ns).mono
    · exact then_fires (walk_tr cfg n) (nextList_fires cfg ns h) (walkList_tr cfg ns).mono
end

end MtailVerif.Scope
