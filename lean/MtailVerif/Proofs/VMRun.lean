import MtailVerif.Proofs.VMSound
/-! From one instruction to whole lines: the certificate is an invariant of `run`. -/
namespace MtailVerif.VM.Verify
open MtailVerif MtailVerif.VM

theorem checkFrom_at {p : Prog} {c : Cert} : ∀ (code : List Instr) (k : Nat), checkFrom p c k code = true →
    ∀ j i, code[j]? = some i → checkAt p c (k + j) i = true := by
  intro code
  induction code with
  | nil => intro k _ j i h; simp at h
  | cons x xs ih =>
    intro k h j i hj
    simp only [checkFrom, Bool.and_eq_true] at h
    cases j with
    | zero => simp at hj; subst hj; simpa using h.1
    | succ j =>
      simp at hj
      have := ih (k + 1) h.2 j i hj
      rw [show k + (j + 1) = k + 1 + j by omega]; exact this

/-- the invariant the certificate maintains -/
def Inv (p : Prog) (c : Cert) (t : Thread) (st : MStore) : Prop :=
  StoreOK p st t.dead ∧ (t.pc < p.code.length → ∃ s, certAt c t.pc = some s ∧ sOK p st t.dead s t.stack)

structure Good (p : Prog) (r : LineResult) : Prop where
  noFault : ∀ f, r.out ≠ .fault f
  checkedOnly : r.out ≠ .err .arity
  store : StoreOK p r.store []

theorem run_sound (o : Oracle) (p : Prog) (inp : Input) (c : Cert) (hc : checkCert p c = true) :
    ∀ (fuel : Nat) (t : Thread) (st : MStore) (memo : Memo), Inv p c t st →
      Good p (run o p inp fuel t st memo) ∧
      (p.code.length - t.pc < fuel → (run o p inp fuel t st memo).out ≠ .fuel) := by
  simp only [checkCert, Bool.and_eq_true] at hc
  obtain ⟨⟨hmo, _⟩, hfrom⟩ := hc
  intro fuel
  induction fuel with
  | zero =>
    intro t st memo hinv
    exact ⟨⟨by simp [run], by simp [run], hinv.1.forget⟩, by omega⟩
  | succ fuel ih =>
    intro t st memo hinv
    simp only [run]
    cases hi : p.code[t.pc]? with
    | none => exact ⟨⟨by simp, by simp, hinv.1.forget⟩, by simp⟩
    | some i =>
      simp only
      have hlt : t.pc < p.code.length := by
        rcases List.getElem?_eq_some_iff.mp hi with ⟨h, _⟩; exact h
      obtain ⟨s, hs, hst⟩ := hinv.2 hlt
      have hchk := checkFrom_at p.code 0 hfrom t.pc i hi
      simp only [Nat.zero_add, checkAt, hs] at hchk
      cases ha : astep p t.pc i s with
      | none => simp [ha] at hchk
      | some succs =>
        simp only [ha, List.all_eq_true, Bool.and_eq_true, decide_eq_true_eq] at hchk
        have hres := step_sound o p inp i t st memo s succs hmo hinv.1 hst ha
        cases hstep : step o p inp i t st memo with
        | mk r memo' =>
          rw [hstep] at hres
          cases r with
          | next t' st' =>
            simp only [ResOK] at hres
            obtain ⟨hs', x, hx, hpc', hst'⟩ := hres
            obtain ⟨hfwd, hcov⟩ := hchk x hx
            have hinv' : Inv p c t' st' := by
              refine ⟨hs', fun hlt' => ?_⟩
              rw [hpc'] at hlt'
              simp only [hlt', if_true] at hcov
              cases hw : certAt c x.1 with
              | none => simp [hw] at hcov
              | some w =>
                simp only [hw] at hcov
                exact ⟨w, by rw [hpc', hw], sOK_le hcov hst'⟩
            obtain ⟨g, gf⟩ := ih t' st' memo' hinv'
            exact ⟨g, fun hf => gf (by rw [hpc']; omega)⟩
          | stop st' => exact ⟨⟨by simp, by simp, hres⟩, by simp⟩
          | err e st' =>
            simp only [ResOK] at hres
            exact ⟨⟨by simp, by simpa using hres.1, hres.2⟩, by simp⟩
          | fault f st' => exact absurd hres (by simp [ResOK])

/-- entry: a fresh thread satisfies the invariant -/
theorem inv_init {p : Prog} {c : Cert} (hc : checkCert p c = true) {st : MStore} (hs : StoreOK p st []) :
    Inv p c {} st := by
  simp only [checkCert, Bool.and_eq_true, Bool.or_eq_true, beq_iff_eq] at hc
  refine ⟨hs, fun hlt => ?_⟩
  rcases hc.1.2 with h | h
  · simp at h; simp [h] at hlt
  · exact ⟨[], h, trivial⟩

end MtailVerif.VM.Verify
