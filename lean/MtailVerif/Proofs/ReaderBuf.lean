import MtailVerif.Model.ReaderBuf
namespace MtailVerif.ReaderBuf
open MtailVerif

def Inv (b : Buf) : Prop := b.len ≤ b.cap

theorem prepare_spec (size : Nat) (b : Buf) (h : Inv b) :
    (prepare src size b).len = b.len ∧ Inv (prepare src size b) ∧ size ≤ (prepare src size b).cap - (prepare src size b).len := by
  unfold prepare Inv at *
  simp only [src, Generated.Reader.needGrow, Generated.Reader.growCap, decide_eq_true_eq]
  split <;> simp <;> omega

theorem offered_ge (size : Nat) (b : Buf) (h : Inv b) : size ≤ offered src size b :=
  (prepare_spec size b h).2.2

theorem readAndSend_inv (size : Nat) (b : Buf) (h : Inv b) (c k : Nat) : Inv (readAndSend src size b c k) := by
  have hp := prepare_spec size b h
  unfold readAndSend Inv at *
  simp only
  split <;> simp <;> omega

theorem finish_inv (b : Buf) : Inv (finish b) := by simp [Inv, finish]

theorem step_inv (size : Nat) (b : Buf) (h : Inv b) (op : Op) : Inv (step src size b op) := by
  cases op with
  | read c k => exact readAndSend_inv size b h c k
  | finish => exact finish_inv b

theorem offers_ge (size : Nat) (ops : List Op) : ∀ (b : Buf), Inv b → ∀ n ∈ offers src size b ops, size ≤ n := by
  induction ops with
  | nil => intro b _ n hn; simp [offers] at hn
  | cons op rest ih =>
    intro b hb n hn
    cases op with
    | read c k =>
      simp only [offers, List.mem_cons] at hn
      rcases hn with rfl | hn
      · exact offered_ge size b hb
      · exact ih _ (readAndSend_inv size b hb c k) n hn
    | finish =>
      simp only [offers] at hn
      exact ih _ (finish_inv b) n hn

/-- a read that is offered room and whose source has bytes makes progress: the number of bytes
    taken in is the smaller of what the source returns and what was offered -/
theorem read_takes (size : Nat) (b : Buf) (h : Inv b) (c : Nat) (hc : 0 < c) (hs : 0 < size) :
    0 < min c (offered src size b) := by
  have := offered_ge size b h
  omega

end MtailVerif.ReaderBuf
