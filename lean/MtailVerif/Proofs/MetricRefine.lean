import MtailVerif.Proofs.Metric
/-! One-step refinement for every operation of the C09 alphabet. -/
namespace MtailVerif.Metric
variable {V : Type}

section
variable (hinj : ∀ a b : List Bytes, Key.encode a = Key.encode b → a = b)
include hinj

theorem find_eq (m : Metric V) (hi : Inv m) (l : List Bytes) : find m l = findL l m.lvs := by
  unfold find
  rw [hi.index_eq, lookup_map hinj]
  cases h : findL l m.lvs with
  | none => simp
  | some lv => simp [byId_findL hi.ids_nodup h]

/-- `getDatum` on a metric satisfying the invariant -/
theorem getDatum_spec (m : Metric V) (hi : Inv m) (mk : V) (l : List Bytes) (hl : l.length = m.nkeys) :
    (∀ lv, findL l m.lvs = some lv → getDatum m mk l = .ok (m, lv.id)) ∧
    (findL l m.lvs = none →
      getDatum m mk l = .ok ({ m with lvs := m.lvs ++ [⟨m.next, l, mk, 0⟩],
                                      index := m.index ++ [(Key.encode l, m.next)],
                                      next := m.next + 1 }, m.next)) := by
  constructor
  · intro lv h
    simp [getDatum, hl, find_eq hinj m hi, h]
  · intro h
    have hlk : lookup (Key.encode l) m.index = none := by
      rw [hi.index_eq, lookup_map hinj, h]; rfl
    simp [getDatum, hl, find_eq hinj m hi, h, append, insert_absent _ _ _ hlk]

omit hinj in
theorem inv_append (m : Metric V) (hi : Inv m) (l : List Bytes) (v : V) (hl : l.length = m.nkeys)
    (h : findL l m.lvs = none) :
    Inv ({ m with lvs := m.lvs ++ [⟨m.next, l, v, 0⟩],
                  index := m.index ++ [(Key.encode l, m.next)],
                  next := m.next + 1 } : Metric V) := by
  refine ⟨?_, ?_, ?_, ?_, ?_⟩
  · simp [hi.index_eq, K]
  · intro lv hlv
    simp only [List.mem_append, List.mem_singleton] at hlv
    rcases hlv with hlv | hlv
    · exact Nat.lt_succ_of_lt (hi.ids_lt lv hlv)
    · subst hlv; simp
  · simp only [List.map_append, List.map_cons, List.map_nil]
    rw [List.nodup_append]
    refine ⟨hi.ids_nodup, by simp, ?_⟩
    intro a ha b hb
    simp only [List.mem_singleton] at hb
    subst hb
    simp only [List.mem_map] at ha
    obtain ⟨lv, hlv, rfl⟩ := ha
    exact Nat.ne_of_lt (hi.ids_lt lv hlv)
  · simp only [List.map_append, List.map_cons, List.map_nil]
    rw [List.nodup_append]
    refine ⟨hi.labels_nodup, by simp, ?_⟩
    intro a ha b hb
    simp only [List.mem_singleton] at hb
    subst hb
    exact fun e => findL_none h (e ▸ ha)
  · intro lv hlv
    simp only [List.mem_append, List.mem_singleton] at hlv
    rcases hlv with hlv | hlv
    · exact hi.arity lv hlv
    · subst hlv; exact hl

omit hinj in
theorem inv_modL (m : Metric V) (hi : Inv m) (l : List Bytes) (f : LV V → LV V)
    (hid : ∀ lv, (f lv).id = lv.id) (hlab : ∀ lv, (f lv).labels = lv.labels) :
    Inv ({ m with lvs := modL l f m.lvs } : Metric V) := by
  refine ⟨?_, ?_, ?_, ?_, ?_⟩
  · show m.index = (modL l f m.lvs).map K
    rw [modL_map l f K (by intro lv; simp [K, hid, hlab])]; exact hi.index_eq
  · intro lv hlv
    obtain ⟨x, hx, hxy⟩ := modL_mem hlv
    rcases hxy with rfl | rfl
    · exact hi.ids_lt _ hx
    · rw [hid]; exact hi.ids_lt _ hx
  · show ((modL l f m.lvs).map (·.id)).Nodup
    rw [modL_map l f (·.id) hid]; exact hi.ids_nodup
  · show ((modL l f m.lvs).map (·.labels)).Nodup
    rw [modL_map l f (·.labels) hlab]; exact hi.labels_nodup
  · intro lv hlv
    obtain ⟨x, hx, hxy⟩ := modL_mem hlv
    rcases hxy with rfl | rfl
    · exact hi.arity _ hx
    · rw [hlab]; exact hi.arity _ hx

theorem inv_eraseL (m : Metric V) (hi : Inv m) (l : List Bytes) :
    Inv ({ m with lvs := eraseL l m.lvs, index := erase (Key.encode l) m.index } : Metric V) := by
  have hs := eraseL_sublist l m.lvs
  refine ⟨?_, ?_, ?_, ?_, ?_⟩
  · show erase (Key.encode l) m.index = (eraseL l m.lvs).map K
    rw [hi.index_eq, erase_map hinj]
  · intro lv hlv; exact hi.ids_lt lv (hs.subset hlv)
  · exact hi.ids_nodup.sublist (hs.map _)
  · exact hi.labels_nodup.sublist (hs.map _)
  · intro lv hlv; exact hi.arity lv (hs.subset hlv)

omit hinj in
theorem eraseL_absent (l : List Bytes) (lvs : List (LV V)) (h : findL l lvs = none) : eraseL l lvs = lvs := by
  induction lvs with
  | nil => rfl
  | cons x rest ih =>
    simp only [findL] at h
    by_cases hx : x.labels = l
    · simp [hx] at h
    · simp only [hx, if_false] at h
      simp [eraseL, hx, ih h]

omit hinj in
theorem findL_append_new (l : List Bytes) (lvs : List (LV V)) (x : LV V) (hx : x.labels = l)
    (hf : findL l lvs = none) : findL l (lvs ++ [x]) = some x := by
  induction lvs with
  | nil => simp [findL, hx]
  | cons y rest ih =>
    simp only [findL] at hf
    by_cases hy : y.labels = l
    · simp [hy] at hf
    · simp only [hy, if_false] at hf
      simp [findL, hy, ih hf]

omit hinj in
theorem modL_append_new (l : List Bytes) (f : LV V → LV V) (lvs : List (LV V)) (x : LV V)
    (hx : x.labels = l) (hf : findL l lvs = none) : modL l f (lvs ++ [x]) = lvs ++ [f x] := by
  induction lvs with
  | nil => simp [modL, hx]
  | cons y rest ih =>
    simp only [findL] at hf
    by_cases hy : y.labels = l
    · simp [hy] at hf
    · simp only [hy, if_false] at hf
      simp [modL, hy, ih hf]

/-- the one-step refinement theorem -/
theorem step_refines (mk : V) (m : Metric V) (hi : Inv m) (op : Op V) :
    Inv (step mk m op).1 ∧
    abs (step mk m op).1 = (Spec.step m.nkeys mk (abs m) op).1 ∧
    (step mk m op).2 = (Spec.step m.nkeys mk (abs m) op).2 ∧
    (step mk m op).1.nkeys = m.nkeys := by
  cases op with
  | get l =>
    by_cases hl : l.length = m.nkeys
    · have gs := getDatum_spec hinj m hi mk l hl
      cases hf : findL l m.lvs with
      | some lv =>
        have h1 : step mk m (.get l) = (m, .ok) := by simp [step, gs.1 lv hf]
        have h2 : Spec.step m.nkeys mk (abs m) (.get l) = (abs m, .ok) := by
          simp [Spec.step, hl, abs_eq, findS_abs, hf]
        rw [h1, h2]; exact ⟨hi, rfl, rfl, rfl⟩
      | none =>
        have h1 : step mk m (.get l) =
            ({ m with lvs := m.lvs ++ [⟨m.next, l, mk, 0⟩],
                      index := m.index ++ [(Key.encode l, m.next)],
                      next := m.next + 1 }, .ok) := by simp only [step, gs.2 hf]
        have h2 : Spec.step m.nkeys mk (abs m) (.get l) = (abs m ++ [⟨l, mk, 0⟩], .ok) := by
          simp [Spec.step, hl, abs_eq, findS_abs, hf]
        rw [h1, h2]
        exact ⟨inv_append m hi l mk hl hf, by simp [abs_eq, toEntry], rfl, rfl⟩
    · have h1 : step mk m (.get l) = (m, .err .arity) := by simp [step, getDatum, hl]
      have h2 : Spec.step m.nkeys mk (abs m) (.get l) = (abs m, .err .arity) := by simp [Spec.step, hl]
      rw [h1, h2]; exact ⟨hi, rfl, rfl, rfl⟩
  | set l f =>
    by_cases hl : l.length = m.nkeys
    · have gs := getDatum_spec hinj m hi mk l hl
      cases hf : findL l m.lvs with
      | some lv =>
        have h1 : step mk m (.set l f) =
            ({ m with lvs := modL l (fun lv => { lv with value := f lv.value }) m.lvs }, .ok) := by
          simp only [step, gs.1 lv hf, updateDatum, mapId_findL _ hi.ids_nodup hf]
        have h2 : Spec.step m.nkeys mk (abs m) (.set l f) =
            (modS l (fun e => { e with value := f e.value }) (abs m), .ok) := by
          simp [Spec.step, hl, abs_eq, findS_abs, hf]
        rw [h1, h2]
        refine ⟨inv_modL m hi l _ (fun _ => rfl) (fun _ => rfl), ?_, rfl, rfl⟩
        exact (modS_abs l _ _ (fun _ => rfl) m.lvs).symm
      | none =>
        have hi' := inv_append m hi l mk hl hf
        have hfind := findL_append_new l m.lvs ⟨m.next, l, mk, 0⟩ rfl hf
        have hm := mapId_findL (fun lv => { lv with value := f lv.value }) hi'.ids_nodup hfind
        have hmod := modL_append_new l (fun lv : LV V => { lv with value := f lv.value }) m.lvs
          ⟨m.next, l, mk, 0⟩ rfl hf
        have h1 : step mk m (.set l f) =
            ({ m with lvs := m.lvs ++ [⟨m.next, l, f mk, 0⟩],
                      index := m.index ++ [(Key.encode l, m.next)],
                      next := m.next + 1 }, .ok) := by
          simp only [step, gs.2 hf, updateDatum]
          simp only at hm hmod
          rw [hm, hmod]
        have h2 : Spec.step m.nkeys mk (abs m) (.set l f) = (abs m ++ [⟨l, f mk, 0⟩], .ok) := by
          simp [Spec.step, hl, abs_eq, findS_abs, hf]
        rw [h1, h2]
        exact ⟨inv_append m hi l (f mk) hl hf, by simp [abs_eq, toEntry], rfl, rfl⟩
    · have h1 : step mk m (.set l f) = (m, .err .arity) := by simp [step, getDatum, hl]
      have h2 : Spec.step m.nkeys mk (abs m) (.set l f) = (abs m, .err .arity) := by simp [Spec.step, hl]
      rw [h1, h2]; exact ⟨hi, rfl, rfl, rfl⟩
  | remove l =>
    by_cases hl : l.length = m.nkeys
    · have h2 : Spec.step m.nkeys mk (abs m) (.remove l) = (eraseS l (abs m), .ok) := by
        simp [Spec.step, hl]
      cases hf : findL l m.lvs with
      | some lv =>
        have hlk : lookup (Key.encode l) m.index = some lv.id := by
          rw [hi.index_eq, lookup_map hinj, hf]; rfl
        have h1 : step mk m (.remove l) =
            ({ m with lvs := eraseL l m.lvs, index := erase (Key.encode l) m.index }, .ok) := by
          simp only [step, removeDatum, hl, hlk, spliceOut_findL hi.ids_nodup hf]; simp
        rw [h1, h2]
        exact ⟨inv_eraseL hinj m hi l, by simp [abs_eq, eraseS_abs], rfl, rfl⟩
      | none =>
        have hlk : lookup (Key.encode l) m.index = none := by
          rw [hi.index_eq, lookup_map hinj, hf]; rfl
        have h1 : step mk m (.remove l) = (m, .ok) := by
          simp only [step, removeDatum, hl, hlk]; simp
        rw [h1, h2]
        exact ⟨hi, by simp [abs_eq, eraseS_abs, eraseL_absent l _ hf], rfl, rfl⟩
    · have h1 : step mk m (.remove l) = (m, .err .arity) := by simp [step, removeDatum, hl]
      have h2 : Spec.step m.nkeys mk (abs m) (.remove l) = (abs m, .err .arity) := by simp [Spec.step, hl]
      rw [h1, h2]; exact ⟨hi, rfl, rfl, rfl⟩
  | expire x l =>
    by_cases hl : l.length = m.nkeys
    · cases hf : findL l m.lvs with
      | some lv =>
        have h1 : step mk m (.expire x l) =
            ({ m with lvs := modL l (fun lv => { lv with expiry := x }) m.lvs }, .ok) := by
          simp only [step, expireDatum, hl, find_eq hinj m hi, hf, mapId_findL _ hi.ids_nodup hf]; simp
        have h2 : Spec.step m.nkeys mk (abs m) (.expire x l) =
            (modS l (fun e => { e with expiry := x }) (abs m), .ok) := by
          simp [Spec.step, hl, abs_eq, findS_abs, hf]
        rw [h1, h2]
        refine ⟨inv_modL m hi l _ (fun _ => rfl) (fun _ => rfl), ?_, rfl, rfl⟩
        exact (modS_abs l _ _ (fun _ => rfl) m.lvs).symm
      | none =>
        have h1 : step mk m (.expire x l) = (m, .err .noDatum) := by
          simp only [step, expireDatum, hl, find_eq hinj m hi, hf]; simp
        have h2 : Spec.step m.nkeys mk (abs m) (.expire x l) = (abs m, .err .noDatum) := by
          simp [Spec.step, hl, abs_eq, findS_abs, hf]
        rw [h1, h2]; exact ⟨hi, rfl, rfl, rfl⟩
    · have h1 : step mk m (.expire x l) = (m, .err .arity) := by simp [step, expireDatum, hl]
      have h2 : Spec.step m.nkeys mk (abs m) (.expire x l) = (abs m, .err .arity) := by simp [Spec.step, hl]
      rw [h1, h2]; exact ⟨hi, rfl, rfl, rfl⟩
  | find l =>
    refine ⟨hi, rfl, ?_, rfl⟩
    simp only [step, Spec.step, find_eq hinj m hi, abs_eq, findS_abs]
    cases findL l m.lvs <;> simp [toEntry]
  | emit =>
    refine ⟨hi, rfl, ?_, rfl⟩
    simp [step, Spec.step, emit, abs_eq, toEntry, Function.comp_def]

/-- every reachable state: the whole history refines the ordered map -/
theorem runOps_refines (mk : V) (ops : List (Op V)) (m : Metric V) (hi : Inv m) :
    Inv (runOps mk m ops) ∧ abs (runOps mk m ops) = Spec.runOps m.nkeys mk (abs m) ops := by
  induction ops generalizing m with
  | nil => exact ⟨hi, rfl⟩
  | cons op ops ih =>
    obtain ⟨h1, h2, _, h4⟩ := step_refines hinj mk m hi op
    have := ih (step mk m op).1 h1
    simp only [runOps, Spec.runOps]
    rw [h4, h2] at this
    exact this
end

theorem inv_init (n : Nat) : Inv ({ nkeys := n } : Metric V) :=
  ⟨rfl, by simp, by simp, by simp, by simp⟩

end MtailVerif.Metric

namespace MtailVerif.Metric
variable {V : Type}

/-- `RemoveDatum` at the right arity, on a metric satisfying the invariant -/
theorem removeDatum_refines (hinj : ∀ a b : List Bytes, Key.encode a = Key.encode b → a = b)
    (m : Metric V) (hi : Inv m) (l : List Bytes) (hl : l.length = m.nkeys) :
    ∃ m', removeDatum m l = .ok m' ∧ Inv m' ∧ m'.lvs = eraseL l m.lvs ∧ m'.nkeys = m.nkeys := by
  cases hf : findL l m.lvs with
  | some lv =>
    have hlk : lookup (Key.encode l) m.index = some lv.id := by
      rw [hi.index_eq, lookup_map hinj, hf]; rfl
    refine ⟨{ m with lvs := eraseL l m.lvs, index := erase (Key.encode l) m.index }, ?_,
      inv_eraseL hinj m hi l, rfl, rfl⟩
    simp only [removeDatum, hl, hlk, spliceOut_findL hi.ids_nodup hf]; simp
  | none =>
    have hlk : lookup (Key.encode l) m.index = none := by
      rw [hi.index_eq, lookup_map hinj, hf]; rfl
    refine ⟨m, ?_, hi, (eraseL_absent l _ hf).symm, rfl⟩
    simp only [removeDatum, hl, hlk]; simp

end MtailVerif.Metric
