import MtailVerif.Proofs.IRStep
/-! Multi-step execution of the VM on generated code, and the simulation relation with the
    reference semantics. -/
namespace MtailVerif.IR
open MtailVerif MtailVerif.VM

def CodeAt (code : List Instr) (pc : Nat) (frag : List Instr) : Prop :=
  ∃ pre post, code = pre ++ frag ++ post ∧ pre.length = pc

theorem CodeAt.left {code pc a b} (h : CodeAt code pc (a ++ b)) : CodeAt code pc a := by
  obtain ⟨pre, post, rfl, rfl⟩ := h
  exact ⟨pre, b ++ post, by simp, rfl⟩

theorem CodeAt.right {code pc a b} (h : CodeAt code pc (a ++ b)) : CodeAt code (pc + a.length) b := by
  obtain ⟨pre, post, rfl, rfl⟩ := h
  exact ⟨pre ++ a, post, by simp, by simp⟩

theorem CodeAt.at {code p frag} (h : CodeAt code p frag) {k : Nat} {i : Instr}
    (hk : frag[k]? = some i) {q : Nat} (hq : q = p + k) : code[q]? = some i := by
  obtain ⟨pre, post, rfl, rfl⟩ := h
  subst hq
  rw [List.append_assoc, List.getElem?_append_right (by omega)]
  simp only [Nat.add_sub_cancel_left]
  rw [List.getElem?_append_left (by
    have := List.getElem?_eq_some_iff.mp hk
    obtain ⟨hlt, _⟩ := this; exact hlt)]
  exact hk

theorem CodeAt.cast {code p q frag} (h : CodeAt code p frag) (e : p = q) : CodeAt code q frag := e ▸ h

/-- a VM configuration -/
structure VC where
  t : Thread
  st : MStore
  memo : Memo

section
variable (o : Oracle) (p : Prog) (inp : Input)

inductive Steps : VC → VC → Prop
  | refl (c : VC) : Steps c c
  | cons {c d : VC} {i : Instr} {t' : Thread} {st' : MStore} {memo' : Memo} :
      p.code[c.t.pc]? = some i → step o p inp i c.t c.st c.memo = (.next t' st', memo') →
      Steps ⟨t', st', memo'⟩ d → Steps c d

/-- the line ends (stop, checked error or fault) with this store and memo -/
inductive Halts : VC → Outcome → MStore → Memo → Prop
  | stop {c : VC} {i : Instr} {st' : MStore} {memo' : Memo} :
      p.code[c.t.pc]? = some i → step o p inp i c.t c.st c.memo = (.stop st', memo') → Halts c .stopped st' memo'
  | err {c : VC} {i : Instr} {e : RtErr} {st' : MStore} {memo' : Memo} :
      p.code[c.t.pc]? = some i → step o p inp i c.t c.st c.memo = (.err e st', memo') → Halts c (.err e) st' memo'
  | fault {c : VC} {i : Instr} {f : Fault} {st' : MStore} {memo' : Memo} :
      p.code[c.t.pc]? = some i → step o p inp i c.t c.st c.memo = (.fault f st', memo') → Halts c (.fault f) st' memo'
  | cons {c : VC} {i : Instr} {t' : Thread} {st' : MStore} {memo' : Memo} {out : Outcome} {st2 : MStore} {memo2 : Memo} :
      p.code[c.t.pc]? = some i → step o p inp i c.t c.st c.memo = (.next t' st', memo') →
      Halts ⟨t', st', memo'⟩ out st2 memo2 → Halts c out st2 memo2
end

variable {o : Oracle} {p : Prog} {inp : Input}

theorem Steps.trans {a b c : VC} (h1 : Steps o p inp a b) (h2 : Steps o p inp b c) : Steps o p inp a c := by
  induction h1 with
  | refl => exact h2
  | cons hf hs _ ih => exact .cons hf hs (ih h2)

theorem Steps.refl' {a b : VC} (h : a = b) : Steps o p inp a b := h ▸ .refl a

theorem Halts.prepend {a b : VC} {out st memo} (h1 : Steps o p inp a b) (h2 : Halts o p inp b out st memo) :
    Halts o p inp a out st memo := by
  induction h1 with
  | refl => exact h2
  | cons hf hs _ ih => exact .cons hf hs (ih h2)

/-- the VM, started on thread `tv` with the store and memo of `c`, does what the semantics' result
    `r` says, advancing the program counter by `len` -/
def Sim (o : Oracle) (p : Prog) (inp : Input) (tv : Thread) (c : Cfg) (len : Nat) : R → Prop
  | .ok c' => ∃ tv', Steps o p inp ⟨tv, c.st, c.memo⟩ ⟨tv', c'.st, c'.memo⟩ ∧ norm tv' = c'.t ∧
      tv'.pc = tv.pc + len ∧ tv'.matched = tv.matched
  | .halt out st memo => Halts o p inp ⟨tv, c.st, c.memo⟩ out st memo

theorem Sim.bind {tv : Thread} {c : Cfg} {n m : Nat} {r : R} {k : Cfg → R}
    (h1 : Sim o p inp tv c n r)
    (h2 : ∀ c' tv', norm tv' = c'.t → tv'.pc = tv.pc + n → tv'.matched = tv.matched → Sim o p inp tv' c' m (k c')) :
    Sim o p inp tv c (n + m) (r.bind k) := by
  cases r with
  | halt out st memo => exact h1
  | ok c' =>
    obtain ⟨tv', hs, hn, hpc, hm⟩ := h1
    have h := h2 c' tv' hn hpc hm
    simp only [R.bind]
    cases hk : k c' with
    | halt out st memo =>
      rw [hk] at h
      exact Halts.prepend hs h
    | ok c'' =>
      rw [hk] at h
      obtain ⟨tv'', hs2, hn2, hpc2, hm2⟩ := h
      exact ⟨tv'', hs.trans hs2, hn2, by omega, by rw [hm2, hm]⟩

/-- a fixed sequence of non-branching instructions -/
theorem sim_prim : ∀ (is : List Instr), is.all straight = true → ∀ (tv : Thread) (c : Cfg),
    CodeAt p.code tv.pc is → norm tv = c.t → Sim o p inp tv c is.length (runPrim o p inp is c)
  | [], _, tv, c, _, hn => by
    simp only [runPrim, Sim]
    exact ⟨tv, .refl _, hn, by simp, rfl⟩
  | i :: is, hs, tv, c, hc, hn => by
    simp only [List.all_cons, Bool.and_eq_true] at hs
    have hf : p.code[(VC.mk tv c.st c.memo).t.pc]? = some i := hc.at (k := 0) rfl (by simp)
    have hstep := step_of_norm o p inp i hs.1 tv c.st c.memo
    rw [hn] at hstep
    cases hr : step o p inp i c.t c.st c.memo with
    | mk res memo' =>
      rw [hr] at hstep
      rw [runPrim, hr]
      cases res with
      | next t' st' =>
        simp only [withPcM] at hstep
        have hc' : CodeAt p.code ({ t' with pc := tv.pc + 1, matched := tv.matched } : Thread).pc is := by
          have := hc.right (a := [i]) (b := is)
          simpa using this
        have ih := sim_prim is hs.2 { t' with pc := tv.pc + 1, matched := tv.matched } ⟨norm t', st', memo'⟩ hc' rfl
        simp only [afterStep]
        cases hrest : runPrim o p inp is ⟨norm t', st', memo'⟩ with
        | halt out st2 memo2 =>
          rw [hrest] at ih
          exact Halts.cons (c := ⟨tv, c.st, c.memo⟩) hf hstep ih
        | ok c2 =>
          rw [hrest] at ih
          obtain ⟨tv2, hs2, hn2, hpc2, hm2⟩ := ih
          exact ⟨tv2, Steps.cons (c := ⟨tv, c.st, c.memo⟩) hf hstep hs2, hn2, by simp at hpc2 ⊢; omega, hm2⟩
      | stop st' => simp only [afterStep]; exact Halts.stop (c := ⟨tv, c.st, c.memo⟩) hf hstep
      | err e st' => simp only [afterStep]; exact Halts.err (c := ⟨tv, c.st, c.memo⟩) hf hstep
      | fault f st' => simp only [afterStep]; exact Halts.fault (c := ⟨tv, c.st, c.memo⟩) hf hstep

/-! ### single steps of the branching instructions -/

theorem step_jump (jm : Bool) (tgt : Nat) (tv : Thread) (st : MStore) (memo : Memo) (v : Val) (rest : List Val)
    (hstk : tv.stack = v :: rest) :
    step o p inp (if jm then iJm tgt else iJnm tgt) tv st memo =
      (.next { tv with pc := if taken jm v then tgt else tv.pc + 1, stack := rest } st, memo) := by
  cases jm <;> simp only [step, iJm, iJnm, stepCore, hstk, taken, jumpTo, argInt] <;>
    cases v <;> simp <;> split <;> simp_all

theorem step_jump_empty (jm : Bool) (tgt : Nat) (tv : Thread) (st : MStore) (memo : Memo) (hstk : tv.stack = []) :
    step o p inp (if jm then iJm tgt else iJnm tgt) tv st memo = (.fault .stackUnderflow st, memo) := by
  cases jm <;> simp [step, iJm, iJnm, stepCore, hstk]

theorem step_jmp (tgt : Nat) (tv : Thread) (st : MStore) (memo : Memo) :
    step o p inp (iJmp tgt) tv st memo = (.next { tv with pc := tgt } st, memo) := by
  simp [step, iJmp, stepCore, jumpTo, argInt]

theorem step_pushB (b : Bool) (tv : Thread) (st : MStore) (memo : Memo) :
    step o p inp (iPushB b) tv st memo = (.next { tv with pc := tv.pc + 1, stack := .bool b :: tv.stack } st, memo) := by
  simp [step, iPushB, stepCore]

theorem step_setm (b : Bool) (tv : Thread) (st : MStore) (memo : Memo) :
    step o p inp (iSetm b) tv st memo = (.next { tv with pc := tv.pc + 1, matched := b } st, memo) := by
  simp [step, iSetm, stepCore]

theorem step_otherwise (tv : Thread) (st : MStore) (memo : Memo) :
    step o p inp iOtherwise tv st memo =
      (.next { tv with pc := tv.pc + 1, stack := .bool (!tv.matched) :: tv.stack } st, memo) := by
  simp [step, iOtherwise, stepCore]

end MtailVerif.IR
