import MtailVerif.Proofs.ScopeUndecl
/-! The scope stack is kept by every visit: below the depth limit, walking any tree leaves the
    stack of scope frames as it found it, the innermost frame possibly with more entries, or it
    reports an error (`walk_fk`).  Hence a name a block has declared is still in the block's frame
    when a later statement of the same block declares it again, whatever stands between the two
    (`dup_fires`). -/
namespace MtailVerif.Scope
open MtailVerif MtailVerif.Ast

/-- the scope stack after a visit: the same scopes, the innermost one possibly with more entries -/
def Grows : List Frame → List Frame → Prop
  | [], [] => True
  | f :: r, g :: r' => r' = r ∧ ∃ extra, g = f ++ extra
  | _, _ => False

theorem Grows.refl : ∀ a, Grows a a
  | [] => trivial
  | f :: r => ⟨rfl, [], by simp⟩

theorem Grows.trans : ∀ {a b c}, Grows a b → Grows b c → Grows a c
  | [], [], [], _, _ => trivial
  | f :: r, g :: r', h :: r'', ⟨e1, x1, h1⟩, ⟨e2, x2, h2⟩ => ⟨by rw [e2, e1], x1 ++ x2, by rw [h2, h1]; simp⟩
  | [], [], _ :: _, _, h => absurd h (by simp [Grows])
  | [], _ :: _, _, h, _ => absurd h (by simp [Grows])
  | _ :: _, [], _, h, _ => absurd h (by simp [Grows])
  | _ :: _, _ :: _, [], _, h => absurd h (by simp [Grows])

theorem Grows.of_eq {a b : List Frame} (h : b = a) : Grows a b := h ▸ Grows.refl a

theorem frameGet_append {f : Frame} {x : String} {i : Nat} (extra : Frame) (h : frameGet f x = some i) :
    frameGet (f ++ extra) x = some i := by
  induction f with
  | nil => simp [frameGet] at h
  | cons e f ih =>
    obtain ⟨k, j⟩ := e
    simp only [List.cons_append]
    unfold frameGet at h ⊢
    split
    · next hk => simp only [hk, if_true] at h; exact h
    · next hk => simp only [hk, if_false] at h; exact ih h

/-- the innermost scope holds `x` -/
def TopHas (x : String) (fr : List Frame) : Prop := ∃ f r i, fr = f :: r ∧ frameGet f x = some i

theorem TopHas.grows {x : String} {a b : List Frame} (h : TopHas x a) (g : Grows a b) : TopHas x b := by
  obtain ⟨f, r, i, rfl, hi⟩ := h
  cases b with
  | nil => simp [Grows] at g
  | cons g' r' =>
    obtain ⟨_, extra, he⟩ := g
    exact ⟨g', r', i, rfl, by rw [he]; exact frameGet_append extra hi⟩

/-- frame keeping: below the depth limit a visit leaves the scope stack as it found it (more
    entries in the innermost scope at most), or reports an error -/
structure FK (f : St → St) : Prop where
  tr : Tr f
  fr : ∀ s, s.tooDeep = false → Grows s.frames (f s).frames ∨ s.errors.length < (f s).errors.length

theorem FK.comp {f g : St → St} (hf : FK f) (hg : FK g) : FK (fun s => g (f s)) where
  tr := Tr.comp hf.tr hg.tr
  fr s hs := by
    have m2 := ext_len (hg.tr.mono (f s))
    have m1 := ext_len (hf.tr.mono s)
    rcases hf.tr.keeps s hs with ⟨_, h2⟩ | h
    · rcases hf.fr s hs with g1 | h
      · rcases hg.fr (f s) h2 with g2 | h'
        · left; exact g1.trans g2
        · right; omega
      · right; omega
    · right; omega

theorem FK.of_frames_eq {f : St → St} (ht : Tr f) (h : ∀ s, (f s).frames = s.frames) : FK f :=
  ⟨ht, fun s _ => Or.inl (Grows.of_eq (h s))⟩

theorem grows_insertTop (s : St) (k : String) (i : Nat) : Grows s.frames (insertTop s k i).1.frames := by
  unfold insertTop
  split
  · next h => rw [h]; trivial
  · next f rest h =>
    split
    · exact Grows.refl _
    · rw [h]; exact ⟨rfl, [(k, i)], rfl⟩

theorem grows_insertOrErr (s : St) (k : String) (i : Nat) (p : Option Pos) : Grows s.frames (insertOrErr s k i p).frames := by
  unfold insertOrErr
  split
  · exact grows_insertTop s k i
  · exact grows_insertTop s k i

theorem grows_addGroup (p : Option Pos) (s : St) (e : String × Nat) : Grows s.frames (addGroup p s e).frames := by
  unfold addGroup
  simp only
  split
  · exact Grows.trans (Grows.trans (Grows.of_eq (a := s.frames) (b := (s.newSym _ _ _ _).1.frames) rfl) (grows_insertOrErr _ _ _ _))
      (Grows.trans (Grows.of_eq (b := (renameSym _ _ _).frames) rfl) (grows_insertOrErr _ _ _ _))
  · exact Grows.trans (Grows.of_eq (a := s.frames) (b := (s.newSym _ _ _ _).1.frames) rfl) (grows_insertOrErr _ _ _ _)

theorem grows_checkRegex (cfg : Cfg) (s : St) (pat : Bytes) (p : Option Pos) : Grows s.frames (checkRegex cfg s pat p).frames := by
  unfold checkRegex
  split
  · exact Grows.refl _
  · split
    · exact Grows.refl _
    · split
      · exact Grows.refl _
      · exact foldl_inv _ (fun a b => Grows a.frames b.frames) (fun _ => Grows.refl _) (fun _ _ _ => Grows.trans) (grows_addGroup p) _ s

theorem grows_evalCheck (cfg : Cfg) (e : Node) (p : Option Pos) (s : St) : Grows s.frames (evalCheck cfg e p s).frames := by
  unfold evalCheck
  simp only
  split
  · exact Grows.refl _
  · exact grows_checkRegex cfg { s with errors := s.errors ++ (evalPattern cfg.fmtFloat s e).2 } _ _

theorem fk_evalCheck (cfg : Cfg) (e : Node) (p : Option Pos) : FK (evalCheck cfg e p) :=
  ⟨tr_evalCheck cfg e p, fun s _ => Or.inl (grows_evalCheck cfg e p s)⟩

theorem fk_recordPattern (cfg : Cfg) (sy : Sym) (e : Node) : FK (recordPattern cfg sy e) :=
  FK.of_frames_eq (tr_recordPattern cfg sy e) (fun s => by
    unfold recordPattern; simp only; split <;> first | rfl | (split <;> rfl))

theorem fk_id : FK (fun s => s) := FK.of_frames_eq Tr.id (fun _ => rfl)
theorem fk_id' : FK (_root_.id : St → St) := FK.of_frames_eq Tr.id' (fun _ => rfl)
theorem fk_markUsed (i : Nat) : FK (fun s => markUsed s i) :=
  FK.of_frames_eq (tr_markUsed i) (fun s => (core_markUsed s i).1)
theorem fk_substK (n : String) (b : Bool) : FK (substK n b) :=
  FK.of_frames_eq (tr_substK n b) (fun s => by unfold substK; split <;> rfl)
theorem fk_doNext (p : Pos) : FK (doNext p) :=
  FK.of_frames_eq (tr_doNext p) (fun s => by
    unfold doNext
    split
    · rfl
    · split <;> rfl)

/-- `leave (f s) k` -/
theorem fk_leave {f k : St → St} (hf : FK f) (hk : FK k) : FK (fun s => leave (f s) k) where
  tr := tr_leave hf.tr hk.tr
  fr s hs := by
    have m1 := ext_len (hf.tr.mono s)
    have ml := ext_len (ext_leave (s := f s) hk.tr.mono)
    rcases hf.tr.keeps s hs with ⟨_, h2⟩ | h
    · rcases hf.fr s hs with g1 | h
      · unfold leave
        simp only [h2]
        rcases hk.fr (f s) h2 with g2 | h'
        · left; exact g1.trans g2
        · right; simp; omega
      · right; omega
    · right; omega

theorem fk_guarded (cfg : Cfg) (n : Node) {k : St → St} (hk : FK k) : FK (guarded cfg n k) where
  tr := tr_guarded cfg n hk.tr
  fr s hs := by
    unfold guarded
    split
    · right
      unfold depthCut
      simp [hs, St.err]
    · exact hk.fr { s with depth := s.depth + 1 } hs

/-- a visit inside a fresh scope that is swept and dropped afterwards -/
theorem fk_scoped (f0 : St → Frame) {w : St → St} (hw : FK w) : FK (fun s => leave (w (push s (f0 s))) fun s => pop (sweep s)) where
  tr := tr_leave (f := fun s => w (push s (f0 s)))
    ⟨fun s => Ext.trans (ext_push s _) (hw.tr.mono _), fun s hs => hw.tr.keeps (push s (f0 s)) hs⟩ (Tr.comp tr_sweep tr_pop)
  fr s hs := by
    have ml := ext_len (ext_leave (s := w (push s (f0 s))) (Tr.comp tr_sweep tr_pop).mono)
    have e0 : (push s (f0 s)).errors.length = s.errors.length := rfl
    rcases hw.tr.keeps (push s (f0 s)) hs with ⟨_, h2⟩ | h
    · rcases hw.fr (push s (f0 s)) hs with g1 | h
      · left
        unfold leave
        simp only [h2]
        show Grows s.frames (pop (sweep (w (push s (f0 s))))).frames
        have : (pop (sweep (w (push s (f0 s))))).frames = (w (push s (f0 s))).frames.tail := by
          unfold pop; simp [(core_sweep _).1]
        rw [this]
        have hp : (push s (f0 s)).frames = f0 s :: s.frames := rfl
        rw [hp] at g1
        cases hb : (w (push s (f0 s))).frames with
        | nil => rw [hb] at g1; simp [Grows] at g1
        | cons g r => rw [hb] at g1; simp only [List.tail_cons]; exact Grows.of_eq g1.1
      · right; omega
    · right; omega

theorem fk_cut : FK cut := FK.of_frames_eq tr_cut (fun _ => rfl)
theorem fk_err (c : Cls) (p : Option Pos) : FK (fun s => s.err c p) := FK.of_frames_eq (tr_err c p) (fun _ => rfl)

theorem fk_declare (name : String) (k : Kind) (p : Option Pos) (c : Cls) (dp : Option Pos) {ok : Sym → St → St}
    (hok : ∀ sy, FK (ok sy)) : FK (declare name k p c dp ok) where
  tr := tr_declare name k p c dp (fun sy => (hok sy).tr)
  fr s hs := by
    unfold declare
    simp only
    have hsame := same_insertTop (s.newSym name k p).1 name (s.newSym name k p).2.id
    have hlen := ext_len (ext_insertTop (s.newSym name k p).1 name (s.newSym name k p).2.id)
    have e0 : s.errors.length = (s.newSym name k p).1.errors.length := rfl
    have g0 : Grows s.frames (insertTop (s.newSym name k p).1 name (s.newSym name k p).2.id).1.frames :=
      grows_insertTop (s.newSym name k p).1 name _
    split
    · right; simp [cut, St.err]; omega
    · rcases (hok (s.newSym name k p).2).fr _ (by rw [hsame.2]; exact hs) with g1 | h
      · left; exact g0.trans g1
      · right; omega

theorem fk_idK (name : String) (p : Pos) : FK (idK name p) where
  tr := tr_idK name p
  fr s hs := by
    unfold idK
    split
    · exact (fk_leave (fk_markUsed _) fk_id').fr s hs
    · split
      · exact (fk_leave (fk_markUsed _) fk_id').fr s hs
      · right; simp [cut, St.err]

theorem fk_capK (name : String) (p : Pos) : FK (capK name p) where
  tr := tr_capK name p
  fr s hs := by
    unfold capK
    split
    · exact (fk_leave (fk_markUsed _) fk_id').fr s hs
    · right; simp [cut, St.err]

theorem fk_declK (d : Decl) (p : Pos) : FK (declK d p) := by
  unfold declK
  refine fk_declare _ _ _ _ _ (fun sy => ⟨?_, fun s hs => ?_⟩)
  · refine ⟨fun s => ?_, fun s hs => ?_⟩
    · split
      · exact Ext.trans (ext_err s _ _) (ext_cut _)
      · exact ext_leave ext_id
    · split
      · right; simp [cut, St.err]
      · exact (tr_leave Tr.id Tr.id').keeps s hs
  · split
    · right; simp [cut, St.err]
    · exact (fk_leave fk_id fk_id').fr s hs

theorem fk_decoK (name : String) (w : Option Pos) {wb : St → St} (hwb : FK wb) : FK (decoK name w wb) where
  tr := tr_decoK name w hwb.tr
  fr s hs := by
    unfold decoK
    split
    · right; simp [cut, St.err]
    · next sy _ =>
      have hm := (tr_markUsed sy.id).keeps s hs
      have hme := ext_len ((tr_markUsed sy.id).mono s)
      have hmf : (markUsed s sy.id).frames = s.frames := (core_markUsed s sy.id).1
      split
      · right; simp only [cut, St.err, List.length_append, List.length_cons, List.length_nil]; omega
      · next z _ =>
        have hT : FK (fun s' => leave (wb (push s' (flatten (markUsed s sy.id) [z.2] []))) pop) := by
          refine ⟨tr_leave (Tr.comp (tr_push (flatten (markUsed s sy.id) [z.2] [])) hwb.tr) tr_pop, fun s' hs' => ?_⟩
          have ml := ext_len (ext_leave (s := wb (push s' (flatten (markUsed s sy.id) [z.2] []))) ext_pop)
          have e0 : (push s' (flatten (markUsed s sy.id) [z.2] [])).errors.length = s'.errors.length := rfl
          rcases hwb.tr.keeps (push s' (flatten (markUsed s sy.id) [z.2] [])) hs' with ⟨_, h2⟩ | h
          · rcases hwb.fr (push s' (flatten (markUsed s sy.id) [z.2] [])) hs' with g1 | h
            · left
              unfold leave
              simp only [h2]
              show Grows s'.frames (pop (wb (push s' (flatten (markUsed s sy.id) [z.2] [])))).frames
              have hp : (push s' (flatten (markUsed s sy.id) [z.2] [])).frames = flatten (markUsed s sy.id) [z.2] [] :: s'.frames := rfl
              rw [hp] at g1
              unfold pop
              cases hb : (wb (push s' (flatten (markUsed s sy.id) [z.2] []))).frames with
              | nil => rw [hb] at g1; simp [Grows] at g1
              | cons g r => rw [hb] at g1; simp only [List.tail_cons]; exact Grows.of_eq g1.1
            · right; omega
          · right; omega
        rcases hm with ⟨_, h2⟩ | h
        · rcases hT.fr (markUsed s sy.id) h2 with g | h'
          · left; rw [← hmf]; exact g
          · right; omega
        · right
          have := ext_len (hT.tr.mono (markUsed s sy.id))
          omega

theorem fk_constK (cfg : Cfg) (i e : Node) {we : St → St} (hwe : FK we) : FK (constK cfg i e we) := by
  unfold constK
  cases i with
  | id name p ty => exact fk_declare _ _ _ _ _ (fun sy => fk_leave hwe (fk_recordPattern cfg sy e))
  | _ => exact fk_cut

theorem fk_matchK (cfg : Cfg) (op : Op) (r : Node) : FK (matchK cfg op r) := by
  unfold matchK
  by_cases hc : (op = .match ∨ op = .notMatch) ∧ isLiteralish r
  · simp only [hc, and_self, if_true]
    exact fk_guarded cfg r (fk_evalCheck cfg r (posOf r))
  · simp only [hc, if_false]
    exact fk_id

theorem fk_idxK (cfg : Cfg) (lhs : Node) : FK (idxK cfg lhs) where
  tr := tr_idxK cfg lhs
  fr s hs := by
    unfold idxK
    split
    · exact (fk_evalCheck cfg lhs _).fr s hs
    · exact Or.inl (Grows.refl _)

theorem fk_openDeco_close {f : St → St} (hf : FK f) (sy : Sym) (w : Option Pos) :
    FK (fun s => leave (f (openDecoScope s)) (closeDeco sy w)) where
  tr := tr_openDeco_close hf.tr sy w
  fr s hs := by
    have ml := ext_len (ext_leave (s := f (openDecoScope s)) (ext_closeDeco sy w))
    have e0 : (openDecoScope s).errors.length = s.errors.length := rfl
    rcases hf.tr.keeps (openDecoScope s) hs with ⟨_, h2⟩ | h
    · rcases hf.fr (openDecoScope s) hs with g1 | h
      · left
        unfold leave
        simp only [h2]
        show Grows s.frames (closeDeco sy w (f (openDecoScope s))).frames
        have : (closeDeco sy w (f (openDecoScope s))).frames = (f (openDecoScope s)).frames := by
          unfold closeDeco
          split
          · rfl
          · simp only; split <;> rfl
        rw [this]; exact g1
      · right; omega
    · right; omega

mutual
theorem walk_fk (cfg : Cfg) : ∀ (n : Node), FK (walk cfg n)
  | .nil => by
    have : walk cfg .nil = fun s => s := by funext s; rw [walk]
    rw [this]; exact fk_id
  | .error a b => by
    have : walk cfg (.error a b) = fun s => s := by funext s; rw [walk]
    rw [this]; exact fk_id
  | .stmts cs => by
    have : walk cfg (.stmts cs) = guarded cfg (.stmts cs) (fun s => leave (walkList cfg cs (push s)) fun s => pop (sweep s)) := by
      funext s; rw [walk]
    rw [this]
    exact fk_guarded cfg _ (fk_scoped (fun _ => []) (walkList_fk cfg cs))
  | .exprs cs => by
    have : walk cfg (.exprs cs) = guarded cfg (.exprs cs) (fun s => leave (walkList cfg cs s) id) := by
      funext s; rw [walk]
    rw [this]
    exact fk_guarded cfg _ (fk_leave (walkList_fk cfg cs) fk_id')
  | .cond c t e => by
    have : walk cfg (.cond c t e) = guarded cfg (.cond c t e)
        (fun s => leave (walk cfg e (walk cfg t (walk cfg c (push s)))) fun s => pop (sweep s)) := by
      funext s; rw [walk]
    rw [this]
    exact fk_guarded cfg _ (fk_scoped (fun _ => []) (w := fun s => walk cfg e (walk cfg t (walk cfg c s)))
      (FK.comp (FK.comp (walk_fk cfg c) (walk_fk cfg t)) (walk_fk cfg e)))
  | .id name p ty => by
    have : walk cfg (.id name p ty) = guarded cfg (.id name p ty) (idK name p) := by funext s; rw [walk]
    rw [this]; exact fk_guarded cfg _ (fk_idK name p)
  | .cap name nd p ty => by
    have : walk cfg (.cap name nd p ty) = guarded cfg (.cap name nd p ty) (capK name p) := by funext s; rw [walk]
    rw [this]; exact fk_guarded cfg _ (fk_capK name p)
  | .builtin name args p ty => by
    have : walk cfg (.builtin name args p ty) = guarded cfg (.builtin name args p ty)
        (fun s => leave (walk cfg args (substK name true s)) (substK name false)) := by funext s; rw [walk]
    rw [this]
    exact fk_guarded cfg _ (fk_leave (FK.comp (fk_substK name true) (walk_fk cfg args)) (fk_substK name false))
  | .bin op l r ty => by
    have : walk cfg (.bin op l r ty) = guarded cfg (.bin op l r ty)
        (fun s => leave (walk cfg r (walk cfg l s)) (matchK cfg op r)) := by funext s; rw [walk]
    rw [this]
    exact fk_guarded cfg _ (fk_leave (FK.comp (walk_fk cfg l) (walk_fk cfg r)) (fk_matchK cfg op r))
  | .un op e p ty => by
    have : walk cfg (.un op e p ty) = guarded cfg (.un op e p ty) (fun s => leave (walk cfg e s) id) := by
      funext s; rw [walk]
    rw [this]
    exact fk_guarded cfg _ (fk_leave (walk_fk cfg e) fk_id')
  | .idx lhs index ty => by
    have : walk cfg (.idx lhs index ty) = guarded cfg (.idx lhs index ty)
        (fun s => leave (walk cfg lhs (walk cfg index s)) (idxK cfg lhs)) := by funext s; rw [walk]
    rw [this]
    exact fk_guarded cfg _ (fk_leave (FK.comp (walk_fk cfg index) (walk_fk cfg lhs)) (fk_idxK cfg lhs))
  | .decl d p => by
    have : walk cfg (.decl d p) = guarded cfg (.decl d p) (declK d p) := by funext s; rw [walk]
    rw [this]; exact fk_guarded cfg _ (fk_declK d p)
  | .str t p => by
    have : walk cfg (.str t p) = guarded cfg (.str t p) (fun s => leave s id) := by funext s; rw [walk]
    rw [this]; exact fk_guarded cfg _ (fk_leave fk_id fk_id')
  | .int i p => by
    have : walk cfg (.int i p) = guarded cfg (.int i p) (fun s => leave s id) := by funext s; rw [walk]
    rw [this]; exact fk_guarded cfg _ (fk_leave fk_id fk_id')
  | .float b p => by
    have : walk cfg (.float b p) = guarded cfg (.float b p) (fun s => leave s id) := by funext s; rw [walk]
    rw [this]; exact fk_guarded cfg _ (fk_leave fk_id fk_id')
  | .patlit t p => by
    have : walk cfg (.patlit t p) = guarded cfg (.patlit t p) (fun s => leave s id) := by funext s; rw [walk]
    rw [this]; exact fk_guarded cfg _ (fk_leave fk_id fk_id')
  | .patexpr e pt => by
    have : walk cfg (.patexpr e pt) = guarded cfg (.patexpr e pt) (fun s => leave (walk cfg e s) (evalCheck cfg e (posOf e))) := by
      funext s; rw [walk]
    rw [this]
    exact fk_guarded cfg _ (fk_leave (walk_fk cfg e) (fk_evalCheck cfg e _))
  | .const i e pt => by
    have : walk cfg (.const i e pt) = guarded cfg (.const i e pt) (constK cfg i e (walk cfg e)) := by funext s; rw [walk]
    rw [this]
    exact fk_guarded cfg _ (fk_constK cfg i e (walk_fk cfg e))
  | .decodecl name block p => by
    have : walk cfg (.decodecl name block p) = guarded cfg (.decodecl name block p)
        (declare name .deco (some p) .redeclDeco (merge (some p) (posOf block)) fun sy s =>
          leave (walk cfg block (openDecoScope s)) (closeDeco sy (merge (some p) (posOf block)))) := by
      funext s; rw [walk]
    rw [this]
    exact fk_guarded cfg _ (fk_declare _ _ _ _ _ (fun sy => fk_openDeco_close (walk_fk cfg block) sy _))
  | .deco name block p => by
    have : walk cfg (.deco name block p) = guarded cfg (.deco name block p)
        (decoK name (merge (some p) (posOf block)) (walk cfg block)) := by funext s; rw [walk]
    rw [this]
    exact fk_guarded cfg _ (fk_decoK name _ (walk_fk cfg block))
  | .next p => by
    have : walk cfg (.next p) = guarded cfg (.next p) (fun s => leave s (doNext p)) := by funext s; rw [walk]
    rw [this]; exact fk_guarded cfg _ (fk_leave fk_id (fk_doNext p))
  | .otherwise p => by
    have : walk cfg (.otherwise p) = guarded cfg (.otherwise p) (fun s => leave s id) := by funext s; rw [walk]
    rw [this]; exact fk_guarded cfg _ (fk_leave fk_id fk_id')
  | .stop p => by
    have : walk cfg (.stop p) = guarded cfg (.stop p) (fun s => leave s id) := by funext s; rw [walk]
    rw [this]; exact fk_guarded cfg _ (fk_leave fk_id fk_id')
  | .del n ex p => by
    have : walk cfg (.del n ex p) = guarded cfg (.del n ex p) (fun s => leave (walk cfg n s) id) := by
      funext s; rw [walk]
    rw [this]; exact fk_guarded cfg _ (fk_leave (walk_fk cfg n) fk_id')
  | .conv n ty => by
    have : walk cfg (.conv n ty) = guarded cfg (.conv n ty) (fun s => leave (walk cfg n s) id) := by
      funext s; rw [walk]
    rw [this]; exact fk_guarded cfg _ (fk_leave (walk_fk cfg n) fk_id')
theorem walkList_fk (cfg : Cfg) : ∀ (ns : Nodes), FK (walkList cfg ns)
  | .nil => by
    have : walkList cfg .nil = fun s => s := by funext s; rw [walkList]
    rw [this]; exact fk_id
  | .cons n ns => by
    have : walkList cfg (.cons n ns) = fun s => walkList cfg ns (walk cfg n s) := by funext s; rw [walkList]
    rw [this]; exact FK.comp (walk_fk cfg n) (walkList_fk cfg ns)
end

/-! ### a name declared twice in one block is rejected, wherever the block stands -/

/-- the name a statement declares in the scope it stands in -/
def declName : Node → Option String
  | .decl d _ => some d.name
  | .const (.id n _ _) _ _ => some n
  | .decodecl n _ _ => some n
  | _ => none

def declaredIn (x : String) : Nodes → Bool
  | .nil => false
  | .cons n ns => declName n == some x || declaredIn x ns

/-- two statements of the list declare the same name -/
def dupIn : Nodes → Bool
  | .nil => false
  | .cons n ns => (match declName n with | some x => declaredIn x ns | none => false) || dupIn ns

mutual
/-- does some block of the tree declare a name twice? -/
def hasDup : Node → Bool
  | .stmts cs => dupIn cs || hasDupList cs
  | .cond _ t e => hasDup t || hasDup e
  | .decodecl _ block _ => hasDup block
  | .deco _ block _ => hasDup block
  | _ => false
def hasDupList : Nodes → Bool
  | .nil => false
  | .cons n ns => hasDup n || hasDupList ns
end

theorem frameGet_append_self {f : Frame} {x : String} (i : Nat) (h : frameGet f x = none) :
    frameGet (f ++ [(x, i)]) x = some i := by
  induction f with
  | nil => simp [frameGet]
  | cons e f ih =>
    obtain ⟨k, j⟩ := e
    simp only [List.cons_append]
    unfold frameGet at h ⊢
    split
    · next hk => simp [hk] at h
    · next hk => simp only [hk, if_false] at h; exact ih h

/-- declaring a name the innermost scope already holds -/
theorem declare_dup (name : String) (k : Kind) (p : Option Pos) (c : Cls) (dp : Option Pos) (ok : Sym → St → St) (s : St)
    (h : TopHas name s.frames) : s.errors.length < (declare name k p c dp ok s).errors.length := by
  obtain ⟨f, r, i, hf, hi⟩ := h
  unfold declare
  have h1 : insertTop (s.newSym name k p).1 name (s.newSym name k p).2.id = ((s.newSym name k p).1, some i) := by
    unfold insertTop
    simp [St.newSym, hf, hi]
  simp only [h1, Option.isSome_some, if_true]
  simp [cut, St.err, St.newSym]

/-- after a declaration the innermost scope holds the name (or an error was reported) -/
theorem declare_top (name : String) (k : Kind) (p : Option Pos) (c : Cls) (dp : Option Pos) {ok : Sym → St → St}
    (hok : ∀ sy, FK (ok sy)) (s : St) (hs : s.tooDeep = false) (hne : s.frames ≠ []) :
    (TopHas name (declare name k p c dp ok s).frames ∧ (declare name k p c dp ok s).tooDeep = false) ∨
      s.errors.length < (declare name k p c dp ok s).errors.length := by
  cases hfr : s.frames with
  | nil => exact absurd hfr hne
  | cons f r =>
    cases hg : frameGet f name with
    | some i => right; exact declare_dup name k p c dp ok s ⟨f, r, i, hfr, hg⟩
    | none =>
      unfold declare
      have h1 : insertTop (s.newSym name k p).1 name (s.newSym name k p).2.id =
          ({ (s.newSym name k p).1 with frames := (f ++ [(name, (s.newSym name k p).2.id)]) :: r }, none) := by
        unfold insertTop
        simp [St.newSym, hfr, hg]
      simp only [h1, Option.isSome_none, Bool.false_eq_true, if_false]
      have htop : TopHas name ({ (s.newSym name k p).1 with frames := (f ++ [(name, (s.newSym name k p).2.id)]) :: r } : St).frames :=
        ⟨_, r, _, rfl, frameGet_append_self _ hg⟩
      have hs' : ({ (s.newSym name k p).1 with frames := (f ++ [(name, (s.newSym name k p).2.id)]) :: r } : St).tooDeep = false := hs
      rcases (hok (s.newSym name k p).2).tr.keeps _ hs' with ⟨_, h2⟩ | h
      · rcases (hok (s.newSym name k p).2).fr _ hs' with g | h
        · left; exact ⟨htop.grows g, h2⟩
        · right; exact h
      · right; exact h

/-- a statement that declares `x`, met when the innermost scope already holds `x` -/
theorem redeclared_fires (cfg : Cfg) (x : String) : ∀ (n : Node), declName n = some x → ∀ s, s.tooDeep = false →
    TopHas x s.frames → s.errors.length < (walk cfg n s).errors.length := by
  intro n hn s hs ht
  have key : ∀ (k : Kind) (p : Option Pos) (c : Cls) (dp : Option Pos) (ok : Sym → St → St),
      s.errors.length < (guarded cfg n (declare x k p c dp ok) s).errors.length := by
    intro k p c dp ok
    unfold guarded
    split
    · unfold depthCut; simp [hs, St.err]
    · exact declare_dup x k p c dp ok { s with depth := s.depth + 1 } ht
  cases n with
  | decl d p =>
    simp only [declName, Option.some.injEq] at hn
    rw [walk]; unfold declK; rw [hn]; exact key _ _ _ _ _
  | decodecl name block p =>
    simp only [declName, Option.some.injEq] at hn
    rw [walk, hn]; exact key _ _ _ _ _
  | const i e pt =>
    cases i with
    | id name p ty =>
      simp only [declName, Option.some.injEq] at hn
      rw [walk]; unfold constK; simp only; rw [hn]; exact key _ _ _ _ _
    | _ => simp [declName] at hn
  | _ => simp [declName] at hn

/-- the first of two declarations leaves the name in the innermost scope -/
theorem declared_top (cfg : Cfg) (x : String) : ∀ (n : Node), declName n = some x → ∀ s, s.tooDeep = false → s.frames ≠ [] →
    (TopHas x (walk cfg n s).frames ∧ (walk cfg n s).tooDeep = false) ∨ s.errors.length < (walk cfg n s).errors.length := by
  intro n hn s hs hne
  have key : ∀ (k : Kind) (p : Option Pos) (c : Cls) (dp : Option Pos) (ok : Sym → St → St), (∀ sy, FK (ok sy)) →
      (TopHas x (guarded cfg n (declare x k p c dp ok) s).frames ∧ (guarded cfg n (declare x k p c dp ok) s).tooDeep = false) ∨
        s.errors.length < (guarded cfg n (declare x k p c dp ok) s).errors.length := by
    intro k p c dp ok hok
    unfold guarded
    split
    · right; unfold depthCut; simp [hs, St.err]
    · exact declare_top x k p c dp hok { s with depth := s.depth + 1 } hs hne
  cases n with
  | decl d p =>
    simp only [declName, Option.some.injEq] at hn
    rw [walk]; unfold declK; rw [hn]
    refine key _ _ _ _ _ (fun sy => ?_)
    refine ⟨⟨fun s => ?_, fun s hs => ?_⟩, fun s hs => ?_⟩
    · split
      · exact Ext.trans (ext_err s _ _) (ext_cut _)
      · exact ext_leave ext_id
    · split
      · right; simp [cut, St.err]
      · exact (tr_leave Tr.id Tr.id').keeps s hs
    · split
      · right; simp [cut, St.err]
      · exact (fk_leave fk_id fk_id').fr s hs
  | decodecl name block p =>
    simp only [declName, Option.some.injEq] at hn
    rw [walk, hn]
    exact key _ _ _ _ _ (fun sy => fk_openDeco_close (walk_fk cfg block) sy _)
  | const i e pt =>
    cases i with
    | id name p ty =>
      simp only [declName, Option.some.injEq] at hn
      rw [walk]; unfold constK; simp only; rw [hn]
      exact key _ _ _ _ _ (fun sy => fk_leave (walk_fk cfg e) (fk_recordPattern cfg sy e))
    | _ => simp [declName] at hn
  | _ => simp [declName] at hn

theorem grows_ne_nil {a b : List Frame} (h : Grows a b) (ha : a ≠ []) : b ≠ [] := by
  cases a with
  | nil => exact absurd rfl ha
  | cons f r => cases b with
    | nil => simp [Grows] at h
    | cons g r' => simp

theorem later_fires (cfg : Cfg) (x : String) : ∀ (ns : Nodes), declaredIn x ns = true → ∀ s, s.tooDeep = false →
    TopHas x s.frames → s.errors.length < (walkList cfg ns s).errors.length
  | .nil, h, _, _, _ => by simp [declaredIn] at h
  | .cons n ns, h, s, hs, ht => by
    rw [walkList]
    have mono := ext_len (walkList_ext cfg ns (walk cfg n s))
    by_cases hd : declName n = some x
    · have := redeclared_fires cfg x n hd s hs ht
      omega
    · have h' : declaredIn x ns = true := by
        simp only [declaredIn, Bool.or_eq_true, beq_iff_eq] at h
        rcases h with h | h
        · exact absurd h hd
        · exact h
      rcases (walk_fk cfg n).tr.keeps s hs with ⟨_, h2⟩ | hgrow
      · rcases (walk_fk cfg n).fr s hs with g | hgrow
        · have := later_fires cfg x ns h' (walk cfg n s) h2 (ht.grows g)
          have := ext_len (walk_ext cfg n s)
          omega
        · omega
      · omega

theorem dupIn_fires (cfg : Cfg) : ∀ (ns : Nodes), dupIn ns = true → ∀ s, s.tooDeep = false → s.frames ≠ [] →
    s.errors.length < (walkList cfg ns s).errors.length
  | .nil, h, _, _, _ => by simp [dupIn] at h
  | .cons n ns, h, s, hs, hne => by
    rw [walkList]
    have mono := ext_len (walkList_ext cfg ns (walk cfg n s))
    have m1 := ext_len (walk_ext cfg n s)
    simp only [dupIn, Bool.or_eq_true] at h
    rcases h with h | h
    · cases hd : declName n with
      | none => simp [hd] at h
      | some x =>
        simp only [hd] at h
        rcases declared_top cfg x n hd s hs hne with ⟨t1, t2⟩ | hgrow
        · have := later_fires cfg x ns h (walk cfg n s) t2 t1
          omega
        · omega
    · rcases (walk_fk cfg n).tr.keeps s hs with ⟨_, h2⟩ | hgrow
      · rcases (walk_fk cfg n).fr s hs with g | hgrow
        · have := dupIn_fires cfg ns h (walk cfg n s) h2 (grows_ne_nil g hne)
          omega
        · omega
      · omega

mutual
/-- **a name declared twice in one block is rejected, wherever the block stands** -/
theorem dup_fires (cfg : Cfg) : ∀ (n : Node), hasDup n = true → FiresA (walk cfg n)
  | .stmts cs, h => by
    have : walk cfg (.stmts cs) = guarded cfg (.stmts cs) (fun s => leave (walkList cfg cs (push s)) fun s => pop (sweep s)) := by
      funext s; rw [walk]
    rw [this]
    simp only [hasDup, Bool.or_eq_true] at h
    refine firesA_guarded cfg _ (firesA_leave_before ?_ (Tr.comp tr_sweep tr_pop).mono)
    rcases h with h | h
    · intro s hs
      exact dupIn_fires cfg cs h (push s) hs (by simp [push])
    · exact then_firesA (tr_push []) (dupList_fires cfg cs h) (walkList_tr cfg cs).mono
  | .cond c t e, h => by
    have : walk cfg (.cond c t e) = guarded cfg (.cond c t e)
        (fun s => leave (walk cfg e (walk cfg t (walk cfg c (push s)))) fun s => pop (sweep s)) := by
      funext s; rw [walk]
    rw [this]
    simp only [hasDup, Bool.or_eq_true] at h
    refine firesA_guarded cfg _ (firesA_leave_before ?_ (Tr.comp tr_sweep tr_pop).mono)
    rcases h with h | h
    · exact firesA_then (f := fun s => walk cfg t (walk cfg c (push s)))
        (then_firesA (f := fun s => walk cfg c (push s)) (Tr.comp (tr_push []) (walk_tr cfg c)) (dup_fires cfg t h)
          (walk_tr cfg t).mono) (walk_tr cfg e).mono
    · exact then_firesA (f := fun s => walk cfg t (walk cfg c (push s)))
        (Tr.comp (Tr.comp (tr_push []) (walk_tr cfg c)) (walk_tr cfg t)) (dup_fires cfg e h) (walk_tr cfg e).mono
  | .decodecl name block p, h => by
    have : walk cfg (.decodecl name block p) = guarded cfg (.decodecl name block p)
        (declare name .deco (some p) .redeclDeco (merge (some p) (posOf block)) fun sy s =>
          leave (walk cfg block (openDecoScope s)) (closeDeco sy (merge (some p) (posOf block)))) := by
      funext s; rw [walk]
    rw [this]
    simp only [hasDup] at h
    refine firesA_guarded cfg _ (firesA_declare _ _ _ _ _ (fun sy => ?_))
    intro s h1
    have := dup_fires cfg block h (openDecoScope s) h1
    have hl := ext_len (ext_leave (s := walk cfg block (openDecoScope s)) (ext_closeDeco sy (merge (some p) (posOf block))))
    have e0 : (openDecoScope s).errors.length = s.errors.length := rfl
    show s.errors.length < (leave (walk cfg block (openDecoScope s)) (closeDeco sy (merge (some p) (posOf block)))).errors.length
    omega
  | .deco name block p, h => by
    have : walk cfg (.deco name block p) = guarded cfg (.deco name block p)
        (decoK name (merge (some p) (posOf block)) (walk cfg block)) := by funext s; rw [walk]
    rw [this]
    simp only [hasDup] at h
    exact firesA_guarded cfg _ (firesA_decoK name _ (dup_fires cfg block h))
  | .exprs _, h => by simp [hasDup] at h
  | .nil, h => by simp [hasDup] at h
  | .id _ _ _, h => by simp [hasDup] at h
  | .cap _ _ _ _, h => by simp [hasDup] at h
  | .builtin _ _ _ _, h => by simp [hasDup] at h
  | .bin _ _ _ _, h => by simp [hasDup] at h
  | .un _ _ _ _, h => by simp [hasDup] at h
  | .idx _ _ _, h => by simp [hasDup] at h
  | .decl _ _, h => by simp [hasDup] at h
  | .str _ _, h => by simp [hasDup] at h
  | .int _ _, h => by simp [hasDup] at h
  | .float _ _, h => by simp [hasDup] at h
  | .patexpr _ _, h => by simp [hasDup] at h
  | .patlit _ _, h => by simp [hasDup] at h
  | .const _ _ _, h => by simp [hasDup] at h
  | .next _, h => by simp [hasDup] at h
  | .otherwise _, h => by simp [hasDup] at h
  | .stop _, h => by simp [hasDup] at h
  | .del _ _ _, h => by simp [hasDup] at h
  | .conv _ _, h => by simp [hasDup] at h
  | .error _ _, h => by simp [hasDup] at h
theorem dupList_fires (cfg : Cfg) : ∀ (ns : Nodes), hasDupList ns = true → FiresA (walkList cfg ns)
  | .nil, h => by simp [hasDupList] at h
  | .cons n ns, h => by
    have : walkList cfg (.cons n ns) = fun s => walkList cfg ns (walk cfg n s) := by funext s; rw [walkList]
    rw [this]
    simp only [hasDupList, Bool.or_eq_true] at h
    rcases h with h | h
    · exact firesA_then (dup_fires cfg n h) (walkList_tr cfg ns).mono
    · exact then_firesA (walk_tr cfg n) (dupList_fires cfg ns h) (walkList_tr cfg ns).mono
end
end MtailVerif.Scope
