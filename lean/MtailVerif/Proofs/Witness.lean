import MtailVerif.Model.Witness
namespace MtailVerif.Witness

theorem get_put_self (st : List (Nat × W)) (i : Nat) (w : W) : get (put st i w) i = w := by
  unfold get put
  by_cases h : st.any (·.1 = i) = true
  · rw [if_pos h]
    have key : (st.map (fun p => if p.1 = i then (i, w) else p)).find? (·.1 = i) = some (i, w) := by
      induction st with
      | nil => simp at h
      | cons p rest ih =>
        simp only [List.map_cons, List.find?_cons]
        by_cases hp : p.1 = i
        · simp [hp]
        · have : rest.any (·.1 = i) = true := by simpa [hp] using h
          simp only [hp, if_false, decide_false]
          exact ih this
    rw [key]
  · rw [if_neg h, List.find?_append]
    have : st.find? (fun p => decide (p.1 = i)) = none := by
      simp only [List.find?_eq_none]
      intro x hx
      simp only [Bool.not_eq_true, List.any_eq_false] at h
      simpa using h x hx
    simp [this]

theorem get_put_other (st : List (Nat × W)) (i j : Nat) (w : W) (h : j ≠ i) : get (put st i w) j = get st j := by
  unfold get put
  have h1 : ¬ i = j := fun e => h e.symm
  by_cases ha : st.any (·.1 = i) = true
  · rw [if_pos ha]
    have : (st.map (fun p => if p.1 = i then (i, w) else p)).find? (·.1 = j) = st.find? (·.1 = j) := by
      clear ha
      induction st with
      | nil => rfl
      | cons p rest ih =>
        simp only [List.map_cons, List.find?_cons]
        by_cases hp : p.1 = i
        · have h2 : ¬ p.1 = j := fun e => h (e.symm.trans hp)
          simp only [hp, if_true, h1, decide_false]
          exact ih
        · simp only [hp, if_false]
          by_cases hp2 : p.1 = j
          · simp [hp2]
          · simp only [hp2, decide_false]; exact ih
    rw [this]
  · rw [if_neg ha, List.find?_append]
    cases List.find? (fun p => decide (p.1 = j)) st <;> simp [h1]

/-- what the witness holds for file `i` depends only on that file's own lines, in their order -/
theorem runW_proj (g : List (Nat × Nat)) (i : Nat) (st : List (Nat × W)) :
    get (g.foldl stepW st) i = ((g.filter (·.1 = i)).map (·.2)).foldl bumpW (get st i) := by
  induction g generalizing st with
  | nil => rfl
  | cons x rest ih =>
    simp only [List.foldl_cons, ih]
    by_cases hx : x.1 = i
    · simp only [List.filter_cons, hx, decide_true, if_true, List.map_cons, List.foldl_cons]
      congr 1
      simp only [stepW, hx, get_put_self]
    · simp only [List.filter_cons, hx, decide_false, Bool.false_eq_true, if_false]
      congr 1
      simp only [stepW]
      exact get_put_other st x.1 i _ (fun e => hx e.symm)

/-- on strictly increasing positive numbers the witness counts every line, remembers the last
    and sees no line out of order -/
theorem runOne_increasing (ns : List Nat) (w : W) (hpair : (w.last :: ns).Pairwise (· < ·)) :
    ns.foldl bumpW w = { count := w.count + ns.length, last := (ns.getLast?.getD w.last), ooo := w.ooo } := by
  induction ns generalizing w with
  | nil => simp
  | cons n rest ih =>
    simp only [List.pairwise_cons] at hpair
    have hlt : w.last < n := hpair.1 n (by simp)
    simp only [List.foldl_cons]
    have hb : bumpW w n = { count := w.count + 1, last := n, ooo := w.ooo } := by
      unfold bumpW
      have : ¬ n ≤ w.last := by omega
      simp [this]
    rw [hb, ih _ (by simpa using hpair.2)]
    simp only [List.length_cons]
    congr 1
    · omega
    · cases rest with
      | nil => simp
      | cons a b =>
        have : ∃ z, (a :: b).getLast? = some z := ⟨(a :: b).getLast (by simp), List.getLast?_eq_some_getLast (by simp)⟩
        obtain ⟨z, hz⟩ := this
        rw [List.getLast?_cons_cons, hz]; rfl

end MtailVerif.Witness
