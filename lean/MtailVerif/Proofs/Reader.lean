import MtailVerif.Model.Reader
/-! The index-based `send` loop equals the `spec` splitter; lifted to any chunking. -/
namespace MtailVerif.Reader

/-! obligations over the regenerated constants -/
theorem skipPlain_eq : Generated.Reader.skipPlain = 1 := rfl
theorem skipCR_eq : Generated.Reader.skipCR = 2 := rfl
theorem endDecCR_eq : Generated.Reader.endDecCR = 1 := rfl
theorem finishSkipsEmpty_eq : Generated.Reader.finishSkipsEmpty = true := rfl
theorem nl_ne_cr : nl ≠ cr := by decide

theorem send_def (lr : LR) : send lr =
    match idxNl (lr.buf.drop lr.off) with
    | none => none
    | some i =>
      let e := lr.off + i
      if e > 0 ∧ lr.buf[e-1]? = some cr then
        some ((lr.buf.take (e-1)).drop lr.off, { lr with off := e - 1 + 2 })
      else
        some ((lr.buf.take e).drop lr.off, { lr with off := e + 1 }) := by
  unfold send
  simp only [skipPlain_eq, skipCR_eq, endDecCR_eq]
  rfl

theorem idxNl_none {s : Bytes} (h : idxNl s = none) : nl ∉ s := by
  induction s with
  | nil => simp
  | cons c cs ih =>
    simp only [idxNl] at h
    split at h
    · simp at h
    · rename_i hc
      simp only [Option.map_eq_none_iff] at h
      simp only [List.mem_cons, not_or]
      exact ⟨fun e => hc e.symm, ih h⟩

theorem idxNl_some {s : Bytes} {i : Nat} (h : idxNl s = some i) :
    ∃ pre post, s = pre ++ nl :: post ∧ pre.length = i ∧ nl ∉ pre := by
  induction s generalizing i with
  | nil => simp [idxNl] at h
  | cons c cs ih =>
    simp only [idxNl] at h
    split at h
    · rename_i hc
      simp at h
      exact ⟨[], cs, by simp [hc], by simp [h], by simp⟩
    · rename_i hc
      simp only [Option.map_eq_some_iff] at h
      obtain ⟨j, hj, rfl⟩ := h
      obtain ⟨pre, post, rfl, hl, hn⟩ := ih hj
      refine ⟨c :: pre, post, by simp, by simp [hl], ?_⟩
      simp only [List.mem_cons, not_or]
      exact ⟨fun e => hc e.symm, hn⟩

theorem spec_nonl (cur s : Bytes) (h : nl ∉ s) : spec cur s = ([], cur ++ s) := by
  induction s generalizing cur with
  | nil => simp [spec]
  | cons c cs ih =>
    simp only [List.mem_cons, not_or] at h
    have hc : c ≠ nl := fun e => h.1 e.symm
    simp [spec, hc, ih _ h.2]

theorem spec_split (cur pre post : Bytes) (h : nl ∉ pre) :
    spec cur (pre ++ nl :: post) = (stripCR (cur ++ pre) :: (spec [] post).1, (spec [] post).2) := by
  induction pre generalizing cur with
  | nil => simp [spec]
  | cons c cs ih =>
    simp only [List.mem_cons, not_or] at h
    have hc : c ≠ nl := fun e => h.1 e.symm
    simp [spec, hc, ih _ h.2]

def Inv (lr : LR) : Prop :=
  ∃ done rest, lr.buf = done ++ rest ∧ lr.off = done.length ∧ (done = [] ∨ done.getLast? = some nl)

theorem send_none (lr : LR) (h : send lr = none) :
    spec [] (lr.buf.drop lr.off) = ([], lr.buf.drop lr.off) := by
  rw [send_def] at h
  split at h
  · rename_i hn
    have := idxNl_none hn
    simpa using spec_nonl [] _ this
  · dsimp only at h; split at h <;> simp at h

theorem send_some (lr : LR) (hi : Inv lr) (l : Bytes) (lr' : LR) (h : send lr = some (l, lr')) :
    Inv lr' ∧ lr'.buf = lr.buf ∧ lr.off < lr'.off ∧ lr'.off ≤ lr.buf.length ∧
    spec [] (lr.buf.drop lr.off) = (l :: (spec [] (lr.buf.drop lr'.off)).1, (spec [] (lr.buf.drop lr'.off)).2) := by
  obtain ⟨done, rest, hb, ho, hd⟩ := hi
  rw [send_def] at h
  split at h
  · simp at h
  · rename_i i hidx
    have hdrop : lr.buf.drop lr.off = rest := by simp [hb, ho]
    rw [hdrop] at hidx
    obtain ⟨pre, post, rfl, hl, hn⟩ := idxNl_some hidx
    subst hl
    have hspec := spec_split [] pre post hn
    simp only [List.nil_append] at hspec
    by_cases hp : pre = []
    · subst hp
      have hcond : ¬ (lr.off + 0 > 0 ∧ lr.buf[lr.off + 0 - 1]? = some cr) := by
        rintro ⟨hpos, hcr⟩
        rcases hd with hd | hd
        · simp [hd] at ho; omega
        · have : lr.buf[lr.off - 1]? = done.getLast? := by
            rw [hb, ho, List.getLast?_eq_getElem?]
            rw [List.getElem?_append_left (by simp at hpos ⊢; omega)]
          simp only [Nat.add_zero] at hcr
          rw [this, hd] at hcr
          exact nl_ne_cr (Option.some.inj hcr)
      simp only [List.length_nil] at h
      rw [if_neg hcond] at h
      simp only [Option.some.injEq, Prod.mk.injEq] at h
      obtain ⟨rfl, rfl⟩ := h
      refine ⟨⟨done ++ [nl], post, by simp [hb], by simp [ho], Or.inr (by simp)⟩, rfl, by simp, ?_, ?_⟩
      · simp [hb, ho]
      · simp [hb, ho, spec, stripCR]
    · have hlast : lr.buf[lr.off + pre.length - 1]? = pre.getLast? := by
        have hpl : 0 < pre.length := List.length_pos_iff.mpr hp
        rw [hb, ho, List.getLast?_eq_getElem?]
        rw [List.getElem?_append_right (by omega)]
        rw [List.getElem?_append_left (by omega)]
        congr 1; omega
      have hpl : 0 < pre.length := List.length_pos_iff.mpr hp
      by_cases hc : pre.getLast? = some cr
      · have hcond : (lr.off + pre.length > 0 ∧ lr.buf[lr.off + pre.length - 1]? = some cr) :=
          ⟨by omega, by rw [hlast, hc]⟩
        rw [if_pos hcond] at h
        simp only [Option.some.injEq, Prod.mk.injEq] at h
        obtain ⟨rfl, rfl⟩ := h
        refine ⟨⟨done ++ pre ++ [nl], post, by simp [hb], by simp [ho]; omega, Or.inr (by simp)⟩, rfl, by simp; omega, ?_, ?_⟩
        · simp [hb, ho]; omega
        · have e1 : lr.off + pre.length - 1 + 2 = (done ++ pre ++ [nl]).length := by simp [ho]; omega
          have e2 : lr.buf = (done ++ pre ++ [nl]) ++ post := by simp [hb]
          simp only [hdrop, hspec]
          rw [e1]
          conv => rhs; rw [e2]
          simp only [List.drop_left']
          congr 1
          simp only [stripCR, hc, if_true]
          rw [ho]
          have h3 : done.length + pre.length - 1 = done.length + (pre.length - 1) := by omega
          rw [h3]
          simp [List.take_append, List.dropLast_eq_take]
      · have hcond : ¬ (lr.off + pre.length > 0 ∧ lr.buf[lr.off + pre.length - 1]? = some cr) := by
          rintro ⟨_, hcr⟩; rw [hlast] at hcr; exact hc hcr
        rw [if_neg hcond] at h
        simp only [Option.some.injEq, Prod.mk.injEq] at h
        obtain ⟨rfl, rfl⟩ := h
        refine ⟨⟨done ++ pre ++ [nl], post, by simp [hb], by simp [ho]; omega, Or.inr (by simp)⟩, rfl, by simp; omega, ?_, ?_⟩
        · simp [hb, ho]; omega
        · have e1 : lr.off + pre.length + 1 = (done ++ pre ++ [nl]).length := by simp [ho]; omega
          have e2 : lr.buf = (done ++ pre ++ [nl]) ++ post := by simp [hb]
          simp only [hdrop, hspec]
          rw [e1]
          conv => rhs; rw [e2]
          simp only [List.drop_left']
          congr 1
          simp only [stripCR, hc, if_false]
          rw [ho]
          simp [List.take_append]

theorem sendAll_spec (n : Nat) (lr : LR) (hi : Inv lr) (hle : lr.off ≤ lr.buf.length)
    (hn : lr.buf.length - lr.off < n) :
    (sendAll n lr).1 = (spec [] (lr.buf.drop lr.off)).1 ∧
    (sendAll n lr).2.buf = lr.buf ∧
    lr.buf.drop (sendAll n lr).2.off = (spec [] (lr.buf.drop lr.off)).2 := by
  induction n generalizing lr with
  | zero => omega
  | succ n ih =>
    simp only [sendAll]
    cases hs : send lr with
    | none =>
      have := send_none lr hs
      simp [this]
    | some p =>
      obtain ⟨l, lr'⟩ := p
      obtain ⟨hi', hb', hlt, hle', hsp⟩ := send_some lr hi l lr' hs
      have := ih lr' hi' (by rw [hb']; exact hle') (by rw [hb']; omega)
      simp only [hb'] at this
      simp [hsp, this]

/-! ### lifting to any sequence of reads -/

theorem spec_append (cur a b : Bytes) :
    spec cur (a ++ b) = ((spec cur a).1 ++ (spec (spec cur a).2 b).1, (spec (spec cur a).2 b).2) := by
  induction a generalizing cur with
  | nil => simp [spec]
  | cons c cs ih =>
    by_cases hc : c = nl
    · simp [spec, hc, ih]
    · simp [spec, hc, ih]

theorem spec_rem_nonl (cur s : Bytes) (h : nl ∉ cur) : nl ∉ (spec cur s).2 := by
  induction s generalizing cur with
  | nil => simpa [spec]
  | cons c cs ih =>
    by_cases hc : c = nl
    · simp only [spec, hc, if_true]; exact ih [] (by simp)
    · simp only [spec, hc, if_false]
      apply ih
      simp only [List.mem_append, List.mem_singleton, not_or]
      exact ⟨h, fun e => hc e.symm⟩

theorem spec_cur (cur s : Bytes) (h : nl ∉ cur) : spec [] (cur ++ s) = spec cur s := by
  rw [spec_append, spec_nonl [] cur h]; simp

theorem readAndSend_spec (cur chunk : Bytes) (h : nl ∉ cur) :
    readAndSend ⟨cur, 0⟩ chunk = ((spec cur chunk).1, ⟨(spec cur chunk).2, 0⟩) := by
  unfold readAndSend
  by_cases he : chunk = []
  · subst he; simp [spec]
  · have hne : chunk.isEmpty = false := by cases chunk <;> simp_all
    simp only [hne, Bool.false_eq_true, if_false]
    have := sendAll_spec ((cur ++ chunk).length + 1) ⟨cur ++ chunk, 0⟩
      ⟨[], cur ++ chunk, by simp, by simp, Or.inl rfl⟩ (by simp) (by simp)
    simp only [List.drop_zero] at this
    obtain ⟨h1, h2, h3⟩ := this
    rw [spec_cur cur chunk h] at h1 h3
    simp only [h1, h2, h3]

theorem run_spec (cur : Bytes) (chunks : List Bytes) (h : nl ∉ cur) :
    run ⟨cur, 0⟩ chunks = ((spec cur chunks.flatten).1, ⟨(spec cur chunks.flatten).2, 0⟩) := by
  induction chunks generalizing cur with
  | nil => simp [run, spec]
  | cons c cs ih =>
    simp only [run, readAndSend_spec cur c h, List.flatten_cons]
    rw [ih _ (spec_rem_nonl cur c h), spec_append]

end MtailVerif.Reader
