import MtailVerif.Model.Runtime
namespace MtailVerif.Runtime

/-! ### `Store.Add`: data of a kept declaration is carried over -/

def copied (copyExpiry : Bool) (l : LVal) : LVal :=
  { labels := l.labels, value := l.value, expiry := if copyExpiry then l.expiry else 0 }

theorem copyOne_fresh (ce : Bool) (m : SMetric) (o : LVal) (h : ∀ l ∈ m.lvs, l.labels ≠ o.labels) :
    copyOne ce m o = { m with lvs := m.lvs ++ [copied ce o] } := by
  have hfil : m.lvs.filter (fun l => decide (l.labels ≠ o.labels)) = m.lvs := by
    apply List.filter_eq_self.mpr
    intro l hl; simpa using h l hl
  simp only [copyOne, hfil, copied]

theorem copy_fold (ce : Bool) (m : SMetric) (olds : List LVal)
    (hnd : (olds.map (·.labels)).Nodup) (hdis : ∀ o ∈ olds, ∀ l ∈ m.lvs, l.labels ≠ o.labels) :
    (olds.foldl (copyOne ce) m) = { m with lvs := m.lvs ++ olds.map (copied ce) } := by
  induction olds generalizing m with
  | nil => simp
  | cons o rest ih =>
    simp only [List.map_cons, List.nodup_cons] at hnd
    simp only [List.foldl_cons]
    rw [copyOne_fresh ce m o (hdis o (by simp)), ih _ hnd.2]
    · simp
    · intro o' ho' l hl
      simp only [List.mem_append, List.mem_singleton] at hl
      rcases hl with hl | hl
      · exact hdis o' (by simp [ho']) l hl
      · subst hl
        simp only [copied]
        intro e
        exact hnd.1 (e ▸ List.mem_map_of_mem ho')

theorem fold_prog (ce : Bool) (ls : List LVal) (m : SMetric) : (ls.foldl (copyOne ce) m).prog = m.prog := by
  induction ls generalizing m with
  | nil => rfl
  | cons o os ih => simp only [List.foldl_cons]; rw [ih]; rfl

theorem addScan_prog (ce : Bool) (m : SMetric) (l : List SMetric) (i : Nat) (d0 : Option Nat) :
    (addScan ce m l i d0).1.prog = m.prog := by
  induction l generalizing m i d0 with
  | nil => rfl
  | cons v rest ih =>
    simp only [addScan]
    split
    · exact ih ..
    · split
      · exact ih ..
      · split
        · exact ih ..
        · split
          · rfl
          · rw [ih, fold_prog]

/-- `dupeIndex`, when it is set by the scan, points at a metric of the same program -/
theorem addScan_dupe_prog (ce : Bool) (m : SMetric) (l : List SMetric) (i : Nat) (d0 : Option Nat)
    (m' : SMetric) (d : Nat) (h : addScan ce m l i d0 = (m', some d)) :
    (d0 = some d) ∨ (i ≤ d ∧ ∃ v, l[d - i]? = some v ∧ v.prog = m.prog) := by
  induction l generalizing m i d0 with
  | nil => simp only [addScan, Prod.mk.injEq] at h; exact Or.inl h.2
  | cons v rest ih =>
    have shift : ∀ (mm : SMetric), mm.prog = m.prog →
        (i + 1 ≤ d ∧ ∃ w, rest[d - (i + 1)]? = some w ∧ w.prog = mm.prog) →
        (i ≤ d ∧ ∃ w, (v :: rest)[d - i]? = some w ∧ w.prog = m.prog) := by
      rintro mm hmm ⟨hle, w, hw, hwp⟩
      refine ⟨by omega, w, ?_, hwp.trans hmm⟩
      have : d - i = (d - (i + 1)) + 1 := by omega
      rw [this]; simpa using hw
    simp only [addScan] at h
    split at h
    · rcases ih m (i + 1) d0 h with r | r
      · exact Or.inl r
      · exact Or.inr (shift m rfl r)
    · rename_i hp
      have hp' : v.prog = m.prog := by simpa using hp
      split at h
      · rcases ih m (i + 1) d0 h with r | r
        · exact Or.inl r
        · exact Or.inr (shift m rfl r)
      · split at h
        · rcases ih m (i + 1) d0 h with r | r
          · exact Or.inl r
          · exact Or.inr (shift m rfl r)
        · split at h
          · simp only [Prod.mk.injEq, Option.some.injEq] at h
            right; refine ⟨by omega, v, ?_, hp'⟩
            rw [← h.2]; simp
          · rcases ih _ (i + 1) (some i) h with r | r
            · right; simp only [Option.some.injEq] at r; subst r
              exact ⟨Nat.le_refl _, v, by simp, hp'⟩
            · exact Or.inr (shift _ (fold_prog ce v.lvs m) r)

theorem filter_eraseIdx {α} (p : α → Bool) (l : List α) (i : Nat) (x : α) (h : l[i]? = some x) (hp : p x = false) :
    (l.eraseIdx i).filter p = l.filter p := by
  induction l generalizing i with
  | nil => simp
  | cons y ys ih =>
    cases i with
    | zero => simp at h; subst h; simp [hp]
    | succ i =>
      simp only [List.getElem?_cons_succ] at h
      simp only [List.eraseIdx_cons_succ, List.filter_cons]
      rw [ih i h]

theorem find_map_set (s : Store) (n : Bytes) (ms : List SMetric) (h : s.any (·.1 = n) = true) :
    (s.map (fun p => if p.1 = n then (n, ms) else p)).find? (·.1 = n) = some (n, ms) := by
  induction s with
  | nil => simp at h
  | cons p rest ih =>
    by_cases hp : p.1 = n
    · simp [hp]
    · have h' : rest.any (·.1 = n) = true := by simpa [hp] using h
      simp [hp, ih h']

theorem get_set_self (s : Store) (n : Bytes) (ms : List SMetric) : (s.set n ms).get n = ms := by
  unfold Store.set Store.get
  by_cases h : s.any (·.1 = n) = true
  · rw [if_pos h, find_map_set s n ms h]
  · rw [if_neg h]
    have hnone : s.find? (fun p => decide (p.1 = n)) = none := by
      simp only [List.find?_eq_none]
      intro x hx
      simp only [Bool.not_eq_true, List.any_eq_false] at h
      simpa using h x hx
    rw [List.find?_append, hnone]; simp

theorem find_map_other (s : Store) (n n' : Bytes) (ms : List SMetric) (hne : n' ≠ n) :
    (s.map (fun p => if p.1 = n then (n, ms) else p)).find? (·.1 = n') = s.find? (·.1 = n') := by
  induction s with
  | nil => rfl
  | cons p rest ih =>
    simp only [List.map_cons, List.find?_cons]
    by_cases hp : p.1 = n
    · have h1 : ¬ p.1 = n' := fun e => hne (e.symm.trans hp)
      have h2 : ¬ n = n' := fun e => hne e.symm
      simp only [hp, if_true, h2, decide_false, ih]
    · simp only [hp, if_false]
      by_cases hp' : p.1 = n'
      · simp [hp']
      · simp [hp', ih]

theorem get_set_other (s : Store) (n n' : Bytes) (ms : List SMetric) (hne : n' ≠ n) :
    (s.set n ms).get n' = s.get n' := by
  unfold Store.set Store.get
  by_cases h : s.any (·.1 = n) = true
  · rw [if_pos h, find_map_other s n n' ms hne]
  · rw [if_neg h, List.find?_append]
    cases hf : List.find? (fun p => decide (p.1 = n')) s with
    | some x => simp
    | none => simp [hne.symm]

end MtailVerif.Runtime
