import MtailVerif.Proofs.ScopeRegex
/-! A name that no declaration in the program introduces cannot be resolved anywhere in it: an
    invariant of the checker's state (`Inv name`: every entry of every scope frame, of every
    decorator scope under construction and of every captured decorator scope, that points at a
    metric, constant or decorator symbol, is keyed by a name other than `name`) is kept by the walk
    over any tree that does not declare `name` (`walk_inv`), and under it the lookups of `name` fail
    (`lookup_none`).  With the algebra of state transformers of `ScopeNext` this gives
    `undecl_fires`: a use of the name as an identifier or as a decorator is reported, wherever in
    the program it stands. -/
namespace MtailVerif.Scope
open MtailVerif MtailVerif.Ast

/-- an entry of a scope frame is harmless for `name`: it points at an existing symbol, and if that
    symbol is not a capture group the entry's key is not `name` -/
def EntryOK (name : String) (syms : List Sym) (e : String × Nat) : Prop :=
  e.2 < syms.length ∧ ∀ sy, syms[e.2]? = some sy → sy.kind ≠ .capref → e.1 ≠ name

def FrameOK (name : String) (syms : List Sym) (f : Frame) : Prop := ∀ e ∈ f, EntryOK name syms e

/-- nothing in the checker's state can resolve `name` as a metric, constant or decorator -/
structure Inv (name : String) (s : St) : Prop where
  ids : ∀ (i : Nat) (sy : Sym), s.syms[i]? = some sy → sy.id = i
  names : ∀ sy ∈ s.syms, sy.kind ≠ .capref → sy.name ≠ name
  frames : ∀ f ∈ s.frames, FrameOK name s.syms f
  decos : ∀ f ∈ s.decoScopes, FrameOK name s.syms f
  zyg : ∀ z ∈ s.zygotes, FrameOK name s.syms z.2

theorem inv_init (name : String) : Inv name ({} : St) :=
  ⟨by intro i sy h; simp at h, by intro sy h; simp at h, by intro f h; simp at h, by intro f h; simp at h, by intro z h; simp at h⟩

/-- the invariant reads four fields only -/
theorem inv_core {name : String} {a b : St} (h : Inv name a) (h1 : b.frames = a.frames) (h2 : b.syms = a.syms)
    (h3 : b.decoScopes = a.decoScopes) (h4 : b.zygotes = a.zygotes) : Inv name b :=
  ⟨by rw [h2]; exact h.ids, by rw [h2]; exact h.names, by rw [h1, h2]; exact h.frames,
   by rw [h3, h2]; exact h.decos, by rw [h4, h2]; exact h.zyg⟩

def Core (a b : St) : Prop :=
  b.frames = a.frames ∧ b.syms = a.syms ∧ b.decoScopes = a.decoScopes ∧ b.zygotes = a.zygotes

theorem Core.refl (a : St) : Core a a := ⟨rfl, rfl, rfl, rfl⟩
theorem Core.trans {a b c : St} (h1 : Core a b) (h2 : Core b c) : Core a c :=
  ⟨by rw [h2.1, h1.1], by rw [h2.2.1, h1.2.1], by rw [h2.2.2.1, h1.2.2.1], by rw [h2.2.2.2, h1.2.2.2]⟩
theorem Core.inv {name : String} {a b : St} (h : Core a b) (hi : Inv name a) : Inv name b :=
  inv_core hi h.1 h.2.1 h.2.2.1 h.2.2.2

theorem core_sweep (s : St) : Core s (sweep s) := by
  unfold sweep
  split
  · exact Core.refl _
  · refine foldl_inv _ Core Core.refl (fun a b c => Core.trans) ?_ _ s
    intro s e
    split
    · split
      · exact Core.refl _
      · split <;> exact ⟨rfl, rfl, rfl, rfl⟩
    · exact Core.refl _

theorem core_markUsed (s : St) (i : Nat) : Core s (markUsed s i) := by
  unfold markUsed; split <;> exact ⟨rfl, rfl, rfl, rfl⟩

theorem core_depthCut (cfg : Cfg) (n : Node) (s : St) : Core s (depthCut cfg n s) := by
  unfold depthCut
  simp only
  split <;> exact ⟨rfl, rfl, rfl, rfl⟩

theorem inv_leave {name : String} {s : St} {k : St → St} (hk : ∀ x, Inv name x → Inv name (k x)) (h : Inv name s) :
    Inv name (leave s k) := by
  unfold leave
  split
  · exact h
  · exact inv_core (hk s h) rfl rfl rfl rfl

theorem inv_guarded {name : String} (cfg : Cfg) (n : Node) {k : St → St} (hk : ∀ x, Inv name x → Inv name (k x))
    {s : St} (h : Inv name s) : Inv name (guarded cfg n k s) := by
  unfold guarded
  split
  · exact (core_depthCut cfg n s).inv h
  · exact hk _ (inv_core h rfl rfl rfl rfl)

theorem frameOK_append {name : String} {syms : List Sym} (sy : Sym) {f : Frame} (h : FrameOK name syms f) :
    FrameOK name (syms ++ [sy]) f := by
  intro e he
  have := h e he
  have hlt := this.1
  refine ⟨by simp; omega, ?_⟩
  intro sy' h1 h2
  rw [List.getElem?_append_left this.1] at h1
  exact this.2 sy' h1 h2

theorem inv_newSym {name : String} {s : St} (n : String) (k : Kind) (p : Option Pos) (a : Nat)
    (hn : k ≠ .capref → n ≠ name) (h : Inv name s) : Inv name (s.newSym n k p a).1 := by
  unfold St.newSym
  refine ⟨?_, ?_, ?_, ?_, ?_⟩
  · intro i sy hi
    simp only at hi
    by_cases hlt : i < s.syms.length
    · rw [List.getElem?_append_left hlt] at hi; exact h.ids i sy hi
    · rw [List.getElem?_append_right (by omega)] at hi
      have : i - s.syms.length = 0 := by
        cases hc : i - s.syms.length with
        | zero => rfl
        | succ m => rw [hc] at hi; simp at hi
      rw [this] at hi
      simp at hi
      subst hi
      simp; omega
  · intro sy hm
    simp only [List.mem_append, List.mem_singleton] at hm
    rcases hm with hm | rfl
    · exact h.names sy hm
    · exact hn
  · intro f hf; exact frameOK_append _ (h.frames f hf)
  · intro f hf; exact frameOK_append _ (h.decos f hf)
  · intro z hz; exact frameOK_append _ (h.zyg z hz)

theorem inv_insertTop {name : String} {s : St} (key : String) (id : Nat) (he : EntryOK name s.syms (key, id))
    (h : Inv name s) : Inv name (insertTop s key id).1 := by
  unfold insertTop
  split
  · exact h
  · next f rest hf =>
    split
    · exact h
    · refine ⟨h.ids, h.names, ?_, h.decos, h.zyg⟩
      intro g hg
      simp only [List.mem_cons] at hg
      rcases hg with rfl | hg
      · intro e hm
        simp only [List.mem_append, List.mem_singleton] at hm
        rcases hm with hm | rfl
        · exact h.frames f (by rw [hf]; simp) e hm
        · exact he
      · exact h.frames g (by rw [hf]; simp [hg])

theorem syms_insertTop (s : St) (key : String) (id : Nat) : (insertTop s key id).1.syms = s.syms := by
  unfold insertTop
  split
  · rfl
  · split <;> rfl

theorem inv_declare {name : String} (n : String) (k : Kind) (p : Option Pos) (c : Cls) (dp : Option Pos)
    {ok : Sym → St → St} (hn : n ≠ name) (hok : ∀ sy x, Inv name x → Inv name (ok sy x)) {s : St} (h : Inv name s) :
    Inv name (declare n k p c dp ok s) := by
  unfold declare
  simp only
  have h1 : Inv name (s.newSym n k p).1 := inv_newSym n k p 0 (fun _ => hn) h
  have h2 : Inv name (insertTop (s.newSym n k p).1 n (s.newSym n k p).2.id).1 := by
    refine inv_insertTop n _ ⟨?_, fun _ _ _ => hn⟩ h1
    simp [St.newSym]
  split
  · exact inv_core h2 rfl rfl rfl rfl
  · exact hok _ _ h2

theorem inv_insertOrErr {name : String} {s : St} (key : String) (id : Nat) (p : Option Pos)
    (he : EntryOK name s.syms (key, id)) (h : Inv name s) : Inv name (insertOrErr s key id p) := by
  unfold insertOrErr
  split
  · exact inv_core (inv_insertTop key id he h) rfl rfl rfl rfl
  · exact inv_insertTop key id he h

theorem syms_insertOrErr (s : St) (key : String) (id : Nat) (p : Option Pos) : (insertOrErr s key id p).syms = s.syms := by
  unfold insertOrErr
  split
  · exact syms_insertTop s key id
  · exact syms_insertTop s key id

/-- renaming a capture-group symbol -/
theorem inv_renameSym {name : String} {s : St} (id : Nat) (n : String)
    (hc : ∀ sy, s.syms[id]? = some sy → sy.kind = .capref) (h : Inv name s) : Inv name (renameSym s id n) := by
  have hget : ∀ i sy', (s.syms.modify id (fun sy => { sy with name := n }))[i]? = some sy' →
      ∃ sy0, s.syms[i]? = some sy0 ∧ sy0.kind = sy'.kind ∧ sy0.id = sy'.id ∧ (i ≠ id → sy0 = sy') := by
    intro i sy' hi
    rw [List.getElem?_modify] at hi
    cases h0 : s.syms[i]? with
    | none => simp [h0] at hi
    | some sy0 =>
      simp only [h0, Option.map_eq_map, Option.map_some, Option.some.injEq] at hi
      refine ⟨sy0, rfl, ?_, ?_, ?_⟩
      · subst hi; split <;> rfl
      · subst hi; split <;> rfl
      · intro hne; subst hi; simp [Ne.symm hne]
  have hok : ∀ f, FrameOK name s.syms f → FrameOK name (s.syms.modify id (fun sy => { sy with name := n })) f := by
    intro f hf e he
    have := hf e he
    refine ⟨by simpa using this.1, ?_⟩
    intro sy' h1 h2
    obtain ⟨sy0, g1, g2, _, _⟩ := hget _ _ h1
    exact this.2 sy0 g1 (by rw [g2]; exact h2)
  unfold renameSym
  refine ⟨?_, ?_, fun f hf => hok f (h.frames f hf), fun f hf => hok f (h.decos f hf), fun z hz => hok _ (h.zyg z hz)⟩
  · intro i sy' hi
    obtain ⟨sy0, g1, _, g3, _⟩ := hget _ _ hi
    rw [← g3]; exact h.ids i sy0 g1
  · intro sy' hm hk
    obtain ⟨i, hi⟩ := List.getElem?_of_mem hm
    obtain ⟨sy0, g1, g2, _, g4⟩ := hget _ _ hi
    by_cases hid : i = id
    · subst hid
      have := hc sy0 g1
      rw [g2] at this
      exact absurd this hk
    · have := g4 hid
      subst this
      exact h.names sy0 (List.mem_of_getElem? g1) hk

theorem inv_addGroup {name : String} (p : Option Pos) {s : St} (e : String × Nat) (h : Inv name s) :
    Inv name (addGroup p s e) := by
  unfold addGroup
  simp only
  have h1 : Inv name (s.newSym (toString e.2) .capref p e.2).1 := inv_newSym _ _ _ _ (fun hk => absurd rfl hk) h
  have hid : (s.newSym (toString e.2) .capref p e.2).2.id = s.syms.length := rfl
  have hsy : (s.newSym (toString e.2) .capref p e.2).1.syms = s.syms ++ [(s.newSym (toString e.2) .capref p e.2).2] := rfl
  have hkind : ∀ sy, (s.newSym (toString e.2) .capref p e.2).1.syms[s.syms.length]? = some sy → sy.kind = .capref := by
    intro sy hs
    rw [hsy, List.getElem?_append_right (Nat.le_refl _)] at hs
    simp at hs
    subst hs; rfl
  have hent : ∀ key, EntryOK name (s.newSym (toString e.2) .capref p e.2).1.syms (key, s.syms.length) := by
    intro key
    refine ⟨by rw [hsy]; simp, ?_⟩
    intro sy h1 h2
    exact absurd (hkind sy h1) h2
  have h2 : Inv name (insertOrErr (s.newSym (toString e.2) .capref p e.2).1 (toString e.2) s.syms.length p) :=
    inv_insertOrErr _ _ _ (hent _) h1
  have hs2 : (insertOrErr (s.newSym (toString e.2) .capref p e.2).1 (toString e.2) s.syms.length p).syms =
      (s.newSym (toString e.2) .capref p e.2).1.syms := syms_insertOrErr _ _ _ _
  rw [hid]
  split
  · have h3 : Inv name (renameSym (insertOrErr (s.newSym (toString e.2) .capref p e.2).1 (toString e.2) s.syms.length p)
        s.syms.length e.1) := inv_renameSym _ _ (by rw [hs2]; exact hkind) h2
    refine inv_insertOrErr _ _ _ ?_ h3
    refine ⟨?_, ?_⟩
    · show s.syms.length < (renameSym _ _ _).syms.length
      unfold renameSym
      simp only [List.length_modify]
      rw [hs2, hsy]; simp
    · intro sy g1 g2
      exfalso
      unfold renameSym at g1
      simp only at g1
      rw [List.getElem?_modify, hs2] at g1
      cases h0 : (s.newSym (toString e.2) .capref p e.2).1.syms[s.syms.length]? with
      | none => rw [h0] at g1; cases g1
      | some sy0 =>
        rw [h0] at g1
        simp only [Option.map_eq_map, Option.map_some, Option.some.injEq] at g1
        have := hkind sy0 h0
        subst g1
        simp at g2
        exact g2 this
  · exact h2

theorem inv_foldl_addGroup {name : String} (p : Option Pos) (l : List (String × Nat)) {s : St} (h : Inv name s) :
    Inv name (l.foldl (addGroup p) s) := by
  induction l generalizing s with
  | nil => exact h
  | cons a l ih => exact ih (inv_addGroup p a h)

theorem inv_checkRegex {name : String} (cfg : Cfg) {s : St} (pat : Bytes) (p : Option Pos) (h : Inv name s) :
    Inv name (checkRegex cfg s pat p) := by
  unfold checkRegex
  split
  · exact inv_core h rfl rfl rfl rfl
  · split
    · exact inv_core h rfl rfl rfl rfl
    · split
      · exact h
      · exact inv_foldl_addGroup p _ h

theorem inv_evalCheck {name : String} (cfg : Cfg) (e : Node) (p : Option Pos) {s : St} (h : Inv name s) :
    Inv name (evalCheck cfg e p s) := by
  unfold evalCheck
  simp only
  split
  · exact inv_core h rfl rfl rfl rfl
  · exact inv_checkRegex cfg _ _ (inv_core h rfl rfl rfl rfl)

theorem inv_recordPattern {name : String} (cfg : Cfg) (sy : Sym) (e : Node) {s : St} (h : Inv name s) :
    Inv name (recordPattern cfg sy e s) := by
  unfold recordPattern
  simp only
  split
  · exact inv_core h rfl rfl rfl rfl
  · split <;> exact inv_core h rfl rfl rfl rfl

/-- `flatten` enters every symbol under its own current name: harmless for `name` -/
theorem frameOK_flatten {name : String} {s : St} (h : Inv name s) (frames : List Frame) (into : Frame)
    (hi : FrameOK name s.syms into) : FrameOK name s.syms (flatten s frames into) := by
  unfold flatten
  induction frames generalizing into with
  | nil => exact hi
  | cons f rest ih =>
    simp only [List.foldl_cons]
    apply ih
    clear ih
    induction f generalizing into with
    | nil => exact hi
    | cons e f ihf =>
      simp only [List.foldl_cons]
      apply ihf
      split
      · next sy hs =>
        split
        · exact hi
        · intro x hx
          simp only [List.mem_append, List.mem_singleton] at hx
          rcases hx with hx | rfl
          · exact hi x hx
          · have hid : sy.id = e.2 := h.ids e.2 sy hs
            have hlt : e.2 < s.syms.length := by
              unfold St.sym at hs
              exact (List.getElem?_eq_some_iff.mp hs).1
            refine ⟨by show sy.id < _; omega, ?_⟩
            intro sy' g1 g2
            show sy.name ≠ name
            have : sy' = sy := by
              have e1 : s.syms[sy.id]? = some sy := by rw [hid]; exact hs
              change s.syms[sy.id]? = some sy' at g1
              rw [e1] at g1; exact (Option.some.inj g1).symm
            subst this
            exact h.names _ (List.mem_of_getElem? hs) g2
      · exact hi

theorem inv_push {name : String} {s : St} (f : Frame) (hf : FrameOK name s.syms f) (h : Inv name s) : Inv name (push s f) := by
  unfold push
  refine ⟨h.ids, h.names, ?_, h.decos, h.zyg⟩
  intro g hg
  simp only [List.mem_cons] at hg
  rcases hg with rfl | hg
  · exact hf
  · exact h.frames g hg

theorem frameOK_nil (name : String) (syms : List Sym) : FrameOK name syms [] := by intro e he; simp at he

theorem inv_pop {name : String} {s : St} (h : Inv name s) : Inv name (pop s) := by
  unfold pop
  exact ⟨h.ids, h.names, fun f hf => h.frames f (List.mem_of_mem_tail hf), h.decos, h.zyg⟩

theorem inv_doNext {name : String} (p : Pos) {s : St} (h : Inv name s) : Inv name (doNext p s) := by
  unfold doNext
  split
  · exact inv_core h rfl rfl rfl rfl
  · next ds rest hd =>
    split
    · exact inv_core h rfl rfl rfl rfl
    · refine ⟨h.ids, h.names, h.frames, ?_, h.zyg⟩
      intro f hf
      simp only [List.mem_cons] at hf
      rcases hf with rfl | hf
      · exact frameOK_flatten h _ _ (frameOK_nil _ _)
      · exact h.decos f (by rw [hd]; simp [hf])

theorem inv_openDecoScope {name : String} {s : St} (h : Inv name s) : Inv name (openDecoScope s) := by
  unfold openDecoScope
  refine ⟨h.ids, h.names, h.frames, ?_, h.zyg⟩
  intro f hf
  simp only [List.mem_cons] at hf
  rcases hf with rfl | hf
  · exact frameOK_nil _ _
  · exact h.decos f hf

theorem inv_closeDeco {name : String} (sy : Sym) (w : Option Pos) {s : St} (h : Inv name s) : Inv name (closeDeco sy w s) := by
  unfold closeDeco
  split
  · exact h
  · next ds rest hd =>
    have hds : FrameOK name s.syms ds := h.decos ds (by rw [hd]; simp)
    have hrest : ∀ f ∈ rest, FrameOK name s.syms f := fun f hf => h.decos f (by rw [hd]; simp [hf])
    simp only
    split
    · refine ⟨h.ids, h.names, h.frames, hrest, ?_⟩
      intro z hz
      simp only [List.mem_cons] at hz
      rcases hz with rfl | hz
      · exact hds
      · exact h.zyg z hz
    · refine ⟨h.ids, h.names, h.frames, hrest, ?_⟩
      intro z hz
      simp only [List.mem_cons] at hz
      rcases hz with rfl | hz
      · exact hds
      · exact h.zyg z hz

theorem frameGet_mem {f : Frame} {n : String} {i : Nat} (h : frameGet f n = some i) : (n, i) ∈ f := by
  induction f with
  | nil => simp [frameGet] at h
  | cons e f ih =>
    obtain ⟨k, j⟩ := e
    unfold frameGet at h
    split at h
    · next hk => simp at h; subst h; subst hk; simp
    · simp [ih h]

/-- under the invariant `name` resolves to nothing but (possibly) a capture group -/
theorem lookup_none {name : String} {s : St} (h : Inv name s) (k : Kind) (hk : k ≠ .capref) : lookup s name k = none := by
  unfold lookup
  have : ∀ fr : List Frame, (∀ f ∈ fr, FrameOK name s.syms f) → lookup.go s name k fr = none := by
    intro fr
    induction fr with
    | nil => intro _; rfl
    | cons f rest ih =>
      intro hf
      unfold lookup.go
      have ihr := ih (fun g hg => hf g (by simp [hg]))
      split
      · next sy hs =>
        split
        · next hkk =>
          exfalso
          cases hg : frameGet f name with
          | none => simp [hg] at hs
          | some i =>
            simp only [hg, Option.bind_some] at hs
            have := (hf f (by simp)) (name, i) (frameGet_mem hg)
            exact this.2 sy hs (by rw [hkk]; exact hk) rfl
        · exact ihr
      · exact ihr
  exact this s.frames h.frames

theorem inv_idK {name : String} (n : String) (p : Pos) {s : St} (h : Inv name s) : Inv name (idK n p s) := by
  unfold idK
  split
  · exact inv_leave (fun x hx => hx) ((core_markUsed s _).inv h)
  · split
    · exact inv_leave (fun x hx => hx) ((core_markUsed s _).inv h)
    · exact inv_core h rfl rfl rfl rfl

theorem inv_capK {name : String} (n : String) (p : Pos) {s : St} (h : Inv name s) : Inv name (capK n p s) := by
  unfold capK
  split
  · exact inv_leave (fun x hx => hx) ((core_markUsed s _).inv h)
  · exact inv_core h rfl rfl rfl rfl

theorem inv_declK {name : String} (d : Decl) (p : Pos) (hn : d.name ≠ name) {s : St} (h : Inv name s) : Inv name (declK d p s) := by
  unfold declK
  refine inv_declare _ _ _ _ _ hn ?_ h
  intro sy x hx
  split
  · exact inv_core hx rfl rfl rfl rfl
  · exact inv_leave (fun x hx => hx) hx

theorem inv_decoK {name : String} (n : String) (w : Option Pos) {wb : St → St} (hwb : ∀ x, Inv name x → Inv name (wb x))
    {s : St} (h : Inv name s) : Inv name (decoK n w wb s) := by
  unfold decoK
  split
  · exact inv_core h rfl rfl rfl rfl
  · next sy _ =>
    have hm : Inv name (markUsed s sy.id) := (core_markUsed s _).inv h
    split
    · exact inv_core hm rfl rfl rfl rfl
    · next z hz =>
      have hzm : z ∈ (markUsed s sy.id).zygotes := List.mem_of_find?_eq_some hz
      refine inv_leave (fun x hx => inv_pop hx) (hwb _ (inv_push _ ?_ hm))
      exact frameOK_flatten hm _ _ (frameOK_nil _ _)

theorem inv_matchK {name : String} (cfg : Cfg) (op : Op) (r : Node) {s : St} (h : Inv name s) : Inv name (matchK cfg op r s) := by
  unfold matchK
  split
  · exact inv_guarded cfg r (fun x hx => inv_evalCheck cfg r _ hx) h
  · exact h

theorem inv_idxK {name : String} (cfg : Cfg) (lhs : Node) {s : St} (h : Inv name s) : Inv name (idxK cfg lhs s) := by
  unfold idxK
  split
  · exact inv_evalCheck cfg lhs _ h
  · exact h

theorem inv_substK {name : String} (n : String) (b : Bool) {s : St} (h : Inv name s) : Inv name (substK n b s) := by
  unfold substK
  split
  · exact inv_core h rfl rfl rfl rfl
  · exact h

mutual
/-- does the tree declare `name` (as a metric, a pattern constant or a decorator) anywhere? -/
def declares (name : String) : Node → Bool
  | .stmts cs => declaresList name cs
  | .exprs cs => declaresList name cs
  | .cond c t e => declares name c || declares name t || declares name e
  | .builtin _ args _ _ => declares name args
  | .bin _ l r _ => declares name l || declares name r
  | .un _ e _ _ => declares name e
  | .idx lhs index _ => declares name lhs || declares name index
  | .decl d _ => d.name == name
  | .patexpr e _ => declares name e
  | .const (.id n _ _) e _ => n == name || declares name e
  | .const _ _ _ => false
  | .decodecl n block _ => n == name || declares name block
  | .deco _ block _ => declares name block
  | .del n _ _ => declares name n
  | .conv n _ => declares name n
  | _ => false
def declaresList (name : String) : Nodes → Bool
  | .nil => false
  | .cons n ns => declares name n || declaresList name ns
end

theorem inv_constK {name : String} (cfg : Cfg) (i e : Node) {we : St → St} (hwe : ∀ x, Inv name x → Inv name (we x))
    (hn : ∀ n p ty, i = .id n p ty → n ≠ name) {s : St} (h : Inv name s) : Inv name (constK cfg i e we s) := by
  unfold constK
  split
  · next n p ty =>
    exact inv_declare _ _ _ _ _ (hn n p ty rfl) (fun sy x hx => inv_leave (fun y hy => inv_recordPattern cfg sy e hy) (hwe x hx)) h
  · exact inv_core h rfl rfl rfl rfl

theorem ne_of_beq_false {a b : String} (h : (a == b) = false) : a ≠ b := by
  intro he; subst he; simp at h

mutual
theorem walk_inv (cfg : Cfg) (name : String) : ∀ (n : Node), declares name n = false → ∀ s, Inv name s → Inv name (walk cfg n s)
  | .nil, _, s, h => by rw [walk]; exact h
  | .error _ _, _, s, h => by rw [walk]; exact h
  | .stmts cs, hd, s, h => by
    rw [walk]
    simp only [declares] at hd
    exact inv_guarded cfg _ (fun x hx => inv_leave (fun y hy => inv_pop ((core_sweep y).inv hy))
      (walkList_inv cfg name cs hd _ (inv_push [] (frameOK_nil _ _) hx))) h
  | .exprs cs, hd, s, h => by
    rw [walk]
    simp only [declares] at hd
    exact inv_guarded cfg _ (fun x hx => inv_leave (fun y hy => hy) (walkList_inv cfg name cs hd _ hx)) h
  | .cond c t e, hd, s, h => by
    rw [walk]
    simp only [declares, Bool.or_eq_false_iff] at hd
    exact inv_guarded cfg _ (fun x hx => inv_leave (fun y hy => inv_pop ((core_sweep y).inv hy))
      (walk_inv cfg name e hd.2 _ (walk_inv cfg name t hd.1.2 _ (walk_inv cfg name c hd.1.1 _ (inv_push [] (frameOK_nil _ _) hx))))) h
  | .id n p ty, _, s, h => by rw [walk]; exact inv_guarded cfg _ (fun x hx => inv_idK n p hx) h
  | .cap n nd p ty, _, s, h => by rw [walk]; exact inv_guarded cfg _ (fun x hx => inv_capK n p hx) h
  | .builtin n args p ty, hd, s, h => by
    rw [walk]
    simp only [declares] at hd
    exact inv_guarded cfg _ (fun x hx => inv_leave (fun y hy => inv_substK n false hy)
      (walk_inv cfg name args hd _ (inv_substK n true hx))) h
  | .bin op l r ty, hd, s, h => by
    rw [walk]
    simp only [declares, Bool.or_eq_false_iff] at hd
    exact inv_guarded cfg _ (fun x hx => inv_leave (fun y hy => inv_matchK cfg op r hy)
      (walk_inv cfg name r hd.2 _ (walk_inv cfg name l hd.1 _ hx))) h
  | .un op e p ty, hd, s, h => by
    rw [walk]
    simp only [declares] at hd
    exact inv_guarded cfg _ (fun x hx => inv_leave (fun y hy => hy) (walk_inv cfg name e hd _ hx)) h
  | .idx lhs index ty, hd, s, h => by
    rw [walk]
    simp only [declares, Bool.or_eq_false_iff] at hd
    exact inv_guarded cfg _ (fun x hx => inv_leave (fun y hy => inv_idxK cfg lhs hy)
      (walk_inv cfg name lhs hd.1 _ (walk_inv cfg name index hd.2 _ hx))) h
  | .decl d p, hd, s, h => by
    rw [walk]
    simp only [declares] at hd
    exact inv_guarded cfg _ (fun x hx => inv_declK d p (ne_of_beq_false hd) hx) h
  | .str t p, _, s, h => by rw [walk]; exact inv_guarded cfg _ (fun x hx => inv_leave (fun y hy => hy) hx) h
  | .int i p, _, s, h => by rw [walk]; exact inv_guarded cfg _ (fun x hx => inv_leave (fun y hy => hy) hx) h
  | .float b p, _, s, h => by rw [walk]; exact inv_guarded cfg _ (fun x hx => inv_leave (fun y hy => hy) hx) h
  | .patlit t p, _, s, h => by rw [walk]; exact inv_guarded cfg _ (fun x hx => inv_leave (fun y hy => hy) hx) h
  | .patexpr e pt, hd, s, h => by
    rw [walk]
    simp only [declares] at hd
    exact inv_guarded cfg _ (fun x hx => inv_leave (fun y hy => inv_evalCheck cfg e _ hy) (walk_inv cfg name e hd _ hx)) h
  | .const (.id n p ty) e pt, hd, s, h => by
    rw [walk]
    simp only [declares, Bool.or_eq_false_iff] at hd
    exact inv_guarded cfg _ (fun x hx => inv_constK cfg _ e (walk_inv cfg name e hd.2)
      (fun n' p' ty' he => by injection he with h1; rw [← h1]; exact ne_of_beq_false hd.1) hx) h
  | .decodecl n block p, hd, s, h => by
    rw [walk]
    simp only [declares, Bool.or_eq_false_iff] at hd
    exact inv_guarded cfg _ (fun x hx => inv_declare _ _ _ _ _ (ne_of_beq_false hd.1)
      (fun sy y hy => inv_leave (fun z hz => inv_closeDeco sy _ hz) (walk_inv cfg name block hd.2 _ (inv_openDecoScope hy))) hx) h
  | .deco n block p, hd, s, h => by
    rw [walk]
    simp only [declares] at hd
    exact inv_guarded cfg _ (fun x hx => inv_decoK n _ (walk_inv cfg name block hd) hx) h
  | .next p, _, s, h => by rw [walk]; exact inv_guarded cfg _ (fun x hx => inv_leave (fun y hy => inv_doNext p hy) hx) h
  | .otherwise p, _, s, h => by rw [walk]; exact inv_guarded cfg _ (fun x hx => inv_leave (fun y hy => hy) hx) h
  | .stop p, _, s, h => by rw [walk]; exact inv_guarded cfg _ (fun x hx => inv_leave (fun y hy => hy) hx) h
  | .del n ex p, hd, s, h => by
    rw [walk]
    simp only [declares] at hd
    exact inv_guarded cfg _ (fun x hx => inv_leave (fun y hy => hy) (walk_inv cfg name n hd _ hx)) h
  | .conv n ty, hd, s, h => by
    rw [walk]
    simp only [declares] at hd
    exact inv_guarded cfg _ (fun x hx => inv_leave (fun y hy => hy) (walk_inv cfg name n hd _ hx)) h
  | .const .nil e pt, _, s, h => by
    rw [walk]; exact inv_guarded cfg _ (fun x hx => inv_core (b := cut x) hx rfl rfl rfl rfl) h
  | .const (.stmts _) e pt, _, s, h => by
    rw [walk]; exact inv_guarded cfg _ (fun x hx => inv_core (b := cut x) hx rfl rfl rfl rfl) h
  | .const (.exprs _) e pt, _, s, h => by
    rw [walk]; exact inv_guarded cfg _ (fun x hx => inv_core (b := cut x) hx rfl rfl rfl rfl) h
  | .const (.cond _ _ _) e pt, _, s, h => by
    rw [walk]; exact inv_guarded cfg _ (fun x hx => inv_core (b := cut x) hx rfl rfl rfl rfl) h
  | .const (.cap _ _ _ _) e pt, _, s, h => by
    rw [walk]; exact inv_guarded cfg _ (fun x hx => inv_core (b := cut x) hx rfl rfl rfl rfl) h
  | .const (.builtin _ _ _ _) e pt, _, s, h => by
    rw [walk]; exact inv_guarded cfg _ (fun x hx => inv_core (b := cut x) hx rfl rfl rfl rfl) h
  | .const (.bin _ _ _ _) e pt, _, s, h => by
    rw [walk]; exact inv_guarded cfg _ (fun x hx => inv_core (b := cut x) hx rfl rfl rfl rfl) h
  | .const (.un _ _ _ _) e pt, _, s, h => by
    rw [walk]; exact inv_guarded cfg _ (fun x hx => inv_core (b := cut x) hx rfl rfl rfl rfl) h
  | .const (.idx _ _ _) e pt, _, s, h => by
    rw [walk]; exact inv_guarded cfg _ (fun x hx => inv_core (b := cut x) hx rfl rfl rfl rfl) h
  | .const (.decl _ _) e pt, _, s, h => by
    rw [walk]; exact inv_guarded cfg _ (fun x hx => inv_core (b := cut x) hx rfl rfl rfl rfl) h
  | .const (.str _ _) e pt, _, s, h => by
    rw [walk]; exact inv_guarded cfg _ (fun x hx => inv_core (b := cut x) hx rfl rfl rfl rfl) h
  | .const (.int _ _) e pt, _, s, h => by
    rw [walk]; exact inv_guarded cfg _ (fun x hx => inv_core (b := cut x) hx rfl rfl rfl rfl) h
  | .const (.float _ _) e pt, _, s, h => by
    rw [walk]; exact inv_guarded cfg _ (fun x hx => inv_core (b := cut x) hx rfl rfl rfl rfl) h
  | .const (.patexpr _ _) e pt, _, s, h => by
    rw [walk]; exact inv_guarded cfg _ (fun x hx => inv_core (b := cut x) hx rfl rfl rfl rfl) h
  | .const (.patlit _ _) e pt, _, s, h => by
    rw [walk]; exact inv_guarded cfg _ (fun x hx => inv_core (b := cut x) hx rfl rfl rfl rfl) h
  | .const (.const _ _ _) e pt, _, s, h => by
    rw [walk]; exact inv_guarded cfg _ (fun x hx => inv_core (b := cut x) hx rfl rfl rfl rfl) h
  | .const (.decodecl _ _ _) e pt, _, s, h => by
    rw [walk]; exact inv_guarded cfg _ (fun x hx => inv_core (b := cut x) hx rfl rfl rfl rfl) h
  | .const (.deco _ _ _) e pt, _, s, h => by
    rw [walk]; exact inv_guarded cfg _ (fun x hx => inv_core (b := cut x) hx rfl rfl rfl rfl) h
  | .const (.next _) e pt, _, s, h => by
    rw [walk]; exact inv_guarded cfg _ (fun x hx => inv_core (b := cut x) hx rfl rfl rfl rfl) h
  | .const (.otherwise _) e pt, _, s, h => by
    rw [walk]; exact inv_guarded cfg _ (fun x hx => inv_core (b := cut x) hx rfl rfl rfl rfl) h
  | .const (.stop _) e pt, _, s, h => by
    rw [walk]; exact inv_guarded cfg _ (fun x hx => inv_core (b := cut x) hx rfl rfl rfl rfl) h
  | .const (.del _ _ _) e pt, _, s, h => by
    rw [walk]; exact inv_guarded cfg _ (fun x hx => inv_core (b := cut x) hx rfl rfl rfl rfl) h
  | .const (.conv _ _) e pt, _, s, h => by
    rw [walk]; exact inv_guarded cfg _ (fun x hx => inv_core (b := cut x) hx rfl rfl rfl rfl) h
  | .const (.error _ _) e pt, _, s, h => by
    rw [walk]; exact inv_guarded cfg _ (fun x hx => inv_core (b := cut x) hx rfl rfl rfl rfl) h
theorem walkList_inv (cfg : Cfg) (name : String) : ∀ (ns : Nodes), declaresList name ns = false → ∀ s, Inv name s → Inv name (walkList cfg ns s)
  | .nil, _, s, h => by rw [walkList]; exact h
  | .cons n ns, hd, s, h => by
    rw [walkList]
    simp only [declaresList, Bool.or_eq_false_iff] at hd
    exact walkList_inv cfg name ns hd.2 _ (walk_inv cfg name n hd.1 _ h)
end

/-! ### an identifier or decorator nobody declares is rejected, wherever it stands -/

mutual
/-- does the tree use `name` as an identifier or as a decorator, at a place the checker visits? -/
def mentions (name : String) : Node → Bool
  | .id n _ _ => n == name
  | .deco n block _ => n == name || mentions name block
  | .stmts cs => mentionsList name cs
  | .exprs cs => mentionsList name cs
  | .cond c t e => mentions name c || mentions name t || mentions name e
  | .builtin _ args _ _ => mentions name args
  | .bin _ l r _ => mentions name l || mentions name r
  | .un _ e _ _ => mentions name e
  | .idx lhs index _ => mentions name index || mentions name lhs
  | .patexpr e _ => mentions name e
  | .const (.id _ _ _) e _ => mentions name e
  | .decodecl _ block _ => mentions name block
  | .del n _ _ => mentions name n
  | .conv n _ => mentions name n
  | _ => false
def mentionsList (name : String) : Nodes → Bool
  | .nil => false
  | .cons n ns => mentions name n || mentionsList name ns
end

/-- below the depth limit, and with nothing in scope that could resolve `name`, `f` reports an error -/
def FiresU (name : String) (f : St → St) : Prop :=
  ∀ s, s.tooDeep = false → Inv name s → s.errors.length < (f s).errors.length

/-- a transformer that keeps the invariant, besides being monotone in the errors -/
structure TrU (name : String) (f : St → St) : Prop where
  tr : Tr f
  inv : ∀ s, Inv name s → Inv name (f s)

theorem TrU.comp {name : String} {f g : St → St} (hf : TrU name f) (hg : TrU name g) : TrU name (fun s => g (f s)) :=
  ⟨Tr.comp hf.tr hg.tr, fun s h => hg.inv _ (hf.inv s h)⟩

theorem firesU_then {name : String} {f g : St → St} (hf : FiresU name f) (hg : ∀ s, Ext s (g s)) :
    FiresU name (fun s => g (f s)) := by
  intro s h1 h2
  show s.errors.length < (g (f s)).errors.length
  have := hf s h1 h2
  have := ext_len (hg (f s))
  omega

theorem then_firesU {name : String} {f g : St → St} (hf : TrU name f) (hg : FiresU name g) (mg : ∀ s, Ext s (g s)) :
    FiresU name (fun s => g (f s)) := by
  intro s h1 h2
  show s.errors.length < (g (f s)).errors.length
  have m1 := ext_len (hf.tr.mono s)
  have m2 := ext_len (mg (f s))
  rcases hf.tr.keeps s h1 with ⟨_, h4⟩ | h
  · have := hg (f s) h4 (hf.inv s h2)
    omega
  · omega

theorem firesU_guarded {name : String} (cfg : Cfg) (n : Node) {k : St → St} (hk : FiresU name k) : FiresU name (guarded cfg n k) := by
  intro s h1 h2
  unfold guarded
  split
  · unfold depthCut
    simp [h1, St.err]
  · exact hk { s with depth := s.depth + 1 } h1 (inv_core h2 rfl rfl rfl rfl)

theorem firesU_leave_before {name : String} {f k : St → St} (hf : FiresU name f) (mk : ∀ s, Ext s (k s)) :
    FiresU name (fun s => leave (f s) k) := by
  intro s h1 h2
  show s.errors.length < (leave (f s) k).errors.length
  have := hf s h1 h2
  have := ext_len (ext_leave (s := f s) mk)
  omega

theorem firesU_declare {name : String} (n : String) (k : Kind) (p : Option Pos) (c : Cls) (dp : Option Pos) {ok : Sym → St → St}
    (hn : n ≠ name) (hok : ∀ sy, FiresU name (ok sy)) : FiresU name (declare n k p c dp ok) := by
  intro s h1 h2
  unfold declare
  simp only
  have hsame := same_insertTop (s.newSym n k p).1 n (s.newSym n k p).2.id
  have hlen := ext_len (ext_insertTop (s.newSym n k p).1 n (s.newSym n k p).2.id)
  have e0 : s.errors.length = (s.newSym n k p).1.errors.length := rfl
  have i1 : Inv name (s.newSym n k p).1 := inv_newSym n k p 0 (fun _ => hn) h2
  have i2 : Inv name (insertTop (s.newSym n k p).1 n (s.newSym n k p).2.id).1 := by
    refine inv_insertTop n _ ⟨?_, fun _ _ _ => hn⟩ i1
    simp [St.newSym]
  split
  · simp [cut, St.err]; omega
  · have := hok (s.newSym n k p).2 _ (by rw [hsame.2]; exact h1) i2
    omega

theorem firesU_decoK {name : String} (n : String) (w : Option Pos) {wb : St → St} (hwb : FiresU name wb) :
    FiresU name (decoK n w wb) := by
  intro s h1 h2
  unfold decoK
  split
  · simp [cut, St.err]
  · next sy _ =>
    have e1 : (markUsed s sy.id).errors = s.errors := by unfold markUsed; split <;> rfl
    have t1 : (markUsed s sy.id).tooDeep = s.tooDeep := by unfold markUsed; split <;> rfl
    have hm : Inv name (markUsed s sy.id) := (core_markUsed s _).inv h2
    split
    · simp only [cut, St.err, List.length_append, List.length_cons, List.length_nil, e1]; omega
    · next z _ =>
      have := hwb (push (markUsed s sy.id) (flatten (markUsed s sy.id) [z.2] [])) (by simp [push, t1, h1])
        (inv_push _ (frameOK_flatten hm _ _ (frameOK_nil _ _)) hm)
      have hl := ext_len (ext_leave (s := wb (push (markUsed s sy.id) (flatten (markUsed s sy.id) [z.2] []))) ext_pop)
      have e2 : (push (markUsed s sy.id) (flatten (markUsed s sy.id) [z.2] [])).errors.length = s.errors.length := by
        simp [push, e1]
      omega

/-- the identifier itself: nothing resolves it -/
theorem firesU_idK (name : String) (p : Pos) : FiresU name (idK name p) := by
  intro s _ h2
  unfold idK
  simp [lookup_none h2 .var (by decide), lookup_none h2 .pattern (by decide), cut, St.err]

/-- the decorator use itself -/
theorem firesU_decoK_self (name : String) (w : Option Pos) (wb : St → St) : FiresU name (decoK name w wb) := by
  intro s _ h2
  unfold decoK
  simp [lookup_none h2 .deco (by decide), cut, St.err]

theorem trU_walk (cfg : Cfg) (name : String) (n : Node) (h : declares name n = false) : TrU name (walk cfg n) :=
  ⟨walk_tr cfg n, walk_inv cfg name n h⟩
theorem trU_walkList (cfg : Cfg) (name : String) (ns : Nodes) (h : declaresList name ns = false) : TrU name (walkList cfg ns) :=
  ⟨walkList_tr cfg ns, walkList_inv cfg name ns h⟩
theorem trU_push (name : String) : TrU name (fun s => push s []) :=
  ⟨tr_push [], fun _ h => inv_push [] (frameOK_nil _ _) h⟩
theorem trU_substK (name n : String) (b : Bool) : TrU name (substK n b) := ⟨tr_substK n b, fun _ h => inv_substK n b h⟩

mutual
/-- **a name nobody declares, used as an identifier or as a decorator, is rejected wherever it stands** -/
theorem undecl_fires (cfg : Cfg) (name : String) : ∀ (n : Node), declares name n = false → mentions name n = true →
    FiresU name (walk cfg n)
  | .stmts cs, hd, h => by
    have : walk cfg (.stmts cs) = guarded cfg (.stmts cs) (fun s => leave (walkList cfg cs (push s)) fun s => pop (sweep s)) := by
      funext s; rw [walk]
    rw [this]
    simp only [mentions] at h
    simp only [declares] at hd
    exact firesU_guarded cfg _ (firesU_leave_before
      (then_firesU (trU_push name) (undeclList_fires cfg name cs hd h) (walkList_tr cfg cs).mono) (Tr.comp tr_sweep tr_pop).mono)
  | .exprs cs, hd, h => by
    have : walk cfg (.exprs cs) = guarded cfg (.exprs cs) (fun s => leave (walkList cfg cs s) id) := by
      funext s; rw [walk]
    rw [this]
    simp only [mentions] at h
    simp only [declares] at hd
    exact firesU_guarded cfg _ (firesU_leave_before (undeclList_fires cfg name cs hd h) ext_id)
  | .cond c t e, hd, h => by
    have : walk cfg (.cond c t e) = guarded cfg (.cond c t e)
        (fun s => leave (walk cfg e (walk cfg t (walk cfg c (push s)))) fun s => pop (sweep s)) := by
      funext s; rw [walk]
    rw [this]
    simp only [mentions, Bool.or_eq_true] at h
    simp only [declares, Bool.or_eq_false_iff] at hd
    refine firesU_guarded cfg _ (firesU_leave_before ?_ (Tr.comp tr_sweep tr_pop).mono)
    rcases h with (h | h) | h
    · exact firesU_then (f := fun s => walk cfg t (walk cfg c (push s)))
        (firesU_then (f := fun s => walk cfg c (push s)) (then_firesU (trU_push name) (undecl_fires cfg name c hd.1.1 h) (walk_tr cfg c).mono)
          (walk_tr cfg t).mono) (walk_tr cfg e).mono
    · exact firesU_then (f := fun s => walk cfg t (walk cfg c (push s)))
        (then_firesU (f := fun s => walk cfg c (push s)) (TrU.comp (trU_push name) (trU_walk cfg name c hd.1.1)) (undecl_fires cfg name t hd.1.2 h)
          (walk_tr cfg t).mono) (walk_tr cfg e).mono
    · exact then_firesU (f := fun s => walk cfg t (walk cfg c (push s)))
        (TrU.comp (TrU.comp (trU_push name) (trU_walk cfg name c hd.1.1)) (trU_walk cfg name t hd.1.2)) (undecl_fires cfg name e hd.2 h) (walk_tr cfg e).mono
  | .id n p ty, _, h => by
    have : walk cfg (.id n p ty) = guarded cfg (.id n p ty) (idK n p) := by funext s; rw [walk]
    rw [this]
    simp only [mentions, beq_iff_eq] at h
    subst h
    exact firesU_guarded cfg _ (firesU_idK n p)
  | .builtin n args p ty, hd, h => by
    have : walk cfg (.builtin n args p ty) = guarded cfg (.builtin n args p ty)
        (fun s => leave (walk cfg args (substK n true s)) (substK n false)) := by funext s; rw [walk]
    rw [this]
    simp only [mentions] at h
    simp only [declares] at hd
    exact firesU_guarded cfg _ (firesU_leave_before
      (then_firesU (trU_substK name n true) (undecl_fires cfg name args hd h) (walk_tr cfg args).mono) (tr_substK n false).mono)
  | .bin op l r ty, hd, h => by
    have : walk cfg (.bin op l r ty) = guarded cfg (.bin op l r ty)
        (fun s => leave (walk cfg r (walk cfg l s)) (matchK cfg op r)) := by funext s; rw [walk]
    rw [this]
    simp only [mentions, Bool.or_eq_true] at h
    simp only [declares, Bool.or_eq_false_iff] at hd
    refine firesU_guarded cfg _ (firesU_leave_before ?_ (tr_matchK cfg op r).mono)
    rcases h with h | h
    · exact firesU_then (undecl_fires cfg name l hd.1 h) (walk_tr cfg r).mono
    · exact then_firesU (trU_walk cfg name l hd.1) (undecl_fires cfg name r hd.2 h) (walk_tr cfg r).mono
  | .un op e p ty, hd, h => by
    have : walk cfg (.un op e p ty) = guarded cfg (.un op e p ty) (fun s => leave (walk cfg e s) id) := by
      funext s; rw [walk]
    rw [this]
    simp only [mentions] at h
    simp only [declares] at hd
    exact firesU_guarded cfg _ (firesU_leave_before (undecl_fires cfg name e hd h) ext_id)
  | .idx lhs index ty, hd, h => by
    have : walk cfg (.idx lhs index ty) = guarded cfg (.idx lhs index ty)
        (fun s => leave (walk cfg lhs (walk cfg index s)) (idxK cfg lhs)) := by funext s; rw [walk]
    rw [this]
    simp only [mentions, Bool.or_eq_true] at h
    simp only [declares, Bool.or_eq_false_iff] at hd
    refine firesU_guarded cfg _ (firesU_leave_before ?_ (tr_idxK cfg lhs).mono)
    rcases h with h | h
    · exact firesU_then (undecl_fires cfg name index hd.2 h) (walk_tr cfg lhs).mono
    · exact then_firesU (trU_walk cfg name index hd.2) (undecl_fires cfg name lhs hd.1 h) (walk_tr cfg lhs).mono
  | .patexpr e pt, hd, h => by
    have : walk cfg (.patexpr e pt) = guarded cfg (.patexpr e pt) (fun s => leave (walk cfg e s) (evalCheck cfg e (posOf e))) := by
      funext s; rw [walk]
    rw [this]
    simp only [mentions] at h
    simp only [declares] at hd
    exact firesU_guarded cfg _ (firesU_leave_before (undecl_fires cfg name e hd h) (ext_evalCheck cfg e _))
  | .const (.id n p ty) e pt, hd, h => by
    have : walk cfg (.const (.id n p ty) e pt) = guarded cfg (.const (.id n p ty) e pt)
        (constK cfg (.id n p ty) e (walk cfg e)) := by funext s; rw [walk]
    rw [this]
    simp only [mentions] at h
    simp only [declares, Bool.or_eq_false_iff] at hd
    refine firesU_guarded cfg _ ?_
    unfold constK
    exact firesU_declare _ _ _ _ _ (ne_of_beq_false hd.1)
      (fun sy => firesU_leave_before (undecl_fires cfg name e hd.2 h) (ext_recordPattern cfg sy e))
  | .decodecl n block p, hd, h => by
    have : walk cfg (.decodecl n block p) = guarded cfg (.decodecl n block p)
        (declare n .deco (some p) .redeclDeco (merge (some p) (posOf block)) fun sy s =>
          leave (walk cfg block (openDecoScope s)) (closeDeco sy (merge (some p) (posOf block)))) := by
      funext s; rw [walk]
    rw [this]
    simp only [mentions] at h
    simp only [declares, Bool.or_eq_false_iff] at hd
    refine firesU_guarded cfg _ (firesU_declare _ _ _ _ _ (ne_of_beq_false hd.1) (fun sy => ?_))
    intro s h1 h2
    have := undecl_fires cfg name block hd.2 h (openDecoScope s) h1 (inv_openDecoScope h2)
    have hl := ext_len (ext_leave (s := walk cfg block (openDecoScope s)) (ext_closeDeco sy (merge (some p) (posOf block))))
    have e0 : (openDecoScope s).errors.length = s.errors.length := rfl
    show s.errors.length < (leave (walk cfg block (openDecoScope s)) (closeDeco sy (merge (some p) (posOf block)))).errors.length
    omega
  | .deco n block p, hd, h => by
    have : walk cfg (.deco n block p) = guarded cfg (.deco n block p)
        (decoK n (merge (some p) (posOf block)) (walk cfg block)) := by funext s; rw [walk]
    rw [this]
    simp only [mentions, Bool.or_eq_true, beq_iff_eq] at h
    simp only [declares] at hd
    rcases h with h | h
    · subst h
      exact firesU_guarded cfg _ (firesU_decoK_self n _ _)
    · exact firesU_guarded cfg _ (firesU_decoK n _ (undecl_fires cfg name block hd h))
  | .del n ex p, hd, h => by
    have : walk cfg (.del n ex p) = guarded cfg (.del n ex p) (fun s => leave (walk cfg n s) id) := by
      funext s; rw [walk]
    rw [this]
    simp only [mentions] at h
    simp only [declares] at hd
    exact firesU_guarded cfg _ (firesU_leave_before (undecl_fires cfg name n hd h) ext_id)
  | .conv n ty, hd, h => by
    have : walk cfg (.conv n ty) = guarded cfg (.conv n ty) (fun s => leave (walk cfg n s) id) := by
      funext s; rw [walk]
    rw [this]
    simp only [mentions] at h
    simp only [declares] at hd
    exact firesU_guarded cfg _ (firesU_leave_before (undecl_fires cfg name n hd h) ext_id)
  | .next _, _, h => by simp [mentions] at h
  | .nil, _, h => by simp [mentions] at h
  | .error _ _, _, h => by simp [mentions] at h
  | .cap _ _ _ _, _, h => by simp [mentions] at h
  | .decl _ _, _, h => by simp [mentions] at h
  | .str _ _, _, h => by simp [mentions] at h
  | .int _ _, _, h => by simp [mentions] at h
  | .float _ _, _, h => by simp [mentions] at h
  | .patlit _ _, _, h => by simp [mentions] at h
  | .otherwise _, _, h => by simp [mentions] at h
  | .stop _, _, h => by simp [mentions] at h
  | .const .nil _ _, _, h => by simp [mentions] at h
  | .const (.stmts _) _ _, _, h => by simp [mentions] at h
  | .const (.exprs _) _ _, _, h => by simp [mentions] at h
  | .const (.cond _ _ _) _ _, _, h => by simp [mentions] at h
  | .const (.cap _ _ _ _) _ _, _, h => by simp [mentions] at h
  | .const (.builtin _ _ _ _) _ _, _, h => by simp [mentions] at h
  | .const (.bin _ _ _ _) _ _, _, h => by simp [mentions] at h
  | .const (.un _ _ _ _) _ _, _, h => by simp [mentions] at h
  | .const (.idx _ _ _) _ _, _, h => by simp [mentions] at h
  | .const (.decl _ _) _ _, _, h => by simp [mentions] at h
  | .const (.str _ _) _ _, _, h => by simp [mentions] at h
  | .const (.int _ _) _ _, _, h => by simp [mentions] at h
  | .const (.float _ _) _ _, _, h => by simp [mentions] at h
  | .const (.patexpr _ _) _ _, _, h => by simp [mentions] at h
  | .const (.patlit _ _) _ _, _, h => by simp [mentions] at h
  | .const (.const _ _ _) _ _, _, h => by simp [mentions] at h
  | .const (.decodecl _ _ _) _ _, _, h => by simp [mentions] at h
  | .const (.deco _ _ _) _ _, _, h => by simp [mentions] at h
  | .const (.next _) _ _, _, h => by simp [mentions] at h
  | .const (.otherwise _) _ _, _, h => by simp [mentions] at h
  | .const (.stop _) _ _, _, h => by simp [mentions] at h
  | .const (.del _ _ _) _ _, _, h => by simp [mentions] at h
  | .const (.conv _ _) _ _, _, h => by simp [mentions] at h
  | .const (.error _ _) _ _, _, h => by simp [mentions] at h
theorem undeclList_fires (cfg : Cfg) (name : String) : ∀ (ns : Nodes), declaresList name ns = false → mentionsList name ns = true →
    FiresU name (walkList cfg ns)
  | .nil, _, h => by simp [mentionsList] at h
  | .cons n ns, hd, h => by
    have : walkList cfg (.cons n ns) = fun s => walkList cfg ns (walk cfg n s) := by funext s; rw [walkList]
    rw [this]
    simp only [mentionsList, Bool.or_eq_true] at h
    simp only [declaresList, Bool.or_eq_false_iff] at hd
    rcases h with h | h
    · exact firesU_then (undecl_fires cfg name n hd.1 h) (walkList_tr cfg ns).mono
    · exact then_firesU (trU_walk cfg name n hd.1) (undeclList_fires cfg name ns hd.2 h) (walkList_tr cfg ns).mono
end

end MtailVerif.Scope
