import MtailVerif.Proofs.ScopeNext
/-! A regular expression literal that is too long or does not parse is rejected wherever it stands
    (decorator definitions included): a second statement over all programs, proved with the same
    algebra of state transformers as `next_fires`. -/
namespace MtailVerif.Scope
open MtailVerif MtailVerif.Ast

/-- below the depth limit `f` reports an error -/
def FiresA (f : St → St) : Prop :=
  ∀ s, s.tooDeep = false → s.errors.length < (f s).errors.length

theorem firesA_then {f g : St → St} (hf : FiresA f) (hg : ∀ s, Ext s (g s)) : FiresA (fun s => g (f s)) := by
  intro s h1
  show s.errors.length < (g (f s)).errors.length
  have := hf s h1
  have := ext_len (hg (f s))
  omega

theorem then_firesA {f g : St → St} (hf : Tr f) (hg : FiresA g) (mg : ∀ s, Ext s (g s)) : FiresA (fun s => g (f s)) := by
  intro s h1
  show s.errors.length < (g (f s)).errors.length
  have m1 := ext_len (hf.mono s)
  have m2 := ext_len (mg (f s))
  rcases hf.keeps s h1 with ⟨_, h4⟩ | h
  · have := hg (f s) h4
    omega
  · omega

theorem firesA_guarded (cfg : Cfg) (n : Node) {k : St → St} (hk : FiresA k) : FiresA (guarded cfg n k) := by
  intro s h1
  unfold guarded
  split
  · unfold depthCut
    simp [h1, St.err]
  · exact hk { s with depth := s.depth + 1 } h1

theorem firesA_declare (name : String) (k : Kind) (p : Option Pos) (c : Cls) (dp : Option Pos) {ok : Sym → St → St}
    (hok : ∀ sy, FiresA (ok sy)) : FiresA (declare name k p c dp ok) := by
  intro s h1
  unfold declare
  simp only
  have hsame := same_insertTop (s.newSym name k p).1 name (s.newSym name k p).2.id
  have hlen := ext_len (ext_insertTop (s.newSym name k p).1 name (s.newSym name k p).2.id)
  have e0 : s.errors.length = (s.newSym name k p).1.errors.length := rfl
  split
  · simp [cut, St.err]; omega
  · have := hok (s.newSym name k p).2 _ (by rw [hsame.2]; exact h1)
    omega

theorem firesA_leave_after {f k : St → St} (hf : Tr f) (hk : FiresA k) (mk : ∀ s, Ext s (k s)) :
    FiresA (fun s => leave (f s) k) := by
  intro s h1
  show s.errors.length < (leave (f s) k).errors.length
  have m1 := ext_len (hf.mono s)
  rcases hf.keeps s h1 with ⟨_, h4⟩ | h
  · unfold leave
    simp only [h4]
    have := hk (f s) h4
    simp; omega
  · have := ext_len (ext_leave (s := f s) mk)
    omega

theorem firesA_leave_before {f k : St → St} (hf : FiresA f) (mk : ∀ s, Ext s (k s)) :
    FiresA (fun s => leave (f s) k) := by
  intro s h1
  show s.errors.length < (leave (f s) k).errors.length
  have := hf s h1
  have := ext_len (ext_leave (s := f s) mk)
  omega

theorem firesA_decoK (name : String) (w : Option Pos) {wb : St → St} (hwb : FiresA wb) :
    FiresA (decoK name w wb) := by
  intro s h1
  unfold decoK
  split
  · simp [cut, St.err]
  · next sy _ =>
    have e1 : (markUsed s sy.id).errors = s.errors := by unfold markUsed; split <;> rfl
    have t1 : (markUsed s sy.id).tooDeep = s.tooDeep := by unfold markUsed; split <;> rfl
    split
    · simp only [cut, St.err, List.length_append, List.length_cons, List.length_nil, e1]; omega
    · next z _ =>
      have := hwb (push (markUsed s sy.id) (flatten (markUsed s sy.id) [z.2] [])) (by simp [push, t1, h1])
      have hl := ext_len (ext_leave (s := wb (push (markUsed s sy.id) (flatten (markUsed s sy.id) [z.2] []))) ext_pop)
      have e2 : (push (markUsed s sy.id) (flatten (markUsed s sy.id) [z.2] [])).errors.length = s.errors.length := by
        simp [push, e1]
      omega

/-- the text of a pattern expression written with literals only -/
def litText : Node → Option Bytes
  | .patlit p _ => some p
  | .bin .plus l r _ =>
    match litText l, litText r with
    | some a, some b => some (a ++ b)
    | _, _ => none
  | _ => none

/-- a literal pattern that the checker must refuse: over the length limit, or not parseable -/
def badLit (cfg : Cfg) (e : Node) : Bool :=
  match litText e with
  | some t => !t.isEmpty && (decide (t.length > cfg.maxRegexLen) || (cfg.groups t).isNone)
  | none => false

theorem evalPattern_lit (f : UInt64 → Bytes) (s : St) : ∀ (e : Node) (t : Bytes), litText e = some t →
    evalPattern f s e = (t, []) := by
  intro e
  induction e using Node.rec (motive_2 := fun _ => True) with
  | patlit p pos => intro t h; simp [litText] at h; subst h; simp [evalPattern]
  | bin op l r ty ihl ihr =>
    intro t h
    cases op <;> simp [litText] at h
    cases hl : litText l <;> cases hr : litText r <;> simp [hl, hr] at h
    subst h
    rename_i a b
    simp [evalPattern, ihl a hl, ihr b hr]
  | _ => first | trivial | (intro t h; simp [litText] at h)

theorem firesA_evalCheck (cfg : Cfg) (e : Node) (p : Option Pos) (h : badLit cfg e = true) :
    FiresA (evalCheck cfg e p) := by
  intro s _
  unfold badLit at h
  cases ht : litText e with
  | none => simp [ht] at h
  | some t =>
    simp [ht] at h
    unfold evalCheck
    simp only [evalPattern_lit cfg.fmtFloat s e t ht]
    have hne : t.isEmpty = false := by
      cases t with
      | nil => simp at h
      | cons a as => rfl
    simp only [hne, Bool.false_eq_true, if_false, List.append_nil]
    unfold checkRegex
    rcases h.2 with hl | hg
    · simp [hl, St.err]
    · by_cases hl : t.length > cfg.maxRegexLen
      · simp [hl, St.err]
      · simp only [hl, if_false]
        cases hgr : cfg.groups t with
        | none => simp [St.err]
        | some n => simp [hgr] at hg

mutual
/-- does the tree contain a pattern expression written with literals whose text is over the
    length limit or does not parse? -/
def hasBadRegex (cfg : Cfg) : Node → Bool
  | .decodecl _ block _ => hasBadRegex cfg block
  | .stmts cs => hasBadRegexList cfg cs
  | .exprs cs => hasBadRegexList cfg cs
  | .cond c t e => hasBadRegex cfg c || hasBadRegex cfg t || hasBadRegex cfg e
  | .builtin _ args _ _ => hasBadRegex cfg args
  | .bin _ l r _ => hasBadRegex cfg l || hasBadRegex cfg r
  | .un _ e _ _ => hasBadRegex cfg e
  | .idx lhs index _ => hasBadRegex cfg index || hasBadRegex cfg lhs
  | .patexpr e _ => badLit cfg e || hasBadRegex cfg e
  | .const (.id _ _ _) e _ => hasBadRegex cfg e
  | .deco _ block _ => hasBadRegex cfg block
  | .del n _ _ => hasBadRegex cfg n
  | .conv n _ => hasBadRegex cfg n
  | _ => false
def hasBadRegexList (cfg : Cfg) : Nodes → Bool
  | .nil => false
  | .cons n ns => hasBadRegex cfg n || hasBadRegexList cfg ns
end

mutual
/-- **an over-long or unparseable regular expression is rejected, wherever it stands** -/
theorem badRegex_fires (cfg : Cfg) : ∀ (n : Node), hasBadRegex cfg n = true → FiresA (walk cfg n)
  | .stmts cs, h => by
    have : walk cfg (.stmts cs) = guarded cfg (.stmts cs) (fun s => leave (walkList cfg cs (push s)) fun s => pop (sweep s)) := by
      funext s; rw [walk]
    rw [this]
    simp only [hasBadRegex] at h
    exact firesA_guarded cfg _ (firesA_leave_before
      (then_firesA (tr_push []) (badRegexList_fires cfg cs h) (walkList_tr cfg cs).mono) (Tr.comp tr_sweep tr_pop).mono)
  | .exprs cs, h => by
    have : walk cfg (.exprs cs) = guarded cfg (.exprs cs) (fun s => leave (walkList cfg cs s) id) := by
      funext s; rw [walk]
    rw [this]
    simp only [hasBadRegex] at h
    exact firesA_guarded cfg _ (firesA_leave_before (badRegexList_fires cfg cs h) ext_id)
  | .cond c t e, h => by
    have : walk cfg (.cond c t e) = guarded cfg (.cond c t e)
        (fun s => leave (walk cfg e (walk cfg t (walk cfg c (push s)))) fun s => pop (sweep s)) := by
      funext s; rw [walk]
    rw [this]
    simp only [hasBadRegex, Bool.or_eq_true] at h
    refine firesA_guarded cfg _ (firesA_leave_before ?_ (Tr.comp tr_sweep tr_pop).mono)
    rcases h with (h | h) | h
    · exact firesA_then (f := fun s => walk cfg t (walk cfg c (push s)))
        (firesA_then (f := fun s => walk cfg c (push s)) (then_firesA (tr_push []) (badRegex_fires cfg c h) (walk_tr cfg c).mono)
          (walk_tr cfg t).mono) (walk_tr cfg e).mono
    · exact firesA_then (f := fun s => walk cfg t (walk cfg c (push s)))
        (then_firesA (f := fun s => walk cfg c (push s)) (Tr.comp (tr_push []) (walk_tr cfg c)) (badRegex_fires cfg t h)
          (walk_tr cfg t).mono) (walk_tr cfg e).mono
    · exact then_firesA (f := fun s => walk cfg t (walk cfg c (push s)))
        (Tr.comp (Tr.comp (tr_push []) (walk_tr cfg c)) (walk_tr cfg t)) (badRegex_fires cfg e h) (walk_tr cfg e).mono
  | .builtin name args p ty, h => by
    have : walk cfg (.builtin name args p ty) = guarded cfg (.builtin name args p ty)
        (fun s => leave (walk cfg args (substK name true s)) (substK name false)) := by funext s; rw [walk]
    rw [this]
    simp only [hasBadRegex] at h
    exact firesA_guarded cfg _ (firesA_leave_before
      (then_firesA (tr_substK name true) (badRegex_fires cfg args h) (walk_tr cfg args).mono) (tr_substK name false).mono)
  | .bin op l r ty, h => by
    have : walk cfg (.bin op l r ty) = guarded cfg (.bin op l r ty)
        (fun s => leave (walk cfg r (walk cfg l s)) (matchK cfg op r)) := by funext s; rw [walk]
    rw [this]
    simp only [hasBadRegex, Bool.or_eq_true] at h
    refine firesA_guarded cfg _ (firesA_leave_before ?_ (tr_matchK cfg op r).mono)
    rcases h with h | h
    · exact firesA_then (badRegex_fires cfg l h) (walk_tr cfg r).mono
    · exact then_firesA (walk_tr cfg l) (badRegex_fires cfg r h) (walk_tr cfg r).mono
  | .un op e p ty, h => by
    have : walk cfg (.un op e p ty) = guarded cfg (.un op e p ty) (fun s => leave (walk cfg e s) id) := by
      funext s; rw [walk]
    rw [this]
    simp only [hasBadRegex] at h
    exact firesA_guarded cfg _ (firesA_leave_before (badRegex_fires cfg e h) ext_id)
  | .idx lhs index ty, h => by
    have : walk cfg (.idx lhs index ty) = guarded cfg (.idx lhs index ty)
        (fun s => leave (walk cfg lhs (walk cfg index s)) (idxK cfg lhs)) := by funext s; rw [walk]
    rw [this]
    simp only [hasBadRegex, Bool.or_eq_true] at h
    refine firesA_guarded cfg _ (firesA_leave_before ?_ (tr_idxK cfg lhs).mono)
    rcases h with h | h
    · exact firesA_then (badRegex_fires cfg index h) (walk_tr cfg lhs).mono
    · exact then_firesA (walk_tr cfg index) (badRegex_fires cfg lhs h) (walk_tr cfg lhs).mono
  | .patexpr e pt, h => by
    have : walk cfg (.patexpr e pt) = guarded cfg (.patexpr e pt) (fun s => leave (walk cfg e s) (evalCheck cfg e (posOf e))) := by
      funext s; rw [walk]
    rw [this]
    simp only [hasBadRegex, Bool.or_eq_true] at h
    rcases h with h | h
    · exact firesA_guarded cfg _ (firesA_leave_after (walk_tr cfg e) (firesA_evalCheck cfg e _ h) (ext_evalCheck cfg e _))
    · exact firesA_guarded cfg _ (firesA_leave_before (badRegex_fires cfg e h) (ext_evalCheck cfg e _))
  | .const (.id name p ty) e pt, h => by
    have : walk cfg (.const (.id name p ty) e pt) = guarded cfg (.const (.id name p ty) e pt)
        (constK cfg (.id name p ty) e (walk cfg e)) := by funext s; rw [walk]
    rw [this]
    simp only [hasBadRegex] at h
    refine firesA_guarded cfg _ ?_
    unfold constK
    exact firesA_declare _ _ _ _ _ (fun sy => firesA_leave_before (badRegex_fires cfg e h) (ext_recordPattern cfg sy e))
  | .deco name block p, h => by
    have : walk cfg (.deco name block p) = guarded cfg (.deco name block p)
        (decoK name (merge (some p) (posOf block)) (walk cfg block)) := by funext s; rw [walk]
    rw [this]
    simp only [hasBadRegex] at h
    exact firesA_guarded cfg _ (firesA_decoK name _ (badRegex_fires cfg block h))
  | .del n ex p, h => by
    have : walk cfg (.del n ex p) = guarded cfg (.del n ex p) (fun s => leave (walk cfg n s) id) := by
      funext s; rw [walk]
    rw [this]
    simp only [hasBadRegex] at h
    exact firesA_guarded cfg _ (firesA_leave_before (badRegex_fires cfg n h) ext_id)
  | .conv n ty, h => by
    have : walk cfg (.conv n ty) = guarded cfg (.conv n ty) (fun s => leave (walk cfg n s) id) := by
      funext s; rw [walk]
    rw [this]
    simp only [hasBadRegex] at h
    exact firesA_guarded cfg _ (firesA_leave_before (badRegex_fires cfg n h) ext_id)
  | .next _, h => by simp [hasBadRegex] at h
  | .nil, h => by simp [hasBadRegex] at h
  | .error _ _, h => by simp [hasBadRegex] at h
  | .id _ _ _, h => by simp [hasBadRegex] at h
  | .cap _ _ _ _, h => by simp [hasBadRegex] at h
  | .decl _ _, h => by simp [hasBadRegex] at h
  | .str _ _, h => by simp [hasBadRegex] at h
  | .int _ _, h => by simp [hasBadRegex] at h
  | .float _ _, h => by simp [hasBadRegex] at h
  | .patlit _ _, h => by simp [hasBadRegex] at h
  | .decodecl name block p, h => by
    have : walk cfg (.decodecl name block p) = guarded cfg (.decodecl name block p)
        (declare name .deco (some p) .redeclDeco (merge (some p) (posOf block)) fun sy s =>
          leave (walk cfg block (openDecoScope s)) (closeDeco sy (merge (some p) (posOf block)))) := by
      funext s; rw [walk]
    rw [this]
    simp only [hasBadRegex] at h
    refine firesA_guarded cfg _ (firesA_declare _ _ _ _ _ (fun sy => ?_))
    intro s h1
    have := badRegex_fires cfg block h (openDecoScope s) h1
    have hl := ext_len (ext_leave (s := walk cfg block (openDecoScope s)) (ext_closeDeco sy (merge (some p) (posOf block))))
    have e0 : (openDecoScope s).errors.length = s.errors.length := rfl
    show s.errors.length < (leave (walk cfg block (openDecoScope s)) (closeDeco sy (merge (some p) (posOf block)))).errors.length
    omega
  | .otherwise _, h => by simp [hasBadRegex] at h
  | .stop _, h => by simp [hasBadRegex] at h
  | .const .nil _ _, h => by simp [hasBadRegex] at h
  | .const (.stmts _) _ _, h => by simp [hasBadRegex] at h
  | .const (.exprs _) _ _, h => by simp [hasBadRegex] at h
  | .const (.cond _ _ _) _ _, h => by simp [hasBadRegex] at h
  | .const (.cap _ _ _ _) _ _, h => by simp [hasBadRegex] at h
  | .const (.builtin _ _ _ _) _ _, h => by simp [hasBadRegex] at h
  | .const (.bin _ _ _ _) _ _, h => by simp [hasBadRegex] at h
  | .const (.un _ _ _ _) _ _, h => by simp [hasBadRegex] at h
  | .const (.idx _ _ _) _ _, h => by simp [hasBadRegex] at h
  | .const (.decl _ _) _ _, h => by simp [hasBadRegex] at h
  | .const (.str _ _) _ _, h => by simp [hasBadRegex] at h
  | .const (.int _ _) _ _, h => by simp [hasBadRegex] at h
  | .const (.float _ _) _ _, h => by simp [hasBadRegex] at h
  | .const (.patexpr _ _) _ _, h => by simp [hasBadRegex] at h
  | .const (.patlit _ _) _ _, h => by simp [hasBadRegex] at h
  | .const (.const _ _ _) _ _, h => by simp [hasBadRegex] at h
  | .const (.decodecl _ _ _) _ _, h => by simp [hasBadRegex] at h
  | .const (.deco _ _ _) _ _, h => by simp [hasBadRegex] at h
  | .const (.next _) _ _, h => by simp [hasBadRegex] at h
  | .const (.otherwise _) _ _, h => by simp [hasBadRegex] at h
  | .const (.stop _) _ _, h => by simp [hasBadRegex] at h
  | .const (.del _ _ _) _ _, h => by simp [hasBadRegex] at h
  | .const (.conv _ _) _ _, h => by simp [hasBadRegex] at h
  | .const (.error _ _) _ _, h => by simp [hasBadRegex] at h
theorem badRegexList_fires (cfg : Cfg) : ∀ (ns : Nodes), hasBadRegexList cfg ns = true → FiresA (walkList cfg ns)
  | .nil, h => by simp [hasBadRegexList] at h
  | .cons n ns, h => by
    have : walkList cfg (.cons n ns) = fun s => walkList cfg ns (walk cfg n s) := by funext s; rw [walkList]
    rw [this]
    simp only [hasBadRegexList, Bool.or_eq_true] at h
    rcases h with h | h
    · exact firesA_then (badRegex_fires cfg n h) (walkList_tr cfg ns).mono
    · exact then_firesA (walk_tr cfg n) (badRegexList_fires cfg ns h) (walkList_tr cfg ns).mono
end


end MtailVerif.Scope
