import MtailVerif.Model.VM
/-! The strptime memo is a transparent cache: as long as every entry is what `time.Parse` returns for
    its (layout, value) key, the result of a line does not depend on what the memo holds. -/
namespace MtailVerif.VM
open MtailVerif

/-- every memo entry is what the library returns for its key -/
def Coherent (o : Oracle) (memo : Memo) : Prop :=
  ∀ k v, (k, v) ∈ memo → o.timeParse k.1 k.2 = some v

theorem coherent_nil (o : Oracle) : Coherent o [] := by
  intro k v h; simp at h

theorem memoGet_mem {k : Bytes × Bytes} {memo : Memo} {v : T} (h : memoGet k memo = some v) : (k, v) ∈ memo := by
  induction memo with
  | nil => simp [memoGet] at h
  | cons x xs ih =>
    obtain ⟨k', v'⟩ := x
    simp only [memoGet] at h
    split at h
    · next hk => cases h; subst hk; exact List.mem_cons_self
    · exact List.mem_cons_of_mem _ (ih h)

theorem memoErase_sub {k : Bytes × Bytes} {memo : Memo} {x : (Bytes × Bytes) × T} (h : x ∈ memoErase k memo) :
    x ∈ memo := by
  induction memo with
  | nil => simp [memoErase] at h
  | cons y ys ih =>
    obtain ⟨k', v'⟩ := y
    simp only [memoErase] at h
    split at h
    · exact List.mem_cons_of_mem _ h
    · rcases List.mem_cons.mp h with h | h
      · exact h ▸ List.mem_cons_self
      · exact List.mem_cons_of_mem _ (ih h)

theorem coherent_touch {o : Oracle} {memo : Memo} {k : Bytes × Bytes} {v : T} (hc : Coherent o memo)
    (hv : o.timeParse k.1 k.2 = some v) : Coherent o (memoTouch k v memo) := by
  intro k' v' h
  simp only [memoTouch, List.mem_cons] at h
  rcases h with h | h
  · cases h; exact hv
  · exact hc k' v' (memoErase_sub h)

theorem coherent_add {o : Oracle} {memo : Memo} {k : Bytes × Bytes} {v : T} (hc : Coherent o memo)
    (hv : o.timeParse k.1 k.2 = some v) : Coherent o (memoAdd k v memo) := by
  intro k' v' h
  exact coherent_touch hc hv k' v' (List.mem_of_mem_take h)

/-- the memo never grows beyond its capacity -/
theorem memoAdd_length (k : Bytes × Bytes) (v : T) (memo : Memo) : (memoAdd k v memo).length ≤ memoCap := by
  simp [memoAdd, List.length_take]; omega

/-- what `Strptime` computes, memo or no memo -/
theorem stepStrptime_coherent (o : Oracle) (t : Thread) (st : MStore) (memo : Memo) (hc : Coherent o memo) :
    (stepStrptime o t st memo).1 = (stepStrptime o t st []).1 ∧ Coherent o (stepStrptime o t st memo).2 := by
  have hwith : ∀ (layout ts : Bytes) (rest' : List Val),
      ((match memoGet (layout, ts) memo with
        | some tm => (Res.next { t with stack := rest', time := tm } st, memoTouch (layout, ts) tm memo)
        | none =>
          match o.timeParse layout ts with
          | some tm => (Res.next { t with stack := rest', time := tm } st, memoAdd (layout, ts) tm memo)
          | none => (Res.err .timeParseFailed st, memo)).1 =
       (match memoGet (layout, ts) ([] : Memo) with
        | some tm => (Res.next { t with stack := rest', time := tm } st, memoTouch (layout, ts) tm [])
        | none =>
          match o.timeParse layout ts with
          | some tm => (Res.next { t with stack := rest', time := tm } st, memoAdd (layout, ts) tm [])
          | none => (Res.err .timeParseFailed st, [])).1) ∧
      Coherent o (match memoGet (layout, ts) memo with
        | some tm => (Res.next { t with stack := rest', time := tm } st, memoTouch (layout, ts) tm memo)
        | none =>
          match o.timeParse layout ts with
          | some tm => (Res.next { t with stack := rest', time := tm } st, memoAdd (layout, ts) tm memo)
          | none => (Res.err .timeParseFailed st, memo)).2 := by
    intro layout ts rest'
    simp only [memoGet]
    cases hg : memoGet (layout, ts) memo with
    | some tm =>
      have hp := hc _ _ (memoGet_mem hg)
      simp only at hp
      exact ⟨by simp [hp], coherent_touch hc hp⟩
    | none =>
      simp only
      cases hp : o.timeParse layout ts with
      | some tm => exact ⟨rfl, coherent_add hc hp⟩
      | none => exact ⟨rfl, hc⟩
  unfold stepStrptime
  cases hpop : popString o st t.dead t.stack with
  | bad f => exact ⟨rfl, hc⟩
  | conv => exact ⟨rfl, hc⟩
  | ok layout rest =>
    simp only
    cases hp2 : popString o st t.dead rest with
    | bad f => exact ⟨rfl, hc⟩
    | conv => exact ⟨rfl, hc⟩
    | ok ts rest' => exact hwith layout ts rest'

theorem step_coherent (o : Oracle) (p : Prog) (inp : Input) (i : Instr) (t : Thread) (st : MStore)
    (m1 m2 : Memo) (h1 : Coherent o m1) (h2 : Coherent o m2) :
    (step o p inp i t st m1).1 = (step o p inp i t st m2).1 ∧
    Coherent o (step o p inp i t st m1).2 ∧ Coherent o (step o p inp i t st m2).2 := by
  unfold step
  split
  · obtain ⟨a1, b1⟩ := stepStrptime_coherent o { t with pc := t.pc + 1 } st m1 h1
    obtain ⟨a2, b2⟩ := stepStrptime_coherent o { t with pc := t.pc + 1 } st m2 h2
    exact ⟨by rw [a1, a2], b1, b2⟩
  · exact ⟨rfl, h1, h2⟩

/-- the loop: outcome and store are the same under any two coherent memos -/
theorem run_coherent (o : Oracle) (p : Prog) (inp : Input) :
    ∀ (fuel : Nat) (t : Thread) (st : MStore) (m1 m2 : Memo), Coherent o m1 → Coherent o m2 →
      (run o p inp fuel t st m1).out = (run o p inp fuel t st m2).out ∧
      (run o p inp fuel t st m1).store = (run o p inp fuel t st m2).store ∧
      Coherent o (run o p inp fuel t st m1).memo ∧ Coherent o (run o p inp fuel t st m2).memo := by
  intro fuel
  induction fuel with
  | zero => intro t st m1 m2 h1 h2; exact ⟨rfl, rfl, h1, h2⟩
  | succ fuel ih =>
    intro t st m1 m2 h1 h2
    simp only [run]
    cases hi : p.code[t.pc]? with
    | none => exact ⟨rfl, rfl, h1, h2⟩
    | some i =>
      simp only
      obtain ⟨e, c1, c2⟩ := step_coherent o p inp i t st m1 m2 h1 h2
      cases hs1 : step o p inp i t st m1 with
      | mk r1 m1' =>
        cases hs2 : step o p inp i t st m2 with
        | mk r2 m2' =>
          rw [hs1, hs2] at e
          rw [hs1] at c1
          rw [hs2] at c2
          simp only at e c1 c2
          subst e
          cases r1 with
          | next t' st' => exact ih t' st' m1' m2' c1 c2
          | stop st' => exact ⟨rfl, rfl, c1, c2⟩
          | err e st' => exact ⟨rfl, rfl, c1, c2⟩
          | fault f st' => exact ⟨rfl, rfl, c1, c2⟩

end MtailVerif.VM
