import MtailVerif.Proofs.IRExpr
/-! Statements: conditionals, else, otherwise and the matched register. -/
namespace MtailVerif.IR
open MtailVerif MtailVerif.VM

variable {o : Oracle} {p : Prog} {inp : Input}

/-- as `Sim`, for statements; `P` relates the resulting flag and VM thread -/
def SimS (o : Oracle) (p : Prog) (inp : Input) (tv : Thread) (c : Cfg) (len : Nat) (P : Bool → Thread → Prop) : SR → Prop
  | .ok c' flag' => ∃ tv', Steps o p inp ⟨tv, c.st, c.memo⟩ ⟨tv', c'.st, c'.memo⟩ ∧ norm tv' = c'.t ∧
      tv'.pc = tv.pc + len ∧ P flag' tv'
  | .halt out st memo => Halts o p inp ⟨tv, c.st, c.memo⟩ out st memo

theorem SimS.of_steps {tv tv1 : Thread} {c c1 : Cfg} {len m : Nat} {P : Bool → Thread → Prop} {r : SR}
    (hs : Steps o p inp ⟨tv, c.st, c.memo⟩ ⟨tv1, c1.st, c1.memo⟩) (h : SimS o p inp tv1 c1 m P r)
    (hpc : tv1.pc + m = tv.pc + len) : SimS o p inp tv c len P r := by
  cases r with
  | halt out st memo => exact Halts.prepend hs h
  | ok c' fl =>
    obtain ⟨tv', hs2, hn, hpc2, hP⟩ := h
    exact ⟨tv', hs.trans hs2, hn, by omega, hP⟩

theorem SimS.weaken {tv : Thread} {c : Cfg} {len : Nat} {P Q : Bool → Thread → Prop} {r : SR}
    (h : SimS o p inp tv c len P r) (hPQ : ∀ f t, P f t → Q f t) : SimS o p inp tv c len Q r := by
  cases r with
  | halt out st memo => exact h
  | ok c' fl =>
    obtain ⟨tv', hs2, hn, hpc2, hP⟩ := h
    exact ⟨tv', hs2, hn, hpc2, hPQ _ _ hP⟩

/-- after the condition's code: the `jnm` that skips the block -/
theorem sim_condSkips {tv : Thread} {c : Cfg} {lc len : Nat} {r : R} {k : Bool → Cfg → SR} {P : Bool → Thread → Prop}
    (tgt : Nat)
    (h1 : Sim o p inp tv c lc r)
    (gj : p.code[tv.pc + lc]? = some (iJnm tgt))
    (hk : ∀ (c0 : Cfg) (tv0 : Thread) (v : Val) (rest : List Val), norm tv0 = c0.t → tv0.pc = tv.pc + lc →
      tv0.matched = tv.matched → tv0.stack = v :: rest →
      SimS o p inp { tv0 with pc := if taken false v then tgt else tv0.pc + 1, stack := rest }
        ⟨{ c0.t with stack := rest }, c0.st, c0.memo⟩
        (tv.pc + len - (if taken false v then tgt else tv0.pc + 1)) P
        (k (taken false v) ⟨{ c0.t with stack := rest }, c0.st, c0.memo⟩))
    (hle : ∀ v : Val, (if taken false v then tgt else tv.pc + lc + 1) ≤ tv.pc + len) :
    SimS o p inp tv c len P (condSkips r k) := by
  cases r with
  | halt out st memo => exact h1
  | ok c0 =>
    obtain ⟨tv0, hs, hn0, hpc0, hm0⟩ := h1
    have hstk : tv0.stack = c0.t.stack := by rw [← hn0]; rfl
    have gj0 : p.code[tv0.pc]? = some (J false tgt) := by rw [hpc0]; simpa [J] using gj
    simp only [condSkips]
    cases hs0 : c0.t.stack with
    | nil =>
      simp only
      rw [hs0] at hstk
      exact Halts.prepend hs (Halts.fault (c := ⟨tv0, c0.st, c0.memo⟩) gj0 (step_jump_empty false _ tv0 c0.st c0.memo hstk))
    | cons v rest =>
      simp only
      rw [hs0] at hstk
      have j := step_jump (o := o) (p := p) (inp := inp) false tgt tv0 c0.st c0.memo v rest hstk
      have one : Steps o p inp ⟨tv0, c0.st, c0.memo⟩
          ⟨{ tv0 with pc := if taken false v then tgt else tv0.pc + 1, stack := rest }, c0.st, c0.memo⟩ :=
        .cons (c := ⟨tv0, c0.st, c0.memo⟩) gj0 j (.refl _)
      have hk' := hk c0 tv0 v rest hn0 hpc0 hm0 hstk
      have := hle v
      refine SimS.of_steps (c1 := ⟨{ c0.t with stack := rest }, c0.st, c0.memo⟩) (hs.trans one) hk' ?_
      simp only
      rw [hpc0]
      split <;> simp_all <;> omega


/-- `setmatched false; block; setmatched true` -/
theorem sim_truth {tv1 : Thread} {c1 : Cfg} {lt : Nat} {r : SR}
    (g0 : p.code[tv1.pc]? = some (iSetm false)) (g1 : p.code[tv1.pc + 1 + lt]? = some (iSetm true))
    (ih : SimS o p inp { tv1 with pc := tv1.pc + 1, matched := false } c1 lt (fun _ _ => True) r) :
    SimS o p inp tv1 c1 (lt + 2) (fun f t' => f = true ∧ t'.matched = true) (r.withFlag true) := by
  have one : Steps o p inp ⟨tv1, c1.st, c1.memo⟩ ⟨{ tv1 with pc := tv1.pc + 1, matched := false }, c1.st, c1.memo⟩ :=
    .cons (c := ⟨tv1, c1.st, c1.memo⟩) g0 (step_setm false _ _ _) (.refl _)
  cases r with
  | halt out st memo => exact Halts.prepend one ih
  | ok c2 f2 =>
    obtain ⟨tv3, hs3, hn3, hpc3, _⟩ := ih
    simp only [SR.withFlag]
    have hpc3' : tv3.pc = tv1.pc + 1 + lt := hpc3
    refine ⟨{ tv3 with pc := tv3.pc + 1, matched := true }, ?_, hn3 ▸ rfl, by simp; omega, rfl, rfl⟩
    refine one.trans (hs3.trans ?_)
    exact .cons (c := ⟨tv3, c2.st, c2.memo⟩) (by rw [hpc3']; exact g1) (step_setm true _ _ _) (.refl _)

def PS (s : S) (tv : Thread) (flag : Bool) : Bool → Thread → Prop :=
  fun flag' tv' => isCondElse s = false → tv.matched = flag → tv'.matched = flag'

mutual
theorem sim_S : ∀ (s : S), okS s = true → ∀ (tv : Thread) (c : Cfg) (flag : Bool),
    CodeAt p.code tv.pc (emitS s tv.pc) → norm tv = c.t → (isOtherwise s = true → tv.matched = flag) →
    SimS o p inp tv c (emitS s tv.pc).length (PS s tv flag) (execS o p inp s c flag)
  | .expr e, hok, tv, c, flag, hc, hn, _ => by
    rw [okS] at hok
    rw [emitS] at hc ⊢
    rw [execS]
    have s1 := sim_E (o := o) (inp := inp) e hok tv c hc hn
    cases hr : evalE o p inp e c with
    | halt out st memo => rw [hr] at s1; exact s1
    | ok c' =>
      rw [hr] at s1
      obtain ⟨tv', hs, hn', hpc', hm'⟩ := s1
      exact ⟨tv', hs, hn', hpc', fun _ h => by rw [hm', h]⟩
  | .cond cnd t, hok, tv, c, flag, hc, hn, _ => by
    simp only [okS, Bool.and_eq_true] at hok
    obtain ⟨hokc, hokt⟩ := hok
    rw [emitS] at hc ⊢
    rw [execS]
    (try simp only at hc ⊢)
    generalize hlc : (emitE cnd tv.pc).length = lc at *
    generalize hlt : (emitSs t (tv.pc + lc + 2)).length = lt at *
    have hcc : CodeAt p.code tv.pc (emitE cnd tv.pc) := hc.left.left.left
    have hmid : CodeAt p.code (tv.pc + lc) [iJnm (tv.pc + lc + 2 + lt + 1), iSetm false] := by
      have := hc.left.left.right; rwa [hlc] at this
    have hct : CodeAt p.code (tv.pc + lc + 2) (emitSs t (tv.pc + lc + 2)) := by
      have := hc.left.right
      simp only [List.length_append, hlc, List.length_cons, List.length_nil] at this
      have e : tv.pc + (lc + (0 + 1 + 1)) = tv.pc + lc + 2 := by omega
      rwa [e] at this
    have hend : CodeAt p.code (tv.pc + lc + 2 + lt) [iSetm true] := by
      have := hc.right
      simp only [List.length_append, hlc, hlt, List.length_cons, List.length_nil] at this
      have e : tv.pc + (lc + (0 + 1 + 1) + lt) = tv.pc + lc + 2 + lt := by omega
      rwa [e] at this
    have gj := hmid.at (k := 0) rfl (q := tv.pc + lc) (by omega)
    have gs := hmid.at (k := 1) rfl (q := tv.pc + lc + 1) (by omega)
    have ge := hend.at (k := 0) rfl (q := tv.pc + lc + 2 + lt) (by omega)
    have hlen : (emitE cnd tv.pc ++ [iJnm (tv.pc + lc + 2 + lt + 1), iSetm false] ++ emitSs t (tv.pc + lc + 2) ++
        [iSetm true]).length = lc + 2 + lt + 1 := by
      simp [hlc, hlt] <;> omega
    rw [hlen]
    have s1 := sim_E (o := o) (inp := inp) cnd hokc tv c hcc hn
    rw [hlc] at s1
    refine sim_condSkips (tv.pc + lc + 2 + lt + 1) s1 gj ?_ (fun v => by split <;> omega)
    intro c0 tv0 v rest hn0 hpc0 hm0 hstk
    by_cases htk : taken false v = true
    · simp only [htk, if_true]
      refine ⟨_, .refl _, by rw [← hn0]; rfl, by simp; omega, fun _ h => ?_⟩
      show tv0.matched = flag
      rw [hm0, h]
    · have htk' : taken false v = false := by simpa using htk
      simp only [htk', Bool.false_eq_true, if_false]
      have ih := sim_Ss t hokt { tv0 with pc := tv0.pc + 1 + 1, stack := rest, matched := false }
        ⟨{ c0.t with stack := rest }, c0.st, c0.memo⟩ false
        (by show CodeAt p.code (tv0.pc + 1 + 1) (emitSs t (tv0.pc + 1 + 1))
            have e : tv0.pc + 1 + 1 = tv.pc + lc + 2 := by omega
            rw [e]; exact hct)
        (by rw [← hn0]; rfl) (fun _ => rfl)
      have e1 : (emitSs t ({ tv0 with pc := tv0.pc + 1 + 1, stack := rest, matched := false } : Thread).pc).length = lt := by
        show (emitSs t (tv0.pc + 1 + 1)).length = lt
        have e : tv0.pc + 1 + 1 = tv.pc + lc + 2 := by omega
        rw [e]; exact hlt
      rw [e1] at ih
      have tr := sim_truth (o := o) (inp := inp) (tv1 := { tv0 with pc := tv0.pc + 1, stack := rest })
        (c1 := ⟨{ c0.t with stack := rest }, c0.st, c0.memo⟩) (lt := lt)
        (by show p.code[tv0.pc + 1]? = _; rw [hpc0]; exact gs)
        (by show p.code[tv0.pc + 1 + 1 + lt]? = _
            have e : tv0.pc + 1 + 1 + lt = tv.pc + lc + 2 + lt := by omega
            rw [e]; exact ge)
        ih
      have e2 : tv.pc + (lc + 2 + lt + 1) - (tv0.pc + 1) = lt + 2 := by omega
      rw [e2]
      exact tr.weaken (fun f t' h _ _ => by rw [h.1, h.2])
  | .condElse cnd t e, hok, tv, c, flag, hc, hn, _ => by
    simp only [okS, Bool.and_eq_true, Bool.not_eq_true'] at hok
    obtain ⟨⟨⟨hokc, hokt⟩, hoke⟩, hnoe⟩ := hok
    rw [emitS] at hc ⊢
    rw [execS]
    (try simp only at hc ⊢)
    generalize hlc : (emitE cnd tv.pc).length = lc at *
    generalize hlt : (emitSs t (tv.pc + lc + 2)).length = lt at *
    generalize hle : (emitSs e (tv.pc + lc + 2 + lt + 2)).length = le at *
    have hcc : CodeAt p.code tv.pc (emitE cnd tv.pc) := hc.left.left.left.left
    have hmid : CodeAt p.code (tv.pc + lc) [iJnm (tv.pc + lc + 2 + lt + 2), iSetm false] := by
      have := hc.left.left.left.right; rwa [hlc] at this
    have hct : CodeAt p.code (tv.pc + lc + 2) (emitSs t (tv.pc + lc + 2)) := by
      have := hc.left.left.right
      simp only [List.length_append, hlc, List.length_cons, List.length_nil] at this
      have e' : tv.pc + (lc + (0 + 1 + 1)) = tv.pc + lc + 2 := by omega
      rwa [e'] at this
    have hend : CodeAt p.code (tv.pc + lc + 2 + lt) [iSetm true, iJmp (tv.pc + lc + 2 + lt + 2 + le)] := by
      have := hc.left.right
      simp only [List.length_append, hlc, hlt, List.length_cons, List.length_nil] at this
      have e' : tv.pc + (lc + (0 + 1 + 1) + lt) = tv.pc + lc + 2 + lt := by omega
      rwa [e'] at this
    have hce : CodeAt p.code (tv.pc + lc + 2 + lt + 2) (emitSs e (tv.pc + lc + 2 + lt + 2)) := by
      have := hc.right
      simp only [List.length_append, hlc, hlt, List.length_cons, List.length_nil] at this
      have e' : tv.pc + (lc + (0 + 1 + 1) + lt + (0 + 1 + 1)) = tv.pc + lc + 2 + lt + 2 := by omega
      rwa [e'] at this
    have gj := hmid.at (k := 0) rfl (q := tv.pc + lc) (by omega)
    have gs := hmid.at (k := 1) rfl (q := tv.pc + lc + 1) (by omega)
    have ge := hend.at (k := 0) rfl (q := tv.pc + lc + 2 + lt) (by omega)
    have gm := hend.at (k := 1) rfl (q := tv.pc + lc + 2 + lt + 1) (by omega)
    have hlen : (emitE cnd tv.pc ++ [iJnm (tv.pc + lc + 2 + lt + 2), iSetm false] ++ emitSs t (tv.pc + lc + 2) ++
        [iSetm true, iJmp (tv.pc + lc + 2 + lt + 2 + le)] ++ emitSs e (tv.pc + lc + 2 + lt + 2)).length =
        lc + 2 + lt + 2 + le := by
      simp [hlc, hlt, hle] <;> omega
    rw [hlen]
    have s1 := sim_E (o := o) (inp := inp) cnd hokc tv c hcc hn
    rw [hlc] at s1
    refine sim_condSkips (tv.pc + lc + 2 + lt + 2) s1 gj ?_ (fun v => by split <;> omega)
    intro c0 tv0 v rest hn0 hpc0 hm0 hstk
    by_cases htk : taken false v = true
    · simp only [htk, if_true]
      have ih := sim_Ss e hoke { tv0 with pc := tv.pc + lc + 2 + lt + 2, stack := rest }
        ⟨{ c0.t with stack := rest }, c0.st, c0.memo⟩ false hce (by rw [← hn0]; rfl)
        (fun h => by rw [hnoe] at h; exact absurd h (by simp))
      have e1 : (emitSs e ({ tv0 with pc := tv.pc + lc + 2 + lt + 2, stack := rest } : Thread).pc).length = le := hle
      rw [e1] at ih
      have e2 : tv.pc + (lc + 2 + lt + 2 + le) - (tv.pc + lc + 2 + lt + 2) = le := by omega
      rw [e2]
      cases hr : execSs o p inp e ⟨{ c0.t with stack := rest }, c0.st, c0.memo⟩ false with
      | halt out st memo => rw [hr] at ih; exact ih
      | ok c2 f2 =>
        rw [hr] at ih
        obtain ⟨tv', hs, hn', hpc', _⟩ := ih
        exact ⟨tv', hs, hn', hpc', fun h => by simp [isCondElse] at h⟩
    · have htk' : taken false v = false := by simpa using htk
      simp only [htk', Bool.false_eq_true, if_false]
      have ih := sim_Ss t hokt { tv0 with pc := tv0.pc + 1 + 1, stack := rest, matched := false }
        ⟨{ c0.t with stack := rest }, c0.st, c0.memo⟩ false
        (by show CodeAt p.code (tv0.pc + 1 + 1) (emitSs t (tv0.pc + 1 + 1))
            have e : tv0.pc + 1 + 1 = tv.pc + lc + 2 := by omega
            rw [e]; exact hct)
        (by rw [← hn0]; rfl) (fun _ => rfl)
      have e1 : (emitSs t ({ tv0 with pc := tv0.pc + 1 + 1, stack := rest, matched := false } : Thread).pc).length = lt := by
        show (emitSs t (tv0.pc + 1 + 1)).length = lt
        have e : tv0.pc + 1 + 1 = tv.pc + lc + 2 := by omega
        rw [e]; exact hlt
      rw [e1] at ih
      have tr := sim_truth (o := o) (inp := inp) (tv1 := { tv0 with pc := tv0.pc + 1, stack := rest })
        (c1 := ⟨{ c0.t with stack := rest }, c0.st, c0.memo⟩) (lt := lt)
        (by show p.code[tv0.pc + 1]? = _; rw [hpc0]; exact gs)
        (by show p.code[tv0.pc + 1 + 1 + lt]? = _
            have e : tv0.pc + 1 + 1 + lt = tv.pc + lc + 2 + lt := by omega
            rw [e]; exact ge)
        ih
      have e2 : tv.pc + (lc + 2 + lt + 2 + le) - (tv0.pc + 1) = lt + 2 + (1 + le) := by omega
      rw [e2]
      -- after the block: the jump over the else part
      cases hr : (execSs o p inp t ⟨{ c0.t with stack := rest }, c0.st, c0.memo⟩ false).withFlag true with
      | halt out st memo => rw [hr] at tr; exact tr
      | ok c2 f2 =>
        rw [hr] at tr
        obtain ⟨tv', hs, hn', hpc', hP⟩ := tr
        have hpc'' : tv'.pc = tv.pc + lc + 2 + lt + 1 := by
          have : ({ tv0 with pc := tv0.pc + 1, stack := rest } : Thread).pc = tv0.pc + 1 := rfl
          rw [this] at hpc'; omega
        refine ⟨{ tv' with pc := tv.pc + lc + 2 + lt + 2 + le }, ?_, hn' ▸ rfl, ?_, fun h => by simp [isCondElse] at h⟩
        · refine hs.trans ?_
          exact .cons (c := ⟨tv', c2.st, c2.memo⟩) (by rw [hpc'']; exact gm) (step_jmp _ _ _ _) (.refl _)
        · show tv.pc + lc + 2 + lt + 2 + le = tv0.pc + 1 + (lt + 2 + (1 + le))
          omega
  | .otherwise t, hok, tv, c, flag, hc, hn, hm => by
    rw [okS] at hok
    have hmf : tv.matched = flag := hm rfl
    rw [emitS] at hc ⊢
    rw [execS]
    (try simp only at hc ⊢)
    generalize hlt : (emitSs t (tv.pc + 3)).length = lt at *
    have hhead : CodeAt p.code tv.pc [iOtherwise, iJnm (tv.pc + 3 + lt + 1), iSetm false] := hc.left.left
    have hct : CodeAt p.code (tv.pc + 3) (emitSs t (tv.pc + 3)) := by
      have := hc.left.right; simpa using this
    have hend : CodeAt p.code (tv.pc + 3 + lt) [iSetm true] := by
      have := hc.right
      simp only [List.length_append, hlt, List.length_cons, List.length_nil] at this
      have e' : tv.pc + (0 + 1 + 1 + 1 + lt) = tv.pc + 3 + lt := by omega
      rwa [e'] at this
    have g0 := hhead.at (k := 0) rfl (q := tv.pc) (by omega)
    have g1 := hhead.at (k := 1) rfl (q := tv.pc + 1) (by omega)
    have g2 := hhead.at (k := 2) rfl (q := tv.pc + 2) (by omega)
    have ge := hend.at (k := 0) rfl (q := tv.pc + 3 + lt) (by omega)
    have hlen : ([iOtherwise, iJnm (tv.pc + 3 + lt + 1), iSetm false] ++ emitSs t (tv.pc + 3) ++ [iSetm true]).length =
        lt + 4 := by
      simp [hlt] <;> omega
    rw [hlen]
    have s0 : Steps o p inp ⟨tv, c.st, c.memo⟩
        ⟨{ tv with pc := tv.pc + 1, stack := .bool (!tv.matched) :: tv.stack }, c.st, c.memo⟩ :=
      .cons (c := ⟨tv, c.st, c.memo⟩) g0 (step_otherwise _ _ _) (.refl _)
    have j := step_jump (o := o) (p := p) (inp := inp) false (tv.pc + 3 + lt + 1)
      { tv with pc := tv.pc + 1, stack := .bool (!tv.matched) :: tv.stack } c.st c.memo (.bool (!tv.matched)) tv.stack rfl
    have g1' : p.code[({ tv with pc := tv.pc + 1, stack := .bool (!tv.matched) :: tv.stack } : Thread).pc]? =
        some (J false (tv.pc + 3 + lt + 1)) := by simpa [J] using g1
    have s1 := s0.trans (.cons (c := ⟨{ tv with pc := tv.pc + 1, stack := .bool (!tv.matched) :: tv.stack }, c.st, c.memo⟩)
      g1' j (.refl _))
    cases hfl : flag with
    | true =>
      have hmt : tv.matched = true := by rw [hmf, hfl]
      simp only [if_true]
      simp only [hmt, taken, Bool.not_true, Bool.not_false, if_true, Bool.false_eq_true, if_false] at s1
      refine ⟨_, s1, ?_, by simp; omega, fun _ _ => ?_⟩
      · rw [← hn]; cases tv; rfl
      · rfl
    | false =>
      have hmt : tv.matched = false := by rw [hmf, hfl]
      simp only [Bool.false_eq_true, if_false]
      simp only [hmt, taken, Bool.not_false, Bool.not_true, Bool.false_eq_true, if_false] at s1
      have ih := sim_Ss t hok { tv with pc := tv.pc + 1 + 1 + 1, matched := false } c false
        (by show CodeAt p.code (tv.pc + 1 + 1 + 1) (emitSs t (tv.pc + 1 + 1 + 1))
            have e : tv.pc + 1 + 1 + 1 = tv.pc + 3 := by omega
            rw [e]; exact hct)
        (by rw [← hn]; rfl) (fun _ => rfl)
      have e1 : (emitSs t ({ tv with pc := tv.pc + 1 + 1 + 1, matched := false } : Thread).pc).length = lt := by
        show (emitSs t (tv.pc + 1 + 1 + 1)).length = lt
        have e : tv.pc + 1 + 1 + 1 = tv.pc + 3 := by omega
        rw [e]; exact hlt
      rw [e1] at ih
      have tr := sim_truth (o := o) (inp := inp) (tv1 := { tv with pc := tv.pc + 1 + 1 })
        (c1 := c) (lt := lt)
        (by show p.code[tv.pc + 1 + 1]? = _; exact g2)
        (by show p.code[tv.pc + 1 + 1 + 1 + lt]? = _
            have e : tv.pc + 1 + 1 + 1 + lt = tv.pc + 3 + lt := by omega
            rw [e]; exact ge)
        (by
          have e : ({ ({ tv with pc := tv.pc + 1 + 1 } : Thread) with pc := ({ tv with pc := tv.pc + 1 + 1 } : Thread).pc + 1, matched := false } : Thread) =
              { tv with pc := tv.pc + 1 + 1 + 1, matched := false } := rfl
          rw [e]; exact ih)
      have s1' : Steps o p inp ⟨tv, c.st, c.memo⟩ ⟨{ tv with pc := tv.pc + 1 + 1 }, c.st, c.memo⟩ := by
        have e : ({ tv with pc := tv.pc + 1 + 1 } : Thread) =
            ⟨tv.pc + 1 + 1, false, tv.caps, tv.time, tv.stack, tv.dead⟩ := by
          cases tv; simp only at hmt; subst hmt; rfl
        rw [e]; exact s1
      refine SimS.of_steps (c1 := c) s1' (tr.weaken (fun f t' h _ _ => by rw [h.1, h.2])) ?_
      show tv.pc + 1 + 1 + (lt + 2) = tv.pc + (lt + 4)
      omega
theorem sim_Ss : ∀ (ss : Ss), okSs ss = true → ∀ (tv : Thread) (c : Cfg) (flag : Bool),
    CodeAt p.code tv.pc (emitSs ss tv.pc) → norm tv = c.t → (hasOtherwiseTop ss = true → tv.matched = flag) →
    SimS o p inp tv c (emitSs ss tv.pc).length (fun _ _ => True) (execSs o p inp ss c flag)
  | .nil, _, tv, c, flag, _, hn, _ => by
    rw [emitSs, execSs]
    exact ⟨tv, .refl _, hn, by simp, trivial⟩
  | .cons s ss, hok, tv, c, flag, hc, hn, hm => by
    simp only [okSs, Bool.and_eq_true, Bool.not_eq_true', Bool.and_eq_false_iff] at hok
    obtain ⟨⟨hoks, hokss⟩, hex⟩ := hok
    rw [emitSs] at hc ⊢
    rw [execSs]
    (try simp only at hc ⊢)
    rw [List.length_append]
    have hms : isOtherwise s = true → tv.matched = flag := fun h => hm (by simp [hasOtherwiseTop, h])
    have ihs := sim_S s hoks tv c flag hc.left hn hms
    cases hr : execS o p inp s c flag with
    | halt out st memo => rw [hr] at ihs; exact ihs
    | ok c' flag' =>
      rw [hr] at ihs
      obtain ⟨tv', hs, hn', hpc', hP⟩ := ihs
      simp only [SR.andThen]
      have hm' : hasOtherwiseTop ss = true → tv'.matched = flag' := by
        intro hss
        have hne : isCondElse s = false := by
          rcases hex with h | h
          · exact h
          · rw [hss] at h; exact absurd h (by simp)
        exact hP hne (hm (by simp [hasOtherwiseTop, hss]))
      have ihss := sim_Ss ss hokss tv' c' flag' (by rw [hpc']; exact hc.right) hn' hm'
      rw [hpc'] at ihss
      exact SimS.of_steps (c1 := c') hs ihss (by omega)
end

end MtailVerif.IR
