import MtailVerif.Model.Prom
namespace MtailVerif.Prom
open MtailVerif

theorem collectMetricLoop_eq (cfg : Config) (m : Metric) (l : List LabelSet) :
    collectMetricLoop cfg m l = (l.filter (representable cfg m)).map (sampleOf cfg m) := by
  induction l with
  | nil => rfl
  | cons ls rest ih =>
    simp only [collectMetricLoop, List.filter_cons]
    split <;> simp [ih]

def samplesOfMetric (cfg : Config) (m : Metric) : List Sample :=
  if m.kind = .text then [] else (m.lsets.filter (representable cfg m)).map (sampleOf cfg m)

theorem collect_eq (cfg : Config) (last : Bytes × Bytes) (ms : List Metric) :
    collect cfg last ms = ms.flatMap (samplesOfMetric cfg) := by
  induction ms generalizing last with
  | nil => rfl
  | cons m rest ih =>
    simp only [collect, List.flatMap_cons, ih]
    congr 1
    unfold collectMetric samplesOfMetric
    split <;> simp [collectMetricLoop_eq]

/-! cumulative buckets -/
def sumC (l : List (Buckets.FV × UInt64 × Nat)) : Nat := (l.map (·.2.2)).sum

theorem sumC_cons (p) (l : List (Buckets.FV × UInt64 × Nat)) : sumC (p :: l) = p.2.2 + sumC l := by
  simp [sumC]

theorem ins_mem (p : Buckets.FV × UInt64 × Nat) (l : List (Buckets.FV × UInt64 × Nat)) (k : Buckets.FV) :
    k ∈ (insertByMax p l).map (·.1) ↔ k = p.1 ∨ k ∈ l.map (·.1) := by
  induction l with
  | nil => simp [insertByMax]
  | cons q rest ih =>
    simp only [insertByMax]
    split
    · rename_i a b ha hb
      by_cases hab : a = b
      · simp only [hab, if_true, List.map_cons, List.mem_cons]
        have : q.1 = p.1 := by rw [ha, hb, hab]
        rw [this]; constructor
        · rintro (h | h); exact Or.inl h; exact Or.inr (Or.inr h)
        · rintro (h | h | h); exact Or.inl h; exact Or.inl h; exact Or.inr h
      · simp only [hab, if_false]
        split
        · simp
        · simp only [List.map_cons, List.mem_cons, ih]
          constructor
          · rintro (h | h | h); exact Or.inr (Or.inl h); exact Or.inl h; exact Or.inr (Or.inr h)
          · rintro (h | h | h); exact Or.inr (Or.inl h); exact Or.inl h; exact Or.inr (Or.inr h)
    · simp only [List.map_cons, List.mem_cons, ih]
      constructor
      · rintro (h | h | h); exact Or.inr (Or.inl h); exact Or.inl h; exact Or.inr (Or.inr h)
      · rintro (h | h | h); exact Or.inr (Or.inl h); exact Or.inl h; exact Or.inr (Or.inr h)

theorem ins_sum (p : Buckets.FV × UInt64 × Nat) (l : List (Buckets.FV × UInt64 × Nat))
    (h : p.1 ∉ l.map (·.1)) : sumC (insertByMax p l) = sumC l + p.2.2 := by
  induction l with
  | nil => simp [insertByMax, sumC]
  | cons q rest ih =>
    simp only [List.map_cons, List.mem_cons, not_or] at h
    simp only [insertByMax]
    split
    · rename_i a b ha hb
      have hab : a ≠ b := by
        intro e; apply h.1; rw [ha, hb, e]
      simp only [hab, if_false]
      split
      · simp [sumC_cons]; omega
      · simp only [sumC_cons, ih h.2]; omega
    · simp only [sumC_cons, ih h.2]; omega

theorem fold_sum (bs acc : List (Buckets.FV × UInt64 × Nat))
    (hnd : (bs.map (·.1)).Nodup) (hdis : ∀ k ∈ bs.map (·.1), k ∉ acc.map (·.1)) :
    sumC (bs.foldl (fun acc p => insertByMax p acc) acc) = sumC acc + sumC bs := by
  induction bs generalizing acc with
  | nil => simp [sumC]
  | cons p rest ih =>
    simp only [List.map_cons, List.nodup_cons] at hnd
    simp only [List.foldl_cons]
    rw [ih _ hnd.2]
    · rw [ins_sum p acc (hdis p.1 (by simp)), sumC_cons]; omega
    · intro k hk
      rw [ins_mem]
      rintro (h | h)
      · exact hnd.1 (h ▸ hk)
      · exact hdis k (by simp [hk]) h

theorem cumulate_last (acc : Nat) (l : List (Buckets.FV × UInt64 × Nat)) :
    ∀ x, (cumulate acc l).getLast? = some x → x.2 = acc + sumC l := by
  induction l generalizing acc with
  | nil => simp [cumulate]
  | cons p rest ih =>
    intro x hx
    simp only [cumulate] at hx
    cases hr : cumulate (acc + p.2.2) rest with
    | nil =>
      cases rest with
      | nil => simp [cumulate] at hx; subst hx; simp [sumC]
      | cons q r => simp [cumulate] at hr
    | cons y ys =>
      rw [hr, List.getLast?_cons_cons] at hx
      have := ih (acc + p.2.2) x (by rw [hr]; exact hx)
      rw [this, sumC_cons]; omega

theorem cumulate_ge (acc : Nat) (l : List (Buckets.FV × UInt64 × Nat)) :
    ∀ x ∈ cumulate acc l, acc ≤ x.2 := by
  induction l generalizing acc with
  | nil => simp [cumulate]
  | cons p rest ih =>
    intro x hx
    simp only [cumulate, List.mem_cons] at hx
    rcases hx with rfl | hx
    · simp
    · have := ih _ x hx; omega

theorem cumulate_mono (acc : Nat) (l : List (Buckets.FV × UInt64 × Nat)) :
    (cumulate acc l).Pairwise (fun a b => a.2 ≤ b.2) := by
  induction l generalizing acc with
  | nil => simp [cumulate]
  | cons p rest ih =>
    simp only [cumulate, List.pairwise_cons]
    exact ⟨fun x hx => cumulate_ge _ rest x hx, ih _⟩

end MtailVerif.Prom
