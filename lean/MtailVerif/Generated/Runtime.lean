/-! GENERATED placeholder -/
namespace MtailVerif.Generated.Runtime
def addCopiesExpiry : Bool := false
def registrationErrorCounted : Bool := false
end MtailVerif.Generated.Runtime
