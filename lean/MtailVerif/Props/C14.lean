import MtailVerif.Proofs.Runtime
import MtailVerif.Generated.Runtime
import MtailVerif.Proofs.Skeletons
/-! # C14 — Program reload preserves state and never duplicates series -/
namespace MtailVerif.C14
open MtailVerif MtailVerif.Runtime

/-- Obligations over regenerated facts: `Store.Add` copies the pending expiry into the new label
    value, recognises a re-declared metric by (program, type, source) and then compares keys and bucket
    boundaries (either difference discards the old data), and
    `CompileAndRun` short-circuits on an unchanged content hash. -/
theorem add_source_shape :
    Generated.Runtime.addCopiesExpiry = true ∧
    Generated.Runtime.addSkipConds = ["v.Program != m.Program", "v.Type != m.Type", "v.Source != m.Source"] ∧
    Generated.Runtime.addBreakCond = "len(v.Keys) != len(m.Keys) || !reflect.DeepEqual(v.Keys, m.Keys) ;; !reflect.DeepEqual(v.Buckets, m.Buckets)" ∧
    Generated.Runtime.addKindCond = "m.Kind != t" ∧
    Generated.Runtime.hashShortCircuit = "ok && bytes.Equal(vh.contentHash, contentHash)" := by decide

/-- reloading identical source changes nothing -/
theorem reload_identical_noop (cfg : Cfg) (r : RT) (name : Bytes) (v : Version) (h : Handle)
    (hh : r.handles.find? (·.1 = name) = some (name, h)) (heq : h.hash = v.hash) :
    compileAndRun cfg r name v = r := by
  have : decision cfg r name v = .unchanged := by simp [decision, sameHash, hh, heq]
  simp [compileAndRun, this]

/-- a load that fails to compile leaves the store and the running programs exactly as they were -/
theorem failed_compile_leaves_export (cfg : Cfg) (r : RT) (name : Bytes) (v : Version) (hc : v.compiles = false) :
    (compileAndRun cfg r name v).store = r.store ∧ (compileAndRun cfg r name v).handles = r.handles := by
  unfold compileAndRun
  have : decision cfg r name v = .unchanged ∨ decision cfg r name v = .compileError := by
    unfold decision; split
    · exact Or.inl rfl
    · right; simp [hc]
  rcases this with h | h <;> simp [h]

/-- a load refused by the store keeps the previous version running (only the store may have
    gained the metrics registered before the refusal — the recorded finding) -/
theorem refused_load_keeps_previous (cfg : Cfg) (r : RT) (name : Bytes) (v : Version) (ps : Store)
    (h : decision cfg r name v = .refused ps) : (compileAndRun cfg r name v).handles = r.handles := by
  simp [compileAndRun, h]

/-- a reload that keeps a declaration (same program, type, source, keys, bucket boundaries, kind) keeps that
    metric's accumulated values — and, the expiry being copied, its pending expiry: the new
    metric object replaces the old one and holds exactly the old label values -/
theorem reload_keeps_declaration_keeps_data (s : Store) (m v : SMetric)
    (hs : s.get m.name = [v]) (hfresh : m.lvs = [])
    (hp : v.prog = m.prog) (ht : v.typ = m.typ) (hsrc : v.source = m.source) (hk : v.keys = m.keys)
    (hb : v.buckets = m.buckets) (hkind : v.kind = m.kind) (hnd : (v.lvs.map (·.labels)).Nodup) :
    s.add true m = .ok (s.set m.name [{ m with lvs := v.lvs }]) := by
  unfold Store.add
  rw [hs]
  simp only [hkind, ne_eq, not_true_eq_false, if_false]
  have hscan : addScan true m [v] 0 none = ({ m with lvs := v.lvs }, some 0) := by
    simp only [addScan, hp, ht, hsrc, hk, hb, ne_eq, not_true_eq_false, or_self, if_false]
    rw [copy_fold true m v.lvs hnd (by simp [hfresh])]
    have : v.lvs.map (copied true) = v.lvs := by
      induction v.lvs with
      | nil => rfl
      | cons a as ih => simp [copied, ih]
    simp [hfresh, this]
  rw [hscan]
  simp

/-- the only refusal: a metric of that name exists with another kind -/
theorem refused_iff_kind_conflict (ce : Bool) (s : Store) (m : SMetric) :
    (∃ e, s.add ce m = .error e) ↔ ∃ first rest, s.get m.name = first :: rest ∧ m.kind ≠ first.kind := by
  unfold Store.add
  cases hget : s.get m.name with
  | nil => simp
  | cons first rest =>
    by_cases hk : m.kind = first.kind
    · simp [hk]
    · simp only [ne_eq, hk, not_false_eq_true, if_true]
      exact ⟨fun _ => ⟨first, rest, rfl, hk⟩, fun _ => ⟨.kind, by simp⟩⟩

/-- KNOWN FINDING (declaration moved): the same metric declared at another source position is
    not recognised; the stale and the new metric both stay in the store, so the next scrape sees
    two series with one name and label set -/
theorem moved_declaration_duplicates :
    let old : SMetric := { name := [99], prog := [97], kind := 1, typ := 0, keys := [[107]], source := [49], lvs := [⟨[[120]], 1, 0⟩] }
    let new : SMetric := { old with source := [50], lvs := [] }
    (Store.add true [([99], [old])] new).toOption.map (fun s => (s.get [99]).length) = some 2 := by
  decide

/-- KNOWN FINDING (partial registration): when the k-th metric of a new version is refused, the
    metrics before it are already in the store -/
theorem partial_registration_counterexample :
    let other : SMetric := { name := [99], prog := [98], kind := 1, typ := 0, keys := [], source := [49] }
    let ok : SMetric := { name := [111], prog := [97], kind := 1, typ := 0, keys := [], source := [49] }
    let clash : SMetric := { name := [99], prog := [97], kind := 2, typ := 0, keys := [], source := [50] }
    (registerAll true [([99], [other])] [ok, clash]).toOption = none ∧
    (registerPartial true [([99], [other])] [ok, clash]).length = 2 := by
  decide

/-- a reload that changes a histogram's bucket boundaries (everything else as before) starts the
    histogram afresh: the counts under the old boundaries are not carried into the new metric, and
    the old metric is gone from the store -/
theorem reload_with_other_buckets_starts_afresh (ce : Bool) (s : Store) (m v : SMetric)
    (hs : s.get m.name = [v]) (hp : v.prog = m.prog) (ht : v.typ = m.typ) (hsrc : v.source = m.source)
    (hb : v.buckets ≠ m.buckets) (hkind : v.kind = m.kind) :
    s.add ce m = .ok (s.set m.name [m]) := by
  unfold Store.add
  rw [hs]
  simp only [hkind, ne_eq, not_true_eq_false, if_false]
  have hscan : addScan ce m [v] 0 none = (m, some 0) := by
    simp only [addScan, hp, ht, hsrc, ne_eq, not_true_eq_false, if_false, hb, not_false_eq_true, or_true, if_true]
  rw [hscan]
  simp

/-! ### regenerated control skeletons (written by lib/wire_skeletons.py) -/
/-- Obligations over regenerated facts: the functions this property's model stands for have the
    control skeleton the model was written against (`Proofs/Skeletons.lean`, one `rfl` per function
    or clause; DESIGN.md §11.6a) -/
theorem loader_skeletons : Skeletons.LoaderShape := Skeletons.loader_shape
theorem f_runtime_runtime_skeletons : Skeletons.F_runtime_runtimeShape := Skeletons.f_runtime_runtime_shape
theorem f_metrics_store_skeletons : Skeletons.F_metrics_storeShape := Skeletons.f_metrics_store_shape
theorem f_exporter_prometheus_skeletons : Skeletons.F_exporter_prometheusShape := Skeletons.f_exporter_prometheus_shape

end MtailVerif.C14
