import MtailVerif.Proofs.Lockset
import MtailVerif.Proofs.Skeletons
/-! # C11 — concurrent processing, export, reload and GC are race-free

    Partial by nature.  What is proved: for the access table regenerated from the Go source (every
    read and write of shared metric state reachable from each goroutine root, with the locks
    syntactically held), no two goroutines can be inside conflicting accesses at the same time under
    sync.RWMutex semantics, in any schedule; and atomic read-modify-write increments are never lost.
    What is only explored: Go's real memory model and scheduler (the race detector runs on a
    concurrent workload), and the faithfulness of the syntactic lock tracking. -/
namespace MtailVerif.C11
open MtailVerif.Lockset

/-- the regenerated table satisfies the lockset discipline: every pair of conflicting accesses that
    two goroutines could perform holds a common lock, exclusively on at least one side -/
theorem table_conflict_free : conflictFree table = true := by decide

/-- **no data race in any schedule** of goroutines entering and leaving the table's accesses -/
theorem no_race_in_any_schedule (n : Nat) (xs : List Act) (s : St)
    (h : run (List.replicate n none) xs = some s)
    (i j : Nat) (a b : Acc) (hij : i ≠ j) (hi : s[i]? = some (some a)) (hj : s[j]? = some (some b))
    (ha : a ∈ table) (hb : b ∈ table) (hc : concurrent a b = true) : racePair a b = false := by
  have hex := inv_run (inv_idle n) xs h i j a b hij hi hj
  have hok := List.all_eq_true.mp (List.all_eq_true.mp table_conflict_free a ha) b hb
  simp only [pairOK, hc, hex, Bool.true_and, Bool.or_false, Bool.not_eq_true'] at hok
  exact hok

/-- every access to a datum's value word or timestamp is a sync/atomic operation -/
theorem datum_words_atomic :
    (table.filter fun a => a.loc == 4 || a.loc == 5 || a.loc == 7).all (fun a => a.kind == .a) = true ∧
    Generated.Access.locNames[4]? = some "Int.Value" ∧ Generated.Access.locNames[5]? = some "Float.Value" ∧
    Generated.Access.locNames[7]? = some "Datum.Time" := by decide

/-- the thread roots the table covers -/
theorem roots_covered :
    ((List.range 8).all fun r => table.any (·.root == r)) = true ∧
    Generated.Access.rootNames = ["vm", "gc", "prom", "varz", "graphite", "push", "json", "reload"] := by
  decide

/-! ### increments -/

/-- an atomic add is one indivisible step: whatever order the scheduler picks, the counter ends at
    the initial value plus every delta -/
theorem atomic_increments_not_lost (init : Int) (deltas order : List Int) (h : order.Perm deltas) :
    order.foldl (· + ·) init = init + deltas.sum := by
  have : ∀ (l : List Int) (x : Int), l.foldl (· + ·) x = x + l.sum := by
    intro l
    induction l with
    | nil => intro x; simp
    | cons a l ih => intro x; simp [ih]; omega
  rw [this]
  have hs : order.sum = deltas.sum := by
    induction h with
    | nil => rfl
    | cons x _ ih => simp [ih]
    | swap x y l => simp; omega
    | trans _ _ ih1 ih2 => rw [ih1, ih2]
  rw [hs]

/-- a load followed by a store is two steps, and this interleaving of two increments loses one -/
def lostUpdate : Int :=
  let v1 := (0 : Int)         -- goroutine 1 loads
  let v2 := (0 : Int)         -- goroutine 2 loads
  let _c := v1 + 1            -- goroutine 1 stores
  let c := v2 + 1             -- goroutine 2 stores over it
  c

theorem load_store_loses_an_increment : lostUpdate = 1 ∧ lostUpdate ≠ 0 + [1, 1].sum := by decide

/-- non-vacuity: two goroutines really can be inside two accesses at once (two exporters reading) -/
example : ∃ a ∈ table, ∃ b ∈ table, concurrent a b = true ∧ exclude a b = false := by
  refine ⟨⟨2, 1, .r, [(2, false), (0, false)]⟩, by decide, ⟨3, 1, .r, [(2, false), (0, false)]⟩, by decide,
    by decide, by decide⟩

/-! ### regenerated control skeletons (written by lib/wire_skeletons.py) -/
/-- Obligations over regenerated facts: the functions this property's model stands for have the
    control skeleton the model was written against (`Proofs/Skeletons.lean`, one `rfl` per function
    or clause; DESIGN.md §11.6a) -/
theorem f_runtime_runtime_skeletons : Skeletons.F_runtime_runtimeShape := Skeletons.f_runtime_runtime_shape
theorem f_metrics_store_skeletons : Skeletons.F_metrics_storeShape := Skeletons.f_metrics_store_shape
theorem f_exporter_prometheus_skeletons : Skeletons.F_exporter_prometheusShape := Skeletons.f_exporter_prometheus_shape
theorem f_metrics_metric_skeletons : Skeletons.F_metrics_metricShape := Skeletons.f_metrics_metric_shape
theorem f_datum_int_skeletons : Skeletons.F_datum_intShape := Skeletons.f_datum_int_shape
theorem f_exporter_export_skeletons : Skeletons.F_exporter_exportShape := Skeletons.f_exporter_export_shape

end MtailVerif.C11
