import MtailVerif.Proofs.Reader
/-! # C15 — Line framing is independent of how bytes arrive -/
namespace MtailVerif.C15
open MtailVerif MtailVerif.Reader

/-- Obligation over regenerated facts: the CR test in `send` is the one the model encodes. -/
theorem cr_test_shape :
    Generated.Reader.crCond = "end > 0 && lr.buf[end-1] == crByte" ∧
    Generated.Reader.delim = 10 ∧ Generated.Reader.crByte = 13 := by decide

/-- C15: for every byte stream and every way of splitting it into reads, the lines delivered
    (including the unterminated remainder when the source ends) are exactly the stream split
    at newlines with one trailing CR removed from each line, once each and in order. -/
theorem framing_chunk_independent (stream : Bytes) (chunks : List Bytes)
    (h : chunks.flatten = stream) : delivered chunks = specLines stream := by
  subst h
  unfold delivered specLines init
  rw [run_spec [] chunks (by simp)]
  simp [finish, finishSkipsEmpty_eq]

/-- two chunkings of the same stream deliver the same lines -/
theorem framing_any_two_chunkings (c1 c2 : List Bytes) (h : c1.flatten = c2.flatten) :
    delivered c1 = delivered c2 := by
  rw [framing_chunk_independent _ c1 rfl, framing_chunk_independent _ c2 h.symm]

/-- the spec is what the property says on a concrete stream: "a\r\n\nb\r" -/
example : specLines [97, 13, 10, 10, 98, 13] = [[97], [], [98, 13]] := by decide
/-- non-vacuity: a CRLF split across two reads -/
example : delivered [[97, 13], [10, 98]] = [[97], [98]] := by decide

end MtailVerif.C15
