import MtailVerif.Proofs.Reader
import MtailVerif.Proofs.ReaderBuf
import MtailVerif.Proofs.Skeletons
/-! # C15 — Line framing is independent of how bytes arrive -/
namespace MtailVerif.C15
open MtailVerif MtailVerif.Reader

/-- Obligation over regenerated facts: the CR test in `send` is the one the model encodes. -/
theorem cr_test_shape :
    Generated.Reader.crCond = "end > 0 && lr.buf[end-1] == crByte" ∧
    Generated.Reader.delim = 10 ∧ Generated.Reader.crByte = 13 := by decide

/-- C15: for every byte stream and every way of splitting it into reads, the lines delivered
    (including the unterminated remainder when the source ends) are exactly the stream split
    at newlines with one trailing CR removed from each line, once each and in order. -/
theorem framing_chunk_independent (stream : Bytes) (chunks : List Bytes)
    (h : chunks.flatten = stream) : delivered chunks = specLines stream := by
  subst h
  unfold delivered specLines init
  rw [run_spec [] chunks (by simp)]
  simp [finish, finishSkipsEmpty_eq]

/-- two chunkings of the same stream deliver the same lines -/
theorem framing_any_two_chunkings (c1 c2 : List Bytes) (h : c1.flatten = c2.flatten) :
    delivered c1 = delivered c2 := by
  rw [framing_chunk_independent _ c1 rfl, framing_chunk_independent _ c2 h.symm]

/-- the spec is what the property says on a concrete stream: "a\r\n\nb\r" -/
example : specLines [97, 13, 10, 10, 98, 13] = [[97], [], [98, 13]] := by decide
/-- non-vacuity: a CRLF split across two reads -/
example : delivered [[97, 13], [10, 98]] = [[97], [98]] := by decide


/-- Obligation over regenerated facts: the slice expressions whose length/capacity arithmetic
    `Model/ReaderBuf.lean` encodes are the ones in the source. -/
theorem buffer_shape :
    Generated.Reader.readOffer = "lr.buf[len(lr.buf):cap(lr.buf)]" ∧
    Generated.Reader.dropConsumed = "lr.buf[lr.off:len(lr.buf)]" ∧
    Generated.Reader.newBuf = "make([]byte, 0, size)" := by decide

/-- Every `Read` of every history is handed room for at least `size` bytes — whatever the earlier
    reads returned, however much of the buffer the send loop consumed (sent lines are sliced off
    the *front* of the buffer and take their capacity with them), and whenever `Finish` cut in.  So
    a reader never stops taking data in because its buffer has no room: a `Read` that returns 0
    bytes does so because the source had none. -/
theorem every_read_is_offered_room (size : Nat) (ops : List ReaderBuf.Op) :
    ∀ n ∈ ReaderBuf.offers ReaderBuf.src size (ReaderBuf.new size) ops, size ≤ n :=
  ReaderBuf.offers_ge size ops _ (by simp [ReaderBuf.Inv, ReaderBuf.new])

/-- non-vacuity: a buffer of 4 filled to the brim by one read whose last byte ends a line has
    neither length nor capacity left, and the next read is offered 4 again -/
example : ReaderBuf.offers ReaderBuf.src 4 (ReaderBuf.new 4) [.read 4 4, .read 1 0, .finish, .read 9 2] = [4, 4, 4] := by decide
/-- ... which is not a matter of course: regrowing to twice the *capacity* offers the second read
    nothing, for ever -/
example : ReaderBuf.offers ⟨Generated.Reader.needGrow, fun _ cap _ => 2 * cap⟩ 4 (ReaderBuf.new 4)
    [.read 4 4, .read 1 0, .read 1 0] = [4, 0, 0] := by decide

/-! ### regenerated control skeletons (written by lib/wire_skeletons.py) -/
/-- Obligations over regenerated facts: the functions this property's model stands for have the
    control skeleton the model was written against (`Proofs/Skeletons.lean`, one `rfl` per function
    or clause; DESIGN.md §11.6a) -/
theorem streams_skeletons : Skeletons.StreamsShape := Skeletons.streams_shape
theorem f_logstream_reader_skeletons : Skeletons.F_logstream_readerShape := Skeletons.f_logstream_reader_shape

end MtailVerif.C15
