import MtailVerif.Proofs.Lexer
import MtailVerif.Proofs.CompilePipeline
import MtailVerif.Generated.Grammar
import MtailVerif.Generated.Compile
import MtailVerif.Proofs.Skeletons
/-! C03 — the compiler terminates on any source text and never crashes.

What a theorem can carry here:
* the lexer (Model/Lexer.lean, every state function of lexer.go): every request for a token
  returns (`nextToken` is a total function, defined by well-founded recursion on the remaining
  input — Lean checked the termination argument), it consumes input, it stops only with EOF, and
  whatever the parser does with the InRegex flag — within the one place parser.y sets it — the
  token stream reaches EOF within 2·n+1 requests for an input of n runes;
* the result plumbing of Compile (Model/CompilePipeline.lean): exactly one of code and error, and an
  error lists at least one message, for arbitrary behaviour of the stages.
The parser tables goyacc generates, the type checker and the code generator are not modelled for
this property; for them the property is decided by search on the real compiler (the harness
predicate: no panic, returns within the bound, exactly one result, deterministic). -/
namespace MtailVerif.C03
open MtailVerif MtailVerif.Lexer MtailVerif.CompilePipeline

/-- Outside a regular expression a request consumes at least one rune of a non-empty input. -/
theorem request_consumes (inp : List R) (c : C) :
    (nextToken inp c false).1.2.1.length ≤ inp.length - 1 :=
  nextToken_le inp.length inp c (Nat.le_refl _)

/-- Inside a regular expression a request never gives input back. -/
theorem regex_request_consumes (inp : List R) (c : C) :
    (nextToken inp c true).1.2.1.length ≤ inp.length :=
  nextToken_regex_le inp c

/-- The state machine stops (returns the nil state) only when it has emitted EOF … -/
theorem stops_only_with_eof (inp : List R) (c : C) (f : Bool) (h : (nextToken inp c f).2 = true) :
    (nextToken inp c f).1.1.kind = .EOF :=
  nextToken_stopped inp.length inp c f (Nat.le_refl _) h

/-- … and at the end of the input it does stop. -/
theorem stops_at_end_of_input (c : C) : (nextToken [] c false).2 = true := nextToken_nil_stops c

/-- **The token stream ends.**  Let the parser be any function from the tokens delivered so far
    to the InRegex flag of the next request, subject only to parser.y's discipline (InRegex is
    set right after a DIV token).  Then for an input of n runes the lexer emits EOF and stops
    within 2·n+1 requests. -/
theorem token_stream_ends (pol : List Tok → Bool) (hp : RegexAfterDivOnly pol) (inp : List R) (c : C) :
    (drive pol (2 * inp.length + 1) [] inp c).2 = true ∧
    ∃ t rest, (drive pol (2 * inp.length + 1) [] inp c).1 = t :: rest ∧ t.kind = .EOF :=
  drive_stops pol hp _ [] inp c (by simp [phi, headIsDiv])

/-- Compile returns exactly one of code and error, whatever the stages do … -/
theorem compile_returns_exactly_one {S A O : Type} (st : Stages S A O) (optimisation : Bool) (src : S) :
    ExactlyOne (compile st optimisation src) :=
  (compile_ok st optimisation src).1

/-- … and its error lists at least one message, provided the generated parser reports an error
    whenever it gives up (goyacc calls Error before it returns 1). -/
theorem compile_error_not_empty {S A O : Type} (st : Stages S A O) (optimisation : Bool) (src : S)
    (hy : (st.parse src).1 ≠ 0 → (st.parse src).2.1 ≠ []) :
    ErrNonEmpty (compile st optimisation src) :=
  (compile_ok st optimisation src).2 hy

/-! ### the models are the source's -/

open Generated.Lexer in
/-- One invocation of a state function sends at most one token, so the two-slot token channel
    never blocks its only goroutine; the builtin list is sorted, so the binary search of
    lexIdentifier finds every builtin (the model tests membership). -/
theorem lexer_source_shape :
    tokenChannelCapacity = "2" ∧
    maxTokensPerInvocation = [("lexProg", 1), ("lexComment", 0), ("lexNumeric", 1), ("lexDuration", 1),
      ("lexQuotedString", 1), ("lexCapref", 1), ("lexIdentifier", 1), ("lexRegex", 1), ("lexDecorator", 1)] ∧
    builtinsSorted = true ∧ keywords.length = 18 ∧ builtins.length = 12 := by
  refine ⟨?_, ?_, ?_, ?_, ?_⟩ <;> decide

open Generated.Grammar in
/-- InRegex is set in one place: the empty rule `in_regex`, used once, right after DIV. -/
theorem in_regex_discipline :
    inRegexUses = [("regex_pattern", ["mark_pos", "DIV", "in_regex", "REGEX", "DIV"])] ∧
    inRegexRule = [[]] ∧ inRegexCalls = 1 := by
  refine ⟨?_, ?_, ?_⟩ <;> decide

open Generated.Compile in
theorem compile_source_shape :
    compileResults = "obj *code.Object, err error" ∧
    compileSteps = [("", "ast,err", "parser.Parse", true),
      ("!c.disableOptimisation", "ast,err", "opt.Optimise", true),
      ("", "ast,err", "checker.Check", true),
      ("!c.disableOptimisation", "ast,err", "opt.Optimise", true),
      ("", "obj,err", "codegen.CodeGen", true)] ∧
    parseReturns = [("r != 0 || p.errors != nil", ["nil", "p.errors"]), ("", ["p.root", "nil"])] ∧
    optimiseReturns = [("len(o.errors) > 0", ["r", "o.errors"]), ("", ["r", "nil"])] ∧
    checkReturns = [("len(c.errors) > 0", ["node", "c.errors"]), ("", ["node", "nil"])] ∧
    codegenReturns = [("len(c.errors) > 0", ["nil", "c.errors"]), ("", ["&c.obj", "nil"])] := by
  refine ⟨?_, ?_, ?_, ?_, ?_, ?_⟩ <;> decide

/-! ### non-vacuity -/

/-- a parser policy that sets InRegex after every DIV meets the discipline -/
example : RegexAfterDivOnly headIsDiv := fun _ h => h

def rs (s : String) : List R :=
  s.toList.map fun ch => ⟨ch.toNat, 1, if ch.isAlpha then 1 else if ch.isDigit then 2 else if ch.isWhitespace then 3 else 0⟩

/-! Tests by evaluation (`nextToken` is defined by well-founded recursion, which the kernel does not
    unfold, so these are `#guard`s, not theorems): `c++ # x` lexes to ID, INC, EOF; an unterminated
    regular expression gives DIV, then (in regex mode) INVALID, then EOF. -/
#guard ((drive (fun _ => false) 9 [] (rs "c++ # x") {}).1.map (·.kind)) == [.EOF, .INC, .ID]
#guard ((drive headIsDiv 9 [] (rs "/ab") {}).1.map (fun t => (t.kind, t.err))) == [(.EOF, 0), (.INVALID, 3), (.DIV, 0)]

/-! ### regenerated control skeletons (written by lib/wire_skeletons.py) -/
/-- Obligations over regenerated facts: the functions this property's model stands for have the
    control skeleton the model was written against (`Proofs/Skeletons.lean`, one `rfl` per function
    or clause; DESIGN.md §11.6a) -/
theorem symbols_skeletons : Skeletons.SymbolsShape := Skeletons.symbols_shape
theorem lex_skeletons : Skeletons.LexShape := Skeletons.lex_shape
theorem codegenBefore_skeletons : Skeletons.CodegenBeforeShape := Skeletons.codegenBefore_shape
theorem codegenAfter_skeletons : Skeletons.CodegenAfterShape := Skeletons.codegenAfter_shape
theorem checkerBefore_skeletons : Skeletons.CheckerBeforeShape := Skeletons.checkerBefore_shape
theorem checkerAfter_skeletons : Skeletons.CheckerAfterShape := Skeletons.checkerAfter_shape
theorem patternEval_skeletons : Skeletons.PatternEvalShape := Skeletons.patternEval_shape
theorem f_checker_checker_skeletons : Skeletons.F_checker_checkerShape := Skeletons.f_checker_checker_shape
theorem f_codegen_codegen_skeletons : Skeletons.F_codegen_codegenShape := Skeletons.f_codegen_codegen_shape
theorem f_parser_driver_skeletons : Skeletons.F_parser_driverShape := Skeletons.f_parser_driver_shape
theorem f_ast_ast_skeletons : Skeletons.F_ast_astShape := Skeletons.f_ast_ast_shape
theorem f_ast_walk_skeletons : Skeletons.F_ast_walkShape := Skeletons.f_ast_walk_shape
theorem f_position_position_skeletons : Skeletons.F_position_positionShape := Skeletons.f_position_position_shape

end MtailVerif.C03
