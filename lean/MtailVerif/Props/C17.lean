import MtailVerif.Proofs.Conn
import MtailVerif.Generated.Conn
import MtailVerif.Proofs.Skeletons
import MtailVerif.Proofs.AcceptRace
/-! # C17 — Pipes and sockets deliver all bytes, never splice connections, then end -/
namespace MtailVerif.C17
open MtailVerif MtailVerif.Conn MtailVerif.Reader

/-- Obligations over regenerated facts: each connection handler creates its own LineReader and
    flushes it when it ends; pipe and datagram streams flush before closing their output; the
    closer goroutine waits for the first connection OR cancellation. -/
theorem conn_source_shape :
    Generated.Conn.readerPerConnection = true ∧ Generated.Conn.handleConnFinishes = true ∧
    Generated.Conn.fifoFinishes = true ∧ Generated.Conn.dgramFinishes = true ∧
    Generated.Conn.closerWaitsForCancelToo = true := by decide

/-- every reachable state satisfies the invariant: each open connection has delivered exactly the
    complete lines of what it has read so far, with its remainder in its own reader -/
theorem reachable_inv (cfg : Cfg) (evs : List Ev) : Inv (run cfg {} evs) := run_inv cfg evs {} inv_init

/-- C17 (per connection, data): after any history, more bytes on connection `c` make exactly the
    lines they complete appear — in that connection's own line sequence, and in nobody else's -/
theorem data_delivers_own_lines (cfg : Cfg) (evs : List Ev) (c : Nat) (chunk : Bytes) (h : Handler)
    (hf : (run cfg {} evs).conns.find? (·.id = c) = some h) :
    let s := run cfg {} evs
    proj c (step cfg s (.data c chunk)).out = (spec [] (h.seen ++ chunk)).1 ∧
    ∀ c', c' ≠ c → proj c' (step cfg s (.data c chunk)).out = proj c' s.out :=
  let r := step_data cfg _ (reachable_inv cfg evs) c chunk h hf
  ⟨r.2.1, r.2.2⟩

/-- C17 (per connection, close): when the peer closes, that connection has delivered, in order
    and once each, exactly the newline-split of everything it sent, its unterminated tail last;
    lines of different connections are never merged -/
theorem close_delivers_tail_once (cfg : Cfg) (evs : List Ev) (c : Nat) (h : Handler)
    (hf : (run cfg {} evs).conns.find? (·.id = c) = some h) :
    let s := run cfg {} evs
    proj c (step cfg s (.close c)).out = specLines h.seen ∧
    ∀ c', c' ≠ c → proj c' (step cfg s (.close c)).out = proj c' s.out :=
  let r := step_close cfg _ (reachable_inv cfg evs) c h hf
  ⟨r.2.1, r.2.2⟩

/-- C17 (end): with the closer of the current source, cancellation from any state — also before
    any connection was accepted — ends every handler and closes the output -/
theorem output_closes_after_cancel (oneShot : Bool) (s : S) :
    (step ⟨oneShot, Generated.Conn.closerWaitsForCancelToo⟩ s .cancel).linesClosed = true :=
  (cancel_closes _ conn_source_shape.2.2.2.2 s).1

/-- the pre-repair closer (waiting for the first connection only) never closes the output of a
    listener that is cancelled before any client connects -/
example : (run ⟨false, false⟩ {} [.cancel]).linesClosed = false := by decide

/-- non-vacuity: two interleaved connections -/
example : (run ⟨false, true⟩ {} [.accept 1, .accept 2, .data 1 [97], .data 2 [98, 10], .data 1 [10, 99],
    .close 1, .cancel]).out = [(2, [98]), (1, [97]), (1, [99])] := by decide

/-- C17 (shutdown, at the level of the wait group): the accept loop counts a connection before it
    calls `Accept` (regenerated: `acceptCountsFirst`), and the closer closes the listener, waits
    for the count and only then closes the lines channel (`closerClosesWaitsCloses`).  Under that
    protocol no schedule whatever — of the cancellation, of clients connecting, of handlers sending
    and returning, of the closer — has a handler send on the closed channel, which in Go is a
    panic that ends the process. -/
theorem no_send_on_closed_lines (acts : List AcceptRace.Act) (s : AcceptRace.S)
    (h : AcceptRace.run Generated.Conn.acceptCountsFirst {} acts = some s) :
    Generated.Conn.closerClosesWaitsCloses = true ∧ s.bad = false := by
  have e : Generated.Conn.acceptCountsFirst = true := by decide
  rw [e] at h
  exact ⟨by decide, AcceptRace.count_first_never_sends_on_closed acts s h⟩

/-- … and this is what the order buys: counted after `Accept`, as the source did before 5065e9bc,
    a client accepted just before the cancellation gets a handler that sends on the closed channel -/
theorem counting_after_accept_is_unsafe :
    (AcceptRace.run false {} [.acceptOk, .cancel, .closeListener, .closeLines, .loopAdd, .spawn, .send]).map (·.bad) = some true :=
  AcceptRace.count_after_can_send_on_closed

/-- non-vacuity: a complete schedule under the source's protocol — two clients, cancellation between
    them, everything wound down, the lines channel closed, nothing sent on it afterwards -/
example : (AcceptRace.run true {} [.loopAdd, .acceptOk, .spawn, .send, .loopAdd, .acceptOk, .cancel, .spawn, .closeListener,
      .send, .finish, .loopAdd, .acceptFail, .send, .finish, .closeLines]).map (fun s => (s.bad, s.cpc, s.count)) =
    some (false, .linesClosed, 0) := by decide

/-! ### regenerated control skeletons (written by lib/wire_skeletons.py) -/
/-- Obligations over regenerated facts: the functions this property's model stands for have the
    control skeleton the model was written against (`Proofs/Skeletons.lean`, one `rfl` per function
    or clause; DESIGN.md §11.6a) -/
theorem streams_skeletons : Skeletons.StreamsShape := Skeletons.streams_shape
theorem dispatch_skeletons : Skeletons.DispatchShape := Skeletons.dispatch_shape
theorem f_logstream_fifostream_skeletons : Skeletons.F_logstream_fifostreamShape := Skeletons.f_logstream_fifostream_shape
theorem f_logstream_socketstream_skeletons : Skeletons.F_logstream_socketstreamShape := Skeletons.f_logstream_socketstream_shape
theorem f_logstream_dgramstream_skeletons : Skeletons.F_logstream_dgramstreamShape := Skeletons.f_logstream_dgramstream_shape
theorem f_logstream_cancel_skeletons : Skeletons.F_logstream_cancelShape := Skeletons.f_logstream_cancel_shape
theorem f_logstream_logstream_skeletons : Skeletons.F_logstream_logstreamShape := Skeletons.f_logstream_logstream_shape

end MtailVerif.C17
