import MtailVerif.Proofs.Key
import MtailVerif.Proofs.Skeletons
/-! # C08 — Distinct label tuples always name distinct data

    `Key.encode` is the model of `buildLabelValueKey`, with the replacement pairs and the
    terminator regenerated from the Go source.  The obligation `key_shape` says the
    regenerated constants have the escaping shape for which injectivity is proved. -/
namespace MtailVerif.C08
open MtailVerif.Key

/-- the escape and separator bytes the proof is instantiated with -/
def esc : UInt8 := 92   -- '\\'
def sep : UInt8 := 45   -- '-'

/-- Obligation over regenerated facts: the source escapes the escape byte, then the
    separator, and terminates each label with the bare separator. -/
theorem key_shape :
    Generated.Key.replacements = goodReps esc sep ∧ Generated.Key.terminator = [sep] ∧ esc ≠ sep := by
  decide

/-- C08 (key level): two tuples of the same arity have the same key iff they are equal. -/
theorem encode_injective (a b : List Bytes) (hl : a.length = b.length) :
    encode a = encode b ↔ a = b := by
  constructor
  · intro h
    unfold encode at h
    rw [key_shape.1, key_shape.2.1] at h
    exact encodeWith_good_injective esc sep key_shape.2.2 a b hl h
  · intro h; rw [h]

/-- stronger form: the key determines the tuple, whatever the arities -/
theorem encode_injective_any (a b : List Bytes) : encode a = encode b ↔ a = b := by
  constructor
  · intro h
    unfold encode at h
    rw [key_shape.1, key_shape.2.1] at h
    exact encodeWith_good_injective_any esc sep key_shape.2.2 a b h
  · intro h; rw [h]

/-- non-vacuity: tuples built from the separator and the escape byte are told apart -/
example : encode [[120, 92], [121, 45, 122]] ≠ encode [[120, 45, 121, 92], [122]] := by decide

/-! ### regenerated control skeletons (written by lib/wire_skeletons.py) -/
/-- Obligations over regenerated facts: the functions this property's model stands for have the
    control skeleton the model was written against (`Proofs/Skeletons.lean`, one `rfl` per function
    or clause; DESIGN.md §11.6a) -/
theorem metric_skeletons : Skeletons.MetricShape := Skeletons.metric_shape
theorem f_metrics_metric_skeletons : Skeletons.F_metrics_metricShape := Skeletons.f_metrics_metric_shape

end MtailVerif.C08
