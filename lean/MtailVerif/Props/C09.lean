import MtailVerif.Proofs.MetricRefine
import MtailVerif.Props.C08
import MtailVerif.Proofs.Skeletons
/-! # C09 — A metric behaves as a map from label tuples to values

    `Metric.step` is the model of the Go methods (`GetDatum`, writes through the returned
    datum, `RemoveDatum`, `ExpireDatum`, `FindLabelValueOrNil`, `EmitLabelSets`) over both
    representations the Go code keeps; `Spec.step` is an insertion-ordered association list.
    Injectivity of the key encoding (C08) is *used*, not assumed. -/
namespace MtailVerif.C09
open MtailVerif MtailVerif.Metric

theorem hinj : ∀ a b : List Bytes, Key.encode a = Key.encode b → a = b :=
  fun a b h => (C08.encode_injective_any a b).mp h

variable {V : Type}

/-- a reachable metric: any operation sequence from the empty metric of arity `n` -/
def reach (n : Nat) (mk : V) (ops : List (Op V)) : Metric V := runOps mk { nkeys := n } ops

/-- C09 (refinement, every history): the metric's content after any operation sequence is the
    insertion-ordered map's content after the same sequence, and the invariant holds. -/
theorem metric_refines_ordered_map (n : Nat) (mk : V) (ops : List (Op V)) :
    Inv (reach n mk ops) ∧ abs (reach n mk ops) = Spec.runOps n mk [] ops := by
  have := runOps_refines hinj mk ops ({ nkeys := n } : Metric V) (inv_init n)
  simpa [reach, abs] using this

/-- C09 (every step, every reachable state): each operation returns what the map returns. -/
theorem every_step_agrees (n : Nat) (mk : V) (ops : List (Op V)) (op : Op V) :
    let m := reach n mk ops
    (step mk m op).2 = (Spec.step n mk (abs m) op).2 ∧
    abs (step mk m op).1 = (Spec.step n mk (abs m) op).1 := by
  intro m
  have hi := (metric_refines_ordered_map n mk ops).1
  have hn : m.nkeys = n := by
    have : ∀ (ops : List (Op V)) (m0 : Metric V), Inv m0 → (runOps mk m0 ops).nkeys = m0.nkeys := by
      intro ops
      induction ops with
      | nil => intro m0 _; rfl
      | cons o os ih =>
        intro m0 h0
        obtain ⟨h1, _, _, h4⟩ := step_refines hinj mk m0 h0 o
        simp only [runOps]; rw [ih _ h1, h4]
    exact this ops _ (inv_init n)
  obtain ⟨_, h2, h3, _⟩ := step_refines hinj mk m hi op
  rw [hn] at h2 h3
  exact ⟨h3, h2⟩

/-- enumeration lists each live tuple exactly once -/
theorem emit_each_live_tuple_once (n : Nat) (mk : V) (ops : List (Op V)) :
    ((emit (reach n mk ops)).map (·.1)).Nodup := by
  have hi := (metric_refines_ordered_map n mk ops).1
  have := hi.labels_nodup
  simpa [emit, Function.comp_def] using this

/-- deleting an absent tuple is a no-op (spec level; transfers by `every_step_agrees`) -/
theorem remove_absent_noop (n : Nat) (mk : V) (s : Spec V) (l : List Bytes) (h : findS l s = none) :
    (Spec.step n mk s (.remove l)).1 = s := by
  have e : eraseS l s = s := by
    induction s with
    | nil => rfl
    | cons x rest ih =>
      simp only [findS] at h
      by_cases hx : x.labels = l
      · simp [hx] at h
      · simp only [hx, if_false] at h; simp [eraseS, hx, ih h]
  simp only [Spec.step]; split <;> simp [e]

/-- marking expiry on an absent tuple is an error and changes nothing -/
theorem expire_absent_error (n : Nat) (mk : V) (s : Spec V) (x : Int) (l : List Bytes)
    (hl : l.length = n) (h : findS l s = none) :
    Spec.step n mk s (.expire x l) = (s, .err .noDatum) := by
  simp [Spec.step, hl, h]

/-- tuples of the wrong length are rejected without changing anything (model level) -/
theorem wrong_arity_rejected_unchanged (mk : V) (m : Metric V) (l : List Bytes) (h : l.length ≠ m.nkeys)
    (f : V → V) (x : Int) :
    step mk m (.get l) = (m, .err .arity) ∧ step mk m (.set l f) = (m, .err .arity) ∧
    step mk m (.remove l) = (m, .err .arity) ∧ step mk m (.expire x l) = (m, .err .arity) := by
  simp [step, getDatum, removeDatum, expireDatum, h]

/-! ### frame: operating on one tuple never touches another (second clause of C08) -/

theorem findS_modS_ne (a b : List Bytes) (f : Entry V → Entry V) (hf : ∀ e, (f e).labels = e.labels)
    (s : Spec V) (hab : a ≠ b) : findS b (modS a f s) = findS b s := by
  induction s with
  | nil => rfl
  | cons x rest ih =>
    simp only [modS]
    by_cases hx : x.labels = a
    · have : x.labels ≠ b := fun e => hab (hx ▸ e)
      simp [hx, findS, hf, this, hx ▸ this]
    · simp only [hx, if_false, findS]; split <;> simp [ih]

theorem findS_eraseS_ne (a b : List Bytes) (s : Spec V) (hab : a ≠ b) :
    findS b (eraseS a s) = findS b s := by
  induction s with
  | nil => rfl
  | cons x rest ih =>
    simp only [eraseS]
    by_cases hx : x.labels = a
    · have : x.labels ≠ b := fun e => hab (hx ▸ e)
      simp [hx, findS, hx ▸ this]
    · simp only [hx, if_false, findS]; split <;> simp [ih]

theorem findS_append_ne (b : List Bytes) (s : Spec V) (e : Entry V) (h : e.labels ≠ b) :
    findS b (s ++ [e]) = findS b s := by
  induction s with
  | nil => simp [findS, h]
  | cons x rest ih => simp only [List.cons_append, findS]; split <;> simp [ih]

/-- the operations that address a tuple -/
def Op.target : Op V → Option (List Bytes)
  | .get l => some l | .set l _ => some l | .remove l => some l | .expire _ l => some l
  | .find _ => none | .emit => none

/-- C08/C09 frame (spec level): an operation addressed to tuple `a` leaves the entry of every
    other tuple `b` — presence, value and expiry — exactly as it was. -/
theorem frame_spec (n : Nat) (mk : V) (s : Spec V) (op : Op V) (b : List Bytes)
    (h : ∀ a, Op.target op = some a → a ≠ b) :
    findS b (Spec.step n mk s op).1 = findS b s := by
  cases op with
  | get l =>
    have hab := h l rfl
    simp only [Spec.step]; split
    · rfl
    · split
      · rfl
      · exact findS_append_ne b s _ hab
  | set l f =>
    have hab := h l rfl
    simp only [Spec.step]; split
    · rfl
    · split
      · exact findS_modS_ne l b (fun e => { e with value := f e.value }) (fun _ => rfl) s hab
      · exact findS_append_ne b s _ hab
  | remove l =>
    have hab := h l rfl
    simp only [Spec.step]; split
    · rfl
    · exact findS_eraseS_ne l b s hab
  | expire x l =>
    have hab := h l rfl
    simp only [Spec.step]; split
    · rfl
    · split
      · exact findS_modS_ne l b (fun e => { e with expiry := x }) (fun _ => rfl) s hab
      · rfl
  | find l => rfl
  | emit => rfl

/-- frame on the model of the Go code, for every reachable metric -/
theorem frame_model (n : Nat) (mk : V) (ops : List (Op V)) (op : Op V) (b : List Bytes)
    (h : ∀ a, Op.target op = some a → a ≠ b) :
    findS b (abs (step mk (reach n mk ops) op).1) = findS b (abs (reach n mk ops)) := by
  rw [(every_step_agrees n mk ops op).2]
  exact frame_spec n mk _ op b h

/-- C08 (datum level): two tuples of the right arity address the same datum iff they are
    equal: looking both up yields the same label-value identity exactly when `a = b`. -/
theorem same_datum_iff_equal_tuple (mk : V) (m : Metric V) (hi : Inv m) (a b : List Bytes)
    (ha : a.length = m.nkeys) (hb : b.length = m.nkeys) :
    ∀ m1 ida m2 idb, getDatum m mk a = .ok (m1, ida) → getDatum m1 mk b = .ok (m2, idb) →
      (ida = idb ↔ a = b) := by
  intro m1 ida m2 idb h1 h2
  have g1 := getDatum_spec hinj m hi mk a ha
  -- m1 satisfies the invariant and contains a
  have hstep := step_refines hinj mk m hi (.get a)
  have hm1 : (step mk m (.get a)).1 = m1 := by simp [step, h1]
  have hi1 : Inv m1 := hm1 ▸ hstep.1
  have hk1 : m1.nkeys = m.nkeys := hm1 ▸ hstep.2.2.2
  have hfa : ∃ lv, findL a m1.lvs = some lv ∧ lv.id = ida := by
    cases hf : findL a m.lvs with
    | some lv =>
      rw [g1.1 lv hf] at h1
      simp only [Except.ok.injEq, Prod.mk.injEq] at h1
      obtain ⟨rfl, rfl⟩ := h1
      exact ⟨lv, hf, rfl⟩
    | none =>
      rw [g1.2 hf] at h1
      simp only [Except.ok.injEq, Prod.mk.injEq] at h1
      obtain ⟨rfl, rfl⟩ := h1
      exact ⟨_, findL_append_new a m.lvs ⟨m.next, a, mk, 0⟩ rfl hf, rfl⟩
  obtain ⟨lva, hfa, hida⟩ := hfa
  have g2 := getDatum_spec hinj m1 hi1 mk b (hk1 ▸ hb)
  constructor
  · intro heq
    cases hfb : findL b m1.lvs with
    | some lvb =>
      rw [g2.1 lvb hfb] at h2
      simp only [Except.ok.injEq, Prod.mk.injEq] at h2
      obtain ⟨_, rfl⟩ := h2
      -- same id within a Nodup-id list ⇒ same entry ⇒ same labels
      have hma := findL_mem hfa
      have hmb := findL_mem hfb
      have hsame : lva = lvb := by
        have := byId_findL hi1.ids_nodup hfa
        have hb' := byId_findL hi1.ids_nodup hfb
        rw [hida, heq] at this
        rw [this] at hb'
        exact Option.some.inj hb'
      rw [← hma.2, ← hmb.2, hsame]
    | none =>
      rw [g2.2 hfb] at h2
      simp only [Except.ok.injEq, Prod.mk.injEq] at h2
      obtain ⟨_, rfl⟩ := h2
      have := hi1.ids_lt lva (findL_mem hfa).1
      omega
  · intro hab
    subst hab
    rw [g2.1 lva hfa] at h2
    simp only [Except.ok.injEq, Prod.mk.injEq] at h2
    rw [← hida, h2.2]

/-! non-vacuity: a concrete history over two tuples, one containing the separator -/
example : (abs (reach 1 (0 : Int)
    [.set [[45]] (· + 1), .set [[97]] (· + 5), .expire 7 [[45]], .remove [[97]], .get [[92]]])).map
      (fun e => (e.labels, e.value, e.expiry)) = [([[45]], 1, 7), ([[92]], 0, 0)] := by decide

/-! ### regenerated control skeletons (written by lib/wire_skeletons.py) -/
/-- Obligations over regenerated facts: the functions this property's model stands for have the
    control skeleton the model was written against (`Proofs/Skeletons.lean`, one `rfl` per function
    or clause; DESIGN.md §11.6a) -/
theorem metric_skeletons : Skeletons.MetricShape := Skeletons.metric_shape
theorem datum_skeletons : Skeletons.DatumShape := Skeletons.datum_shape
theorem f_datum_datum_skeletons : Skeletons.F_datum_datumShape := Skeletons.f_datum_datum_shape
theorem f_metrics_metric_skeletons : Skeletons.F_metrics_metricShape := Skeletons.f_metrics_metric_shape
theorem f_datum_int_skeletons : Skeletons.F_datum_intShape := Skeletons.f_datum_int_shape
theorem f_datum_float_skeletons : Skeletons.F_datum_floatShape := Skeletons.f_datum_float_shape
theorem f_datum_string_skeletons : Skeletons.F_datum_stringShape := Skeletons.f_datum_string_shape

end MtailVerif.C09
