import MtailVerif.Proofs.VMRun
import MtailVerif.Generated.VM
import MtailVerif.Proofs.Skeletons
/-! # C04 — accepted programs never fault inside the VM

    `VM.step` (Model/VM.lean) mirrors `vm.go` opcode by opcode, with every condition under which
    the Go code panics or reports an "unexpected type" modelled as `Res.fault`.
    `Verify.checkCert` (Model/VMVerify.lean) is a bytecode verifier.  The theorems below say: a
    program the verifier accepts never faults, on any line, from any well-typed store, whatever
    the standard library answers; the only runtime errors are the checked ones; it stops within
    `code.length` instructions; and the store stays well typed, so the statement chains over any
    sequence of lines.  The check runs the verifier on the real compiler's output for every
    program it compiles (translation validation). -/
namespace MtailVerif.C04
open MtailVerif MtailVerif.VM MtailVerif.VM.Verify

/-- the runtime errors `vm.go` raises through explicit checks -/
def checked : List RtErr :=
  [.convFailed, .timeParseFailed, .divByZero, .shiftOutOfRange, .baseOutOfRange, .captureOfUnmatched,
   .expireMissingDatum]

/-- **no fault on any line**: for every verified program, every oracle (library behaviour),
    every input line, every well-typed store and memo, and every fuel -/
theorem verified_line_never_faults (p : Prog) (c : Cert) (hc : checkCert p c = true) (o : Oracle)
    (inp : Input) (st : MStore) (memo : Memo) (fuel : Nat) (hs : StoreOK p st []) :
    (∀ f, (runLine o p fuel inp st memo).out ≠ .fault f) ∧
    (∀ e, (runLine o p fuel inp st memo).out = .err e → e ∈ checked) ∧
    StoreOK p (runLine o p fuel inp st memo).store [] ∧
    (p.code.length < fuel → (runLine o p fuel inp st memo).out ≠ .fuel) := by
  obtain ⟨g, gf⟩ := run_sound o p inp c hc fuel {} st memo (inv_init hc hs)
  refine ⟨g.noFault, ?_, g.store, fun h => gf (by simpa using h)⟩
  intro e he
  have := g.checkedOnly
  unfold runLine at he
  rw [he] at this
  cases e <;> simp_all [checked]

/-- a whole history of lines (the store and memo each line leaves are the next line's) -/
def runLines (o : Nat → Oracle) (p : Prog) (fuel : Nat) : Nat → List Input → MStore → Memo → List LineResult
  | _, [], _, _ => []
  | k, inp :: rest, st, memo =>
    let r := runLine (o k) p fuel inp st memo
    r :: runLines o p fuel (k + 1) rest r.store r.memo

/-- **no fault in any history**: the library may even answer differently on every line -/
theorem verified_history_never_faults (p : Prog) (c : Cert) (hc : checkCert p c = true) (o : Nat → Oracle)
    (fuel : Nat) (hfuel : p.code.length < fuel) :
    ∀ (inps : List Input) (k : Nat) (st : MStore) (memo : Memo), StoreOK p st [] →
      ∀ r ∈ runLines o p fuel k inps st memo,
        (∀ f, r.out ≠ .fault f) ∧ (∀ e, r.out = .err e → e ∈ checked) ∧ r.out ≠ .fuel := by
  intro inps
  induction inps with
  | nil => intro k st memo _ r hr; simp [runLines] at hr
  | cons inp rest ih =>
    intro k st memo hs r hr
    simp only [runLines, List.mem_cons] at hr
    obtain ⟨h1, h2, h3, h4⟩ := verified_line_never_faults p c hc (o k) inp st memo fuel hs
    rcases hr with rfl | hr
    · exact ⟨h1, h2, h4 hfuel⟩
    · exact ih (k + 1) _ _ h3 r hr

/-- the inference pass only ever returns certificates that pass the verified check -/
theorem verifyProg_checked (p : Prog) (c : Cert) (h : verifyProg p = .ok c) : checkCert p c = true := by
  unfold verifyProg at h
  simp only at h
  split at h
  · cases h
  · split at h
    · next hck => cases h; exact hck
    · cases h

/-- regenerated facts: the representations each typed pop of vm.go accepts are the ones the model's
    `popInt`/`popFloat`/`popString` accept (`time.Time` never reaches the stack), `Settime` pops
    with `PopInt`, and the opcode enumeration is the one the driver decodes -/
theorem source_shape :
    Generated.VM.casesPopInt = ["int64", "int", "float64", "bool", "string", "time.Time", "datum.Datum"] ∧
    Generated.VM.casesPopFloat = ["float64", "int", "int64", "bool", "string", "datum.Datum"] ∧
    Generated.VM.casesPopString = ["string", "float64", "int", "int64", "bool", "datum.Datum"] ∧
    Generated.VM.settimeAccepts = "PopInt;" ∧
    Generated.VM.opcodeNames.length = 61 ∧
    -- the conversions between text and numbers that the model takes from an oracle are the
    -- library calls of vm.go, with these arguments (decimal integers, 64-bit floats)
    Generated.VM.libraryConversions =
      ["strconv.ParseInt(n, 10, 64)", "strconv.ParseFloat(n, 64)", "strconv.FormatFloat(n, 'G', -1, 64)",
       "strconv.Itoa(n)", "strconv.FormatInt(n, 10)", "strconv.FormatBool(n)", "strconv.ParseFloat(rxS, 64)",
       "strconv.ParseFloat(rxS, 64)", "strconv.ParseFloat(lxS, 64)", "strconv.ParseInt(lxS, 10, 32)",
       "strconv.ParseFloat(value, 64)", "strconv.ParseInt(str, base, 64)", "strconv.ParseFloat(str, 64)"] := by decide

/-! ### non-vacuity: a concrete compiled program is accepted, and the hypotheses are satisfiable -/

/-- bytecode of `counter c` / `/x/ { c++ }` as the Go compiler emits it -/
def exProg : Prog where
  code := [⟨.match, .int 0⟩, ⟨.jnm, .int 7⟩, ⟨.setmatched, .bool false⟩, ⟨.mload, .int 0⟩, ⟨.dload, .int 0⟩,
           ⟨.inc, .none⟩, ⟨.setmatched, .bool true⟩]
  strs := []
  nre := 1
  metrics := [⟨0, 0, []⟩]

example : (verifyProg exProg).isOk = true := by decide

/-- the store the compiler leaves for `exProg` (the counter initialised to 0) is well typed -/
def exStore : MStore := [{ nkeys := 0, lvs := [⟨0, [], ⟨.int 0, some 0⟩, 0⟩], index := [([], 0)], next := 1 }]

example : StoreOK exProg exStore [] := by
  refine ⟨rfl, ?_, ?_, by simp⟩
  · intro m mm mi h1 h2
    cases m with
    | zero => simp [exStore, exProg] at h1 h2; subst h1 h2; rfl
    | succ m => simp [exStore] at h1
  · intro m mm h1 l hl
    cases m with
    | zero =>
      simp [exStore] at h1; subst h1
      simp at hl; subst hl
      exact ⟨⟨0, 0, []⟩, rfl, rfl⟩
    | succ m => simp [exStore] at h1

/-- ill-typed bytecode is rejected: `iget` on a float metric's datum -/
example : (verifyProg { exProg with code := [⟨.mload, .int 0⟩, ⟨.dload, .int 0⟩, ⟨.fget, .none⟩] }).isOk = false := by
  decide

/-! ### regenerated control skeletons (written by lib/wire_skeletons.py) -/
/-- Obligations over regenerated facts: the functions this property's model stands for have the
    control skeleton the model was written against (`Proofs/Skeletons.lean`, one `rfl` per function
    or clause; DESIGN.md §11.6a) -/
theorem exec_skeletons : Skeletons.ExecShape := Skeletons.exec_shape
theorem compare_skeletons : Skeletons.CompareShape := Skeletons.compare_shape
theorem codegenBefore_skeletons : Skeletons.CodegenBeforeShape := Skeletons.codegenBefore_shape
theorem codegenAfter_skeletons : Skeletons.CodegenAfterShape := Skeletons.codegenAfter_shape
theorem checkerBefore_skeletons : Skeletons.CheckerBeforeShape := Skeletons.checkerBefore_shape
theorem checkerAfter_skeletons : Skeletons.CheckerAfterShape := Skeletons.checkerAfter_shape
theorem f_codegen_codegen_skeletons : Skeletons.F_codegen_codegenShape := Skeletons.f_codegen_codegen_shape
theorem f_vm_vm_skeletons : Skeletons.F_vm_vmShape := Skeletons.f_vm_vm_shape

end MtailVerif.C04
