import MtailVerif.Proofs.ExprGrammar
import MtailVerif.Generated.Grammar
import MtailVerif.Proofs.Skeletons
/-! C23 — formatting preserves the program.  The part a theorem can carry: for every expression
    tree, the tokens the formatter writes (its parenthesisation rule, `lhsNeedsParens` /
    `rhsNeedsParens` of unparser.go, as modelled in Model/Unparse.lean) parse — by the
    expression grammar of parser.y — back to exactly that tree. -/
namespace MtailVerif.C23
open MtailVerif MtailVerif.Ast MtailVerif.Unparse MtailVerif.Grammar

/-- The executable well-formedness test recognises only trees the theorem is about. -/
theorem wf_sound : (∀ e, wf e = true → WF e) ∧ (∀ as, wfArgs as = true → WFs as) := by
  apply wf.mutual_induct (motive_1 := fun e => wf e = true → WF e) (motive_2 := fun as => wfArgs as = true → WFs as)
  · intro i p h; simp [wf] at h; subst h; exact .int i
  · intro b p h; simp [wf] at h; subst h; exact .float b
  · intro t p h; simp [wf] at h; subst h; exact .str t
  · intro n nd p ty h; simp [wf] at h; obtain ⟨rfl, rfl⟩ := h; exact .cap n nd
  · intro n p ty as ty2 ih h; simp [wf] at h; obtain ⟨⟨⟨rfl, rfl⟩, rfl⟩, h⟩ := h; exact .var n (ih h)
  · intro n p ty h; simp [wf] at h; obtain ⟨rfl, rfl⟩ := h; exact .call0 n
  · intro n a as p ty iha ihs h; simp [wf] at h; obtain ⟨⟨⟨rfl, rfl⟩, ha⟩, hs⟩ := h
    exact .call n (iha ha) (ihs hs)
  · intro op l r ty ihl ihr h; simp [wf] at h; obtain ⟨⟨⟨ho, rfl⟩, hl⟩, hr⟩ := h
    exact .bin ho (ihl hl) (ihr hr)
  · intro e p ty ih h; simp [wf] at h; obtain ⟨⟨rfl, rfl⟩, he⟩ := h; exact .not (ih he)
  · intro e p ty ih h; simp [wf] at h; obtain ⟨⟨rfl, rfl⟩, he⟩ := h; exact .inc (ih he)
  · intro e p ty ih h; simp [wf] at h; obtain ⟨⟨rfl, rfl⟩, he⟩ := h; exact .dec (ih he)
  · intro t h1 h2 h3 h4 h5 h6 h7 h8 h9 h10 h11 h
    unfold wf at h
    split at h <;>
      first
      | exact (h1 _ _ rfl).elim | exact (h2 _ _ rfl).elim | exact (h3 _ _ rfl).elim
      | exact (h4 _ _ _ _ rfl).elim | exact (h5 _ _ _ _ _ rfl).elim | exact (h6 _ _ _ rfl).elim
      | exact (h7 _ _ _ _ _ rfl).elim | exact (h8 _ _ _ _ rfl).elim | exact (h9 _ _ _ rfl).elim
      | exact (h10 _ _ _ rfl).elim | exact (h11 _ _ _ rfl).elim | exact absurd h (by simp)
  · intro _; exact .nil
  · intro a as iha ihs h; simp [wfArgs] at h; exact .cons (iha h.1) (ihs h.2)

/-- **Round trip.**  For every expression tree `e` (any nesting of the nineteen binary operators,
    `~`, postfix `++`/`--`, indexed metric references, builtin calls, capture references and
    literals), the formatter's token stream for `e` is parsed by the grammar, with enough fuel,
    to `e` itself and nothing is left over. -/
theorem format_parse_roundtrip (e : Node) (h : WF e) :
    ∃ f0, ∀ f, f0 ≤ f → parseAt f 1 (toks e) = some (e, []) := by
  have g := good h
  simpa [Parses] using g.full 1 (by omega) g.pos [] (by simp [stops])

/-- The same inside any context that cannot continue the expression (a closing bracket, a comma,
    the end of the line, a looser operator …). -/
theorem format_parse_roundtrip_in_context (e : Node) (h : WF e) (rest : List Tok) (hs : stops 1 rest = true) :
    ∃ f0, ∀ f, f0 ≤ f → parseAt f 1 (toks e ++ rest) = some (e, rest) := by
  have g := good h
  exact g.full 1 (by omega) g.pos rest hs

/-- … and as an operand position of any level the tree's own precedence allows without brackets. -/
theorem format_parse_roundtrip_at_level (e : Node) (h : WF e) (j : Nat) (h1 : 1 ≤ j) (hj : j ≤ precedence e)
    (rest : List Tok) (hs : stops j rest = true) :
    ∃ f0, ∀ f, f0 ≤ f → parseAt f j (toks e ++ rest) = some (e, rest) :=
  (good h).full j h1 hj rest hs

/-- An argument list comes back too. -/
theorem format_parse_args_roundtrip (a : Node) (as : Nodes) (h : WFs (.cons a as)) (rest : List Tok) :
    ∃ f0, ∀ f, f0 ≤ f → parseArgs f (toksArgs (.cons a as) ++ .rp :: rest) = some (.cons a as, .rp :: rest) :=
  (goodArgs h).parse (by simp) (.rp :: rest) rfl

/-- **Assignments.**  `unary_expr (= | +=) logical_expr`: the statement the formatter writes for
    an assignment (left side bracketed unless it is at least a unary expression, right side never)
    parses back to the assignment. -/
theorem format_parse_assignment (op : Op) (hop : op = .assign ∨ op = .addAssign) (l r : Node) (hl : WF l) (hr : WF r)
    (rest : List Tok) (hs : stops 1 rest = true) :
    ∃ f0, ∀ f, f0 ≤ f → parseExprStmt f (toksAssign op l r ++ rest) = some (.bin op l r .unk, rest) := by
  have gl := good hl
  have gr := good hr
  have hlp : lhsNeedsParens op l = decide (precedence l < precUnary) := by
    rcases hop with rfl | rfl <;> simp [lhsNeedsParens]
  have hrp : rhsNeedsParens op r = false := by
    have := gr.pos
    rcases hop with rfl | rfl <;> simp [rhsNeedsParens, precLogical] <;> omega
  have hR : stops 7 (.op op :: (parens (rhsNeedsParens op r) (toks r) ++ rest)) = true := by
    rcases hop with rfl | rfl <;> simp [stops, binLevel]
  obtain ⟨f1, h1⟩ := operand_parse gl (lhsNeedsParens op l) (j := 7) (by omega) (by omega)
    (by intro h; rw [hlp] at h; have := of_decide_eq_false h; simp only [precUnary] at this; omega) hR
  obtain ⟨f2, h2⟩ := operand_parse gr (rhsNeedsParens op r) (j := 1) (by omega) (by omega)
    (by intro _; exact gr.pos) hs
  refine ⟨max f1 f2, fun f hf => ?_⟩
  have e : toksAssign op l r ++ rest =
      parens (lhsNeedsParens op l) (toks l) ++ (.op op :: (parens (rhsNeedsParens op r) (toks r) ++ rest)) := by
    simp [toksAssign]
  unfold parseExprStmt
  rw [e, h1 f (by omega)]
  rcases hop with rfl | rfl <;> simp [h2 f (by omega)]


/-! ### the model's grammar and precedence table are the source's

`Generated.Grammar` is rewritten from parser.y and unparser.go on every run.  The theorems below
stop compiling when the productions of the expression levels, the operator classes, the
formatter's precedence table or its two bracket rules change. -/

open Generated.Grammar in
/-- the level parser.y gives a binary operator: the index of the `X : X op_class opt_nl Y` rule
    whose operator class lists the operator's token -/
def yaccLevel (o : Op) : Option Nat :=
  let chain := ["logical_expr", "bitwise_expr", "rel_expr", "shift_expr", "additive_expr", "multiplicative_expr",
    "unary_expr"]
  (List.range 6).findSome? fun k =>
    let x := chain[k]!
    let y := chain[k + 1]!
    match productions.find? (fun r => r.1 == x) with
    | some (_, alts) =>
      alts.findSome? fun alt =>
        match alt with
        | [x', cls, "opt_nl", y'] =>
          if x' == x && y' == y then
            match productions.find? (fun r => r.1 == cls) with
            | some (_, members) => if members.contains [opTokenName o] then some (k + 1) else none
            | none => none
          else none
        | _ => none
    | none => none

open Generated.Grammar in
/-- the strength unparser.go's `precedence` gives a binary operator -/
def formatterPrec (o : Op) : Option Nat :=
  let name := opTokenName o
  let row : Option String := match binaryPrecedence.find? (fun (r : List String × String) => r.1.contains name) with
    | some r => some r.2
    | none =>
      match binaryPrecedence.find? (fun (r : List String × String) => r.1 == ["default"]) with
      | some r => some r.2
      | none => none
  match row with
  | some c => precOrder.idxOf? c
  | none => none

/-- every left-associative binary level of parser.y is the level the model's parser uses -/
theorem binLevel_is_yacc_level : ∀ o : Op, binLevel o = yaccLevel o := by
  intro o; cases o <;> decide

/-- unparser.go's precedence table is the model's, and on the grammar's binary operators it is
    the grammar's level -/
theorem opPrec_is_formatter_precedence : ∀ o : Op, some (opPrec o) = formatterPrec o := by
  intro o; cases o <;> decide

theorem formatter_precedence_matches_grammar : ∀ o : Op, ∀ k, yaccLevel o = some k → formatterPrec o = some k := by
  intro o; cases o <;> decide

open Generated.Grammar in
theorem source_shape :
    -- unary, postfix, primary, index and call productions, as the model's parser has them
    (productions.find? (fun r => r.1 == "unary_expr")).map (·.2) = some [["postfix_expr"], ["NOT", "unary_expr"]] ∧
    (productions.find? (fun r => r.1 == "postfix_expr")).map (·.2) = some [["primary_expr"], ["postfix_expr", "postfix_op"]] ∧
    (productions.find? (fun r => r.1 == "postfix_op")).map (·.2) = some [["INC"], ["DEC"]] ∧
    (productions.find? (fun r => r.1 == "primary_expr")).map (·.2) = some [["indexed_expr"], ["builtin_expr"], ["CAPREF"], ["CAPREF_NAMED"], ["STRING"], ["LPAREN", "logical_expr", "RPAREN"], ["INTLITERAL"], ["FLOATLITERAL"]] ∧
    (productions.find? (fun r => r.1 == "indexed_expr")).map (·.2) = some [["id_expr"], ["indexed_expr", "LSQUARE", "arg_expr_list", "RSQUARE"]] ∧
    (productions.find? (fun r => r.1 == "builtin_expr")).map (·.2) = some [["mark_pos", "BUILTIN", "LPAREN", "RPAREN"], ["mark_pos", "BUILTIN", "LPAREN", "arg_expr_list", "RPAREN"]] ∧
    (productions.find? (fun r => r.1 == "arg_expr_list")).map (·.2) = some [["arg_expr"], ["arg_expr_list", "COMMA", "arg_expr"]] ∧
    -- each binary level has exactly the pass-through and the left-recursive alternative (logical
    -- also admits match expressions, which are outside the theorem's trees)
    (productions.find? (fun r => r.1 == "logical_expr")).map (·.2) = some [["bitwise_expr"], ["match_expr"], ["logical_expr", "logical_op", "opt_nl", "bitwise_expr"], ["logical_expr", "logical_op", "opt_nl", "match_expr"]] ∧
    (productions.find? (fun r => r.1 == "bitwise_expr")).map (·.2) = some [["rel_expr"], ["bitwise_expr", "bitwise_op", "opt_nl", "rel_expr"]] ∧
    (productions.find? (fun r => r.1 == "rel_expr")).map (·.2) = some [["shift_expr"], ["rel_expr", "rel_op", "opt_nl", "shift_expr"]] ∧
    (productions.find? (fun r => r.1 == "shift_expr")).map (·.2) = some [["additive_expr"], ["shift_expr", "shift_op", "opt_nl", "additive_expr"]] ∧
    (productions.find? (fun r => r.1 == "additive_expr")).map (·.2) = some [["multiplicative_expr"], ["additive_expr", "add_op", "opt_nl", "multiplicative_expr"]] ∧
    (productions.find? (fun r => r.1 == "multiplicative_expr")).map (·.2) = some [["unary_expr"], ["multiplicative_expr", "mul_op", "opt_nl", "unary_expr"]] ∧
    -- the formatter: unary / postfix strengths and the two bracket rules
    unaryPrecedence = [(["NOT"], "precUnary"), (["INC", "DEC"], "precPostfix"), (["default"], "precedence(v.Expr)")] ∧
    lhsNeedsParensBody.getLast? = some "return precedence(lhs) < opPrecedence(op)" ∧
    rhsNeedsParensBody.getLast? = some "return precedence(rhs) <= opPrecedence(op)" ∧
    lhsNeedsParensBody.length = 3 ∧ rhsNeedsParensBody.length = 3 := by
  refine ⟨?_, ?_, ?_, ?_, ?_, ?_, ?_, ?_, ?_, ?_, ?_, ?_, ?_, ?_, ?_, ?_, ?_, ?_⟩ <;> decide

/-! ### the brackets are needed: what the grammar does with the text an un-bracketing printer writes -/

private def i (n : Int) : Node := .int n dp
/-- `1 - (2 - 3)` printed without brackets is `1 - 2 - 3`, which is `(1 - 2) - 3`. -/
example : parseAt 40 1 [.int 1, .op .minus, .int 2, .op .minus, .int 3] =
    some (.bin .minus (.bin .minus (i 1) (i 2) .unk) (i 3) .unk, []) := by rfl
/-- `(1 + 2) * 3` printed without brackets is `1 + 2 * 3`, which is `1 + (2 * 3)`. -/
example : parseAt 40 1 [.int 1, .op .plus, .int 2, .op .mul, .int 3] =
    some (.bin .plus (i 1) (.bin .mul (i 2) (i 3) .unk) .unk, []) := by rfl
/-- the formatter writes the brackets in both cases -/
example : toks (.bin .minus (i 1) (.bin .minus (i 2) (i 3) .unk) .unk) =
    [.int 1, .op .minus, .lp, .int 2, .op .minus, .int 3, .rp] := by decide
example : toks (.bin .mul (.bin .plus (i 1) (i 2) .unk) (i 3) .unk) =
    [.lp, .int 1, .op .plus, .int 2, .rp, .op .mul, .int 3] := by decide
/-- and none where the grammar needs none: `1 - 2 - 3`, `1 + 2 * 3` -/
example : toks (.bin .minus (.bin .minus (i 1) (i 2) .unk) (i 3) .unk) =
    [.int 1, .op .minus, .int 2, .op .minus, .int 3] := by decide

/-! ### the hypotheses are met by non-trivial trees -/
private def sample : Node :=
  .bin .and (.bin .lt (.un .not (.bin .plus (i 1) (.cap "1" false dp .unk) .unk) dp .unk) (i 9) .unk)
    (.bin .eq (.idx (.id "h" dp .unk) (.exprs (.cons (.cap "x" true dp .unk) (.cons (.bin .pow (i 2) (i 3) .unk) .nil))) .unk)
      (.builtin "len" (.exprs (.cons (.str [97] dp) .nil)) dp .unk) .unk) .unk
example : WF sample := wf_sound.1 _ (by decide)
example : parseAt 200 1 (toks sample) = some (sample, []) := by rfl

/-! ### regenerated control skeletons (written by lib/wire_skeletons.py) -/
/-- Obligations over regenerated facts: the functions this property's model stands for have the
    control skeleton the model was written against (`Proofs/Skeletons.lean`, one `rfl` per function
    or clause; DESIGN.md §11.6a) -/
theorem lex_skeletons : Skeletons.LexShape := Skeletons.lex_shape
theorem text_skeletons : Skeletons.TextShape := Skeletons.text_shape
theorem unparseBefore_skeletons : Skeletons.UnparseBeforeShape := Skeletons.unparseBefore_shape
theorem f_parser_unparser_skeletons : Skeletons.F_parser_unparserShape := Skeletons.f_parser_unparser_shape
theorem f_mfmt_main_skeletons : Skeletons.F_mfmt_mainShape := Skeletons.f_mfmt_main_shape

end MtailVerif.C23
