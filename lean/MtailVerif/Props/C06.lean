import MtailVerif.Proofs.Runtime
import MtailVerif.Generated.Runtime
import MtailVerif.Proofs.Skeletons
import MtailVerif.Generated.Reload
import MtailVerif.Proofs.DispatchRace
/-! # C06 — Programs are isolated from each other -/
namespace MtailVerif.C06
open MtailVerif MtailVerif.Runtime

/-- the metrics of program `p` under one name -/
def proj (p : Bytes) (s : Store) (n : Bytes) : List SMetric := (s.get n).filter (fun m => m.prog = p)

/-- Obligation over regenerated facts: the dedupe scan of `Store.Add` skips metrics of other
    programs first. -/
theorem add_skips_other_programs : Generated.Runtime.addSkipConds.head? = some "v.Program != m.Program" := by
  decide

/-- Registering a metric of program `q` leaves every metric of every other program `p` exactly
    as it was — same objects, same data, same order — under every name.  In particular a metric
    of one program is never replaced by or merged with a same-named metric of another. -/
theorem add_preserves_other_programs (ce : Bool) (s s' : Store) (m : SMetric) (p : Bytes) (hp : m.prog ≠ p)
    (h : s.add ce m = .ok s') (n : Bytes) : proj p s' n = proj p s n := by
  unfold Store.add at h
  cases hget : s.get m.name with
  | nil =>
    simp only [hget, Except.ok.injEq] at h
    subst h
    by_cases hn : n = m.name
    · subst hn
      simp [proj, get_set_self, hget, hp]
    · simp [proj, get_set_other s m.name n [m] hn]
  | cons first rest =>
    simp only [hget] at h
    split at h
    · cases h
    · simp only [Except.ok.injEq] at h
      subst h
      by_cases hn : n = m.name
      · subst hn
        simp only [proj, get_set_self, hget]
        cases hscan : addScan ce m (first :: rest) 0 none with
        | mk m' dupe =>
          have hm' : m'.prog = m.prog := by
            have := addScan_prog ce m (first :: rest) 0 none
            rw [hscan] at this; exact this
          cases dupe with
          | none =>
            simp only []
            rw [List.filter_append]; simp [hm', hp]
          | some d =>
            rcases addScan_dupe_prog ce m (first :: rest) 0 none m' d hscan with r | ⟨_, w, hw, hwp⟩
            · cases r
            · simp only [Nat.sub_zero] at hw
              have hw' : ((first :: rest) ++ [m'])[d]? = some w := by
                rw [List.getElem?_append_left]
                · exact hw
                · exact (List.getElem?_eq_some_iff.mp hw).1
              simp only []
              rw [filter_eraseIdx _ _ d w hw' (by simp [hwp, hp]), List.filter_append]
              simp [hm', hp]
      · simp [proj, get_set_other s m.name n _ hn]

/-- the only permitted interaction: refusal on a kind conflict (see also C14) -/
theorem refused_only_on_kind_conflict (ce : Bool) (s : Store) (m : SMetric) (e : AddErr)
    (h : s.add ce m = .error e) : ∃ first rest, s.get m.name = first :: rest ∧ m.kind ≠ first.kind := by
  unfold Store.add at h
  cases hget : s.get m.name with
  | nil => simp [hget] at h
  | cons first rest =>
    simp only [hget] at h
    split at h
    · rename_i hk; exact ⟨first, rest, rfl, hk⟩
    · cases h

theorem filter_map_local (p q : Bytes) (hq : q ≠ p) (f : SMetric → SMetric)
    (hf : ∀ y, f y = y ∨ (y.prog = q ∧ (f y).prog = q)) (ms : List SMetric) :
    (ms.map f).filter (fun m => m.prog = p) = ms.filter (fun m => m.prog = p) := by
  induction ms with
  | nil => rfl
  | cons y ys ih =>
    simp only [List.map_cons, List.filter_cons, ih]
    rcases hf y with h | ⟨h1, h2⟩
    · rw [h]
    · have a : ¬ (f y).prog = p := fun e => hq (h2.symm.trans e)
      have b : ¬ y.prog = p := fun e => hq (h1.symm.trans e)
      simp [a, b]

theorem get_map_values (s : Store) (g : Bytes → List SMetric → List SMetric) (n : Bytes) :
    Store.get (s.map (fun x => (x.1, g x.1 x.2))) n = g n (s.get n) ∨
    (s.get n = [] ∧ Store.get (s.map (fun x => (x.1, g x.1 x.2))) n = []) := by
  unfold Store.get
  induction s with
  | nil => right; exact ⟨rfl, rfl⟩
  | cons x rest ih =>
    simp only [List.map_cons, List.find?_cons]
    by_cases hx : x.1 = n
    · left; simp [hx]
    · simp only [hx, decide_false]; exact ih

def effFun (q : Bytes) (d : SMetric) (labels : List Bytes) (nm : Bytes) (ms : List SMetric) : List SMetric :=
  if nm = d.name then ms.map (fun m =>
    if m.prog = q ∧ m.typ = d.typ ∧ m.source = d.source ∧ m.keys = d.keys ∧ m.kind = d.kind
    then incAt m labels else m) else ms

/-- a line processed by program `q` only touches metrics of `q` -/
theorem line_effect_is_local (q p : Bytes) (d : SMetric) (labels : List Bytes) (s : Store) (hq : q ≠ p) (n : Bytes) :
    proj p (applyEffect q d labels s) n = proj p s n := by
  have hform : applyEffect q d labels s = s.map (fun x => (x.1, effFun q d labels x.1 x.2)) := by
    unfold applyEffect effFun
    congr 1; funext x
    by_cases hx : x.1 = d.name
    · simp [hx]
    · simp [hx]
  unfold proj
  rw [hform]
  rcases get_map_values s (effFun q d labels) n with h | ⟨h1, h2⟩
  · rw [h]
    unfold effFun
    split
    · apply filter_map_local p q hq
      intro y
      split
      · rename_i hy
        right
        refine ⟨hy.1, ?_⟩
        have : (incAt y labels).prog = y.prog := by unfold incAt; split <;> rfl
        rw [this]; exact hy.1
      · left; rfl
    · rfl
  · rw [h1, h2]

/-! ### the dispatcher's lock (Model/DispatchRace.lean) -/
/-- Obligation over a regenerated fact, and what it is for: `runtime.New`'s dispatcher holds the
    handle table's read lock from reading a program's channel to the end of the send (the fact),
    and under that discipline no schedule of the dispatcher's and any number of loaders' steps
    sends a line on a closed channel, or to a generation other than the installed one. -/
theorem dispatcher_sends_under_lock :
    Generated.Reload.fanoutHoldsReadLockAcrossSends = true ∧
      (∀ as : List DispatchRace.Act, (DispatchRace.run true {} as).bad = false) ∧
      (∀ as : List DispatchRace.Act, ∀ g ∈ (DispatchRace.run true {} as).sent, g ≤ (DispatchRace.run true {} as).gen) :=
  ⟨by decide, DispatchRace.send_under_lock_never_on_closed, DispatchRace.send_under_lock_to_installed⟩

/-- a dispatcher that copies the channels under the lock and sends after releasing it: the loader
    gets in between and the line goes to a closed channel (a panic that ends the process) -/
theorem sending_after_unlock_is_unsafe :
    (DispatchRace.run false {} [.dLock, .dSnap, .dUnlock, .lLock, .lSwap, .lUnlock, .dSend]).bad = true :=
  DispatchRace.send_after_unlock_hits_closed

/-! ### regenerated control skeletons (written by lib/wire_skeletons.py) -/
/-- Obligations over regenerated facts: the functions this property's model stands for have the
    control skeleton the model was written against (`Proofs/Skeletons.lean`, one `rfl` per function
    or clause; DESIGN.md §11.6a) -/
theorem loader_skeletons : Skeletons.LoaderShape := Skeletons.loader_shape
theorem f_runtime_runtime_skeletons : Skeletons.F_runtime_runtimeShape := Skeletons.f_runtime_runtime_shape
theorem f_metrics_store_skeletons : Skeletons.F_metrics_storeShape := Skeletons.f_metrics_store_shape
theorem f_exporter_prometheus_skeletons : Skeletons.F_exporter_prometheusShape := Skeletons.f_exporter_prometheus_shape

end MtailVerif.C06
