import MtailVerif.Proofs.TailerPoll
import MtailVerif.Generated.Tailer
import MtailVerif.Proofs.Skeletons
/-! # C18 — Every matching log path is tailed, once -/
namespace MtailVerif.C18
open MtailVerif MtailVerif.TailerPoll

/-- the invariant of every reachable tailer state -/
structure Inv (cfg : Cfg) (t : T) : Prop where
  nodup : t.streams.Nodup
  sound : ∀ p ∈ t.streams, cfg.ignore (baseName p) = false ∧ ∃ pat ∈ cfg.patterns, cfg.globMatch pat p = true

theorem streamWake_kind (t : T) (p : Bytes) : kindOf (streamWake t) p = kindOf t p := rfl

/-- globbing delivers nothing -/
theorem pats_fold_delivered (cfg : Cfg) : ∀ (pats : List Bytes) (t : T), (pats.foldl (globOne cfg) t).delivered = t.delivered := by
  intro pats
  induction pats with
  | nil => intro t; rfl
  | cons pat rest ih =>
    intro t
    simp only [List.foldl_cons]
    rw [ih]
    unfold globOne
    generalize t.nodes.map (·.1) = ps
    induction ps generalizing t with
    | nil => rfl
    | cons p ps ihp =>
      simp only [List.foldl_cons]
      rw [ihp]
      split
      · unfold tailPath; split <;> rfl
      · rfl

theorem after_poll_tailed_eq_eligible_delivered (cfg : Cfg) (t : T) :
    (poll cfg t).delivered = t.delivered ++
      t.pending.filter (fun d => kindOf t d.1 = some .file && t.streams.contains d.1) := by
  unfold poll
  rw [pats_fold_delivered]
  rfl

/-- Obligation over regenerated facts: the control structure of the four functions the model
    stands for, as `go/extract` reads it from tail.go on every run (conditions, loop headers, what
    each branch ends in, locks, map updates; logging left out).  In particular: `Ignore` lets
    through everything that can be stat'ed and is no directory; `TailPath` looks the path up and
    registers it under one lock; a match that cannot be tailed does not end the walk over the
    matches (`if err := t.TailPath(absPath); err != nil {}` has no way out), and neither does a
    failed `doPatternGlob` end the polling loop. -/
theorem tailer_shape :
    Generated.Tailer.ignore = "filepath.Abs(pathname); if err != nil {return true}; os.Stat(absPath); if err != nil {return true}; if fi.Mode().IsDir() {return true}; return t.ignoreRegexPattern != nil && t.ignoreRegexPattern.MatchString(fi.Name())" ∧
    Generated.Tailer.tailPath = "t.logstreamsMu.Lock(); defer t.logstreamsMu.Unlock(); if _, ok := t.logstreams[pathname]; ok {return nil}; logstream.New(t.ctx, &t.wg, t.logstreamPollWaker, pathname, t.oneShot); if err != nil {return err}; t.logstreams[pathname] = l; t.wg.Add(1); go {defer t.wg.Done(); for range l.Lines() {t.lines <-}; t.logstreamsMu.Lock(); if !t.oneShot {delete(t.logstreams, pathname)}; logCount.Add(-1); t.logstreamsMu.Unlock()}; logCount.Add(1); return nil" ∧
    Generated.Tailer.doPatternGlob = "filepath.Glob(pattern); if err != nil {return err}; for range matches {if t.Ignore(pathname) {continue}; filepath.Abs(pathname); if err != nil {continue}; if err := t.TailPath(absPath); err != nil {}}; return nil" ∧
    Generated.Tailer.pollLogPattern = "if err := t.doPatternGlob(pattern); err != nil {}; if t.logPatternPollWaker == nil {return }; t.wg.Add(1); go {defer t.wg.Done(); <-t.initDone; if t.oneShot {return }; for  {select {case <-t.ctx.Done(): {return } case <-t.logPatternPollWaker.Wake(): {if err := t.doPatternGlob(pattern); err != nil {}}}}}" := ⟨rfl, rfl, rfl, rfl⟩

/-- C18 (after the next pattern poll): every existing regular file that matches a pattern and is
    not ignored is tailed; everything tailed matches a pattern, is not ignored, and is something a
    stream can hold open — never a directory, never a name that has gone, never a socket; a stream
    is only ever *started* on a regular file (what else can be tailed is a device that took the
    place of a log whose stream was already running); and there is exactly one stream per path —
    whatever happened before, for every pattern set, ignore rule and glob semantics. -/
theorem after_poll_tailed_eq_eligible (cfg : Cfg) (t : T) (hi : Inv cfg t) :
    let t' := poll cfg t
    t'.streams.Nodup ∧
    (∀ p, eligible cfg t p = true → p ∈ t'.streams) ∧
    (∀ p ∈ t'.streams, ((kindOf t p).map Kind.reopens).getD false = true ∧
        cfg.ignore (baseName p) = false ∧ ∃ pat ∈ cfg.patterns, cfg.globMatch pat p = true) ∧
    (∀ p ∈ t'.streams, p ∉ t.streams → eligible cfg t p = true) ∧
    t'.nodes = t.nodes ∧ t'.delivered = (streamWake t).delivered := by
  intro t'
  have pp := pats_fold cfg cfg.patterns (streamWake t)
  have hnd : (streamWake t).streams.Nodup := hi.nodup.filter _
  refine ⟨pp.nodup hnd, ?_, ?_, ?_, pp.nodes, ?_⟩
  · intro p he
    simp only [eligible, Bool.and_eq_true, decide_eq_true_eq, Bool.not_eq_true', List.any_eq_true] at he
    obtain ⟨⟨hk, hig⟩, pat, hpat, hm⟩ := he
    exact pp.hit p hk hig ⟨pat, hpat, hm⟩
  · intro p hp
    rcases pp.added p hp with h | ⟨hk, hig, pat, hpat, hm⟩
    · simp only [streamWake, List.mem_filter] at h
      obtain ⟨hs, pat, hpat, hm⟩ := hi.sound p h.1
      exact ⟨h.2, hs, pat, hpat, hm⟩
    · have hk' : kindOf t p = some .file := hk
      exact ⟨by simp [hk', Kind.reopens], hig, pat, hpat, hm⟩
  · intro p hp hnot
    simp only [eligible, Bool.and_eq_true, decide_eq_true_eq, Bool.not_eq_true', List.any_eq_true]
    rcases pp.added p hp with h | ⟨hk, hig, pat, hpat, hm⟩
    · simp only [streamWake, List.mem_filter] at h
      exact absurd h.1 hnot
    · exact ⟨⟨hk, hig⟩, pat, hpat, hm⟩
  · exact pats_fold_delivered cfg _ _

/-- in particular: no directory, no vanished name and no socket is tailed after a poll -/
theorem after_poll_never_dir (cfg : Cfg) (t : T) (hi : Inv cfg t) (p : Bytes) (hp : p ∈ (poll cfg t).streams) :
    kindOf t p ≠ some .dir ∧ kindOf t p ≠ some .socket ∧ kindOf t p ≠ none := by
  have h := ((after_poll_tailed_eq_eligible cfg t hi).2.2.1 p hp).1
  refine ⟨?_, ?_, ?_⟩ <;> intro e <;> simp [e, Kind.reopens] at h

/-- the invariant holds initially and is preserved by every operation: the same path is never
    tailed by two streams at once, at any point of any history -/
theorem inv_step (cfg : Cfg) (t : T) (hi : Inv cfg t) (op : Op) : Inv cfg (step cfg t op) := by
  cases op with
  | createFile p => simp only [step]; split <;> exact ⟨hi.nodup, hi.sound⟩
  | mkdir p => simp only [step]; split <;> exact ⟨hi.nodup, hi.sound⟩
  | createOther p => simp only [step]; split <;> exact ⟨hi.nodup, hi.sound⟩
  | remove p => exact ⟨hi.nodup, hi.sound⟩
  | rename p q => simp only [step]; split <;> exact ⟨hi.nodup, hi.sound⟩
  | appendLine p l => simp only [step]; split <;> (try split) <;> exact ⟨hi.nodup, hi.sound⟩
  | patternPoll =>
    -- the streams have not looked yet: whatever was tailed still is, and what the globs add is
    -- eligible and new
    have pp := pats_fold cfg cfg.patterns t
    refine ⟨pp.nodup hi.nodup, ?_⟩
    intro p hp
    rcases pp.added p hp with h | ⟨_, hig, pat, hpat, hm⟩
    · exact hi.sound p h
    · exact ⟨hig, pat, hpat, hm⟩
  | poll =>
    have h := after_poll_tailed_eq_eligible cfg t hi
    refine ⟨h.1, ?_⟩
    intro p hp
    have he := h.2.2.1 p hp
    exact ⟨he.2.1, he.2.2⟩

theorem never_two_streams_per_path (cfg : Cfg) (ops : List Op) : (run cfg {} ops).streams.Nodup := by
  have : ∀ (ops : List Op) (t : T), Inv cfg t → Inv cfg (run cfg t ops) := by
    intro ops
    induction ops with
    | nil => intro t h; exact h
    | cons op rest ih => intro t h; exact ih _ (inv_step cfg t h op)
  exact (this ops {} ⟨by simp, by simp⟩).nodup

/-- a line is delivered at most once per append: an append to a tailed file the stream holds is
    delivered then (one entry); an append to a file that appeared at a tailed path since the stream
    last looked is kept pending (one entry); anything else is not delivered -/
theorem append_delivers_once (cfg : Cfg) (t : T) (p l : Bytes) :
    (step cfg t (.appendLine p l)).delivered = t.delivered ++
      (if kindOf t p = some .file ∧ t.streams.contains p ∧ ¬ t.fresh.contains p then [(p, l)] else []) ∧
    (step cfg t (.appendLine p l)).pending = t.pending ++
      (if kindOf t p = some .file ∧ t.streams.contains p ∧ t.fresh.contains p then [(p, l)] else []) := by
  simp only [step]
  by_cases h1 : kindOf t p = some .file <;> by_cases h2 : t.streams.contains p = true <;>
    by_cases h3 : t.fresh.contains p = true <;> simp_all

/-- pending lines are delivered at the next poll exactly if their file is still at the tailed
    path, and never again: the poll empties the pending list -/
theorem pending_settled_at_poll (cfg : Cfg) (t : T) :
    (poll cfg t).delivered = t.delivered ++
      t.pending.filter (fun d => kindOf t d.1 = some .file && t.streams.contains d.1) ∧
    (streamWake t).pending = [] := by
  refine ⟨?_, rfl⟩
  have := (after_poll_tailed_eq_eligible_delivered cfg t)
  exact this

/-- something that is neither file nor directory and matches a pattern is never tailed, and the
    regular files that sort after it still are -/
example :
    let cfg : Cfg := ⟨[[100, 47, 42]], fun pat p => pat = [100, 47, 42] && p.take 2 = [100, 47], fun _ => false⟩
    (run cfg {} [.mkdir [100], .createOther [100, 47, 48] .device, .createOther [100, 47, 49] .socket,
      .createFile [100, 47, 97], .poll]).streams = [[100, 47, 97]] := by decide

/-- a pattern poll that comes before the stream has looked at its path again does not start a
    second stream on a log that was removed and has come back: the path is still in the map -/
example :
    let cfg : Cfg := ⟨[[100, 47, 42]], fun pat p => pat = [100, 47, 42] && p.take 2 = [100, 47], fun _ => false⟩
    (run cfg {} [.mkdir [100], .createFile [100, 47, 97], .poll, .remove [100, 47, 97], .patternPoll,
        .createFile [100, 47, 97], .patternPoll, .poll]).streams = [[100, 47, 97]] := by decide

/-- a device that takes the place of a tailed log is followed by the stream that was there; a socket
    that does ends it, and the next poll starts afresh on the log that comes back -/
example :
    let cfg : Cfg := ⟨[[100, 47, 42]], fun pat p => pat = [100, 47, 42] && p.take 2 = [100, 47], fun _ => false⟩
    ((run cfg {} [.mkdir [100], .createFile [100, 47, 97], .poll, .remove [100, 47, 97],
        .createOther [100, 47, 97] .device, .poll]).streams,
     (run cfg {} [.mkdir [100], .createFile [100, 47, 97], .poll, .remove [100, 47, 97],
        .createOther [100, 47, 97] .socket, .poll]).streams,
     (run cfg {} [.mkdir [100], .createFile [100, 47, 97], .poll, .remove [100, 47, 97],
        .createOther [100, 47, 97] .socket, .poll, .remove [100, 47, 97], .createFile [100, 47, 97], .poll]).streams)
      = ([[100, 47, 97]], [], [[100, 47, 97]]) := by decide

/-- non-vacuity: two overlapping patterns, one ignored file, one directory -/
example :
    let cfg : Cfg := ⟨[[100, 47, 42], [100, 47, 97]], fun pat p => pat = [100, 47, 42] && p.take 2 = [100, 47] || pat = p,
      fun b => b = [122]⟩
    (run cfg {} [.mkdir [100], .createFile [100, 47, 97], .createFile [100, 47, 122], .mkdir [100, 47, 115],
      .poll, .poll]).streams = [[100, 47, 97]] := by decide

/-! ### regenerated control skeletons (written by lib/wire_skeletons.py) -/
/-- Obligations over regenerated facts: the functions this property's model stands for have the
    control skeleton the model was written against (`Proofs/Skeletons.lean`, one `rfl` per function
    or clause; DESIGN.md §11.6a) -/
theorem dispatch_skeletons : Skeletons.DispatchShape := Skeletons.dispatch_shape
theorem f_tailer_tail_skeletons : Skeletons.F_tailer_tailShape := Skeletons.f_tailer_tail_shape
theorem f_logstream_logstream_skeletons : Skeletons.F_logstream_logstreamShape := Skeletons.f_logstream_logstream_shape

end MtailVerif.C18
