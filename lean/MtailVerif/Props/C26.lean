import MtailVerif.Proofs.Runtime
import MtailVerif.Generated.Runtime
import MtailVerif.Proofs.Skeletons
/-! # C26 — Program directory scanning loads exactly the eligible files -/
namespace MtailVerif.C26
open MtailVerif MtailVerif.Runtime

/-- Obligation over regenerated facts: the two file filters of `LoadProgram` and the extension. -/
theorem load_filters_shape :
    Generated.Runtime.loadProgramFilters = ["strings.HasPrefix(name, \".\")", "filepath.Ext(name) != fileExt"] ∧
    Generated.Runtime.fileExt = ".mtail" := by decide

def eligibleName (n : Bytes) : Bool := !hasPrefixDot n && extIsMtail n

/-- an entry that is a directory, a dot-file or has another extension never changes anything -/
theorem ineligible_never_loaded (cfg : Cfg) (r : RT) (e : Entry)
    (h : (match e with | .dir _ => true | .file n _ => !eligibleName n | .unreadable n => !eligibleName n) = true) :
    loadProgram cfg r e = r := by
  cases e with
  | dir n => rfl
  | file n v =>
    simp only [eligibleName, Bool.not_and, Bool.not_not, Bool.or_eq_true] at h
    unfold loadProgram
    rcases h with h | h
    · simp [h]
    · by_cases hd : hasPrefixDot n = true
      · simp [hd]
      · have : extIsMtail n = false := by simpa using h
        simp [hd, this]
  | unreadable n =>
    simp only [eligibleName, Bool.not_and, Bool.not_not, Bool.or_eq_true] at h
    unfold loadProgram
    rcases h with h | h
    · simp [h]
    · by_cases hd : hasPrefixDot n = true
      · simp [hd]
      · have : extIsMtail n = false := by simpa using h
        simp [hd, this]

theorem find_setHandle_self (hs : List (Bytes × Handle)) (name : Bytes) (h : Handle) :
    (setHandle hs name h).find? (·.1 = name) = some (name, h) := by
  unfold setHandle
  split
  · rename_i hany
    induction hs with
    | nil => simp at hany
    | cons p rest ih =>
      by_cases hp : p.1 = name
      · simp [hp]
      · have : rest.any (·.1 = name) = true := by simpa [hp] using hany
        simp [hp, ih this]
  · rename_i hany
    rw [List.find?_append]
    have : hs.find? (fun x => decide (x.1 = name)) = none := by
      simp only [List.find?_eq_none]
      intro x hx
      simp only [Bool.not_eq_true, List.any_eq_false] at hany
      simpa using hany x hx
    simp [this]

theorem find_map_replace_other (hs : List (Bytes × Handle)) (name other : Bytes) (h : Handle) (hne : other ≠ name) :
    (hs.map (fun p => if p.1 = name then (name, h) else p)).find? (·.1 = other) = hs.find? (·.1 = other) := by
  have h1 : ¬ name = other := fun e => hne e.symm
  induction hs with
  | nil => rfl
  | cons p rest ih =>
    simp only [List.map_cons, List.find?_cons]
    by_cases hp : p.1 = name
    · have h2 : ¬ p.1 = other := fun e => hne (e.symm.trans hp)
      simp only [hp, if_true, h1, decide_false]
      exact ih
    · simp only [hp, if_false]
      by_cases hp2 : p.1 = other
      · simp [hp2]
      · simp only [hp2, decide_false]; exact ih

theorem find_setHandle_other (hs : List (Bytes × Handle)) (name other : Bytes) (h : Handle) (hne : other ≠ name) :
    (setHandle hs name h).find? (·.1 = other) = hs.find? (·.1 = other) := by
  unfold setHandle
  have h1 : ¬ name = other := fun e => hne e.symm
  split
  · exact find_map_replace_other hs name other h hne
  · rw [List.find?_append]
    cases List.find? (fun x => decide (x.1 = other)) hs <;> simp [h1]

/-- `compileAndRun` only ever touches the handle of the program it is given -/
theorem compileAndRun_other_handles (cfg : Cfg) (r : RT) (name other : Bytes) (v : Version) (hne : other ≠ name) :
    (compileAndRun cfg r name v).handles.find? (·.1 = other) = r.handles.find? (·.1 = other) := by
  unfold compileAndRun
  cases decision cfg r name v with
  | unchanged => rfl
  | compileError => rfl
  | refused ps => rfl
  | loaded s' => exact find_setHandle_other r.handles name other _ hne

/-- after loading an eligible file that compiles and registers, exactly that content is running -/
theorem loaded_runs_latest (cfg : Cfg) (r : RT) (name : Bytes) (v : Version) (s' : Store)
    (h : decision cfg r name v = .loaded s') :
    (compileAndRun cfg r name v).handles.find? (·.1 = name) = some (name, ⟨v.hash, v⟩) := by
  simp only [compileAndRun, h]
  exact find_setHandle_self r.handles name _

/-- an unchanged file keeps running what it ran (hash short-circuit) -/
theorem unchanged_keeps_running (cfg : Cfg) (r : RT) (name : Bytes) (v : Version)
    (h : decision cfg r name v = .unchanged) : compileAndRun cfg r name v = r := by
  simp [compileAndRun, h]

/-- a failed load (compile error or refusal) keeps the previous version running -/
theorem broken_keeps_previous (cfg : Cfg) (r : RT) (name : Bytes) (v : Version)
    (h : ∀ s', decision cfg r name v ≠ .loaded s') : (compileAndRun cfg r name v).handles = r.handles := by
  unfold compileAndRun
  cases hd : decision cfg r name v with
  | unchanged => rfl
  | compileError => rfl
  | refused ps => rfl
  | loaded s' => exact absurd hd (h s')

/-- a removed program gets no further lines: after `unload` it has no handle -/
theorem unloaded_has_no_handle (r : RT) (name : Bytes) :
    (unload r name).handles.find? (·.1 = name) = none := by
  simp [unload, List.find?_eq_none]

/-! ### regenerated control skeletons (written by lib/wire_skeletons.py) -/
/-- Obligations over regenerated facts: the functions this property's model stands for have the
    control skeleton the model was written against (`Proofs/Skeletons.lean`, one `rfl` per function
    or clause; DESIGN.md §11.6a) -/
theorem loader_skeletons : Skeletons.LoaderShape := Skeletons.loader_shape
theorem f_runtime_runtime_skeletons : Skeletons.F_runtime_runtimeShape := Skeletons.f_runtime_runtime_shape

end MtailVerif.C26
