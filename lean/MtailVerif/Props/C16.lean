import MtailVerif.Proofs.FileStream
import MtailVerif.Generated.FileStream
import MtailVerif.Proofs.ReaderBuf
import MtailVerif.Proofs.Skeletons
/-! # C16 — A tailed file delivers every appended line exactly once across rotation -/
namespace MtailVerif.C16
open MtailVerif MtailVerif.FileStream

/-- Obligations over regenerated facts: the rotation branch flushes the old reader before it
    switches, `Finish` forgets the remainder it has sent, truncation is `size < offset`, rotation
    is `!SameFile`, a rotated-in file is read from its start, a newly found file from its end;
    `Finish` sends the remainder by a plain send (no alternative it could take instead), and the
    exit taken when tailing is stopped calls it. -/
theorem filestream_shape :
    Generated.FileStream.finishOnRotate = true ∧ Generated.FileStream.finishClears = true ∧
    Generated.FileStream.truncateCond = "newfi.Size() < currentOffset" ∧
    Generated.FileStream.sameFileCond = "!os.SameFile(fi, newfi)" ∧
    Generated.FileStream.streamFromStartInit = "oneShot == OneShotEnabled" ∧
    Generated.FileStream.rotateFromStart = true ∧
    Generated.FileStream.finishSendsAlways = true ∧ Generated.FileStream.finishOnStop = true := by decide

/-- the configuration the current source has -/
def cfg : Cfg := ⟨Generated.FileStream.finishOnRotate, Generated.FileStream.finishClears⟩

/-- C16: for every history of appends (with or without trailing newline), truncations,
    rename-and-create rotations, copy-truncate rotations, deletions, re-creations and idle polls,
    each observed before the next, the lines delivered for the path are exactly what the
    specification prescribes: the appended lines in order, each once, with one trailing CR
    removed, and every generation's unterminated fragment flushed once, as its own line, when
    that generation ends — never merged with later data. -/
theorem observed_history_exact (ops : List Op) :
    (run cfg start ops).delivered = (Spec.run ops).out := by
  have h := run_inv cfg filestream_shape.1 filestream_shape.2.1 ops start {} inv_start
  exact h.out

/-- ... and when tailing is then stopped, the fragment of the generation being tailed is delivered
    too, once, as its own line -/
theorem stopped_history_exact (ops : List Op) :
    (stop (run cfg start ops)).delivered = (Spec.stop (Spec.run ops)).out := by
  have h := run_inv cfg filestream_shape.1 filestream_shape.2.1 ops start {} inv_start
  exact stop_inv _ _ h

/-- the specification says what the property says, on a concrete history:
    "one\n", "frag", truncate, "two\n", rotate, "x", delete, create, "y\n" -/
example : (Spec.run [.append [111, 110, 101, 10], .append [102, 114], .truncate, .append [116, 119, 111, 10],
    .rotate, .append [120], .delete, .create, .append [121, 10]]).out =
    [[111, 110, 101], [102, 114], [116, 119, 111], [120], [121]] := by decide

/-- stopping with a fragment pending: "one\n", "fr", stop -/
example : (Spec.stop (Spec.run [.append [111, 110, 101, 10], .append [102, 114]])).out = [[111, 110, 101], [102, 114]] := by decide

/-- and the pre-repair behaviour really differs: with `Finish` not clearing its buffer the
    fragment is delivered twice, the second time glued to the next line -/
example : (run ⟨true, false⟩ start [.append [102, 114], .truncate, .append [116, 10]]).delivered =
    [[102, 114], [102, 114, 116]] := by decide


/-- Obligation over regenerated facts: the slice expressions whose length/capacity arithmetic
    `Model/ReaderBuf.lean` encodes are the ones in the source. -/
theorem buffer_shape :
    Generated.Reader.readOffer = "lr.buf[len(lr.buf):cap(lr.buf)]" ∧
    Generated.Reader.dropConsumed = "lr.buf[lr.off:len(lr.buf)]" ∧
    Generated.Reader.newBuf = "make([]byte, 0, size)" := by decide

/-- Every `Read` of every history is handed room for at least `size` bytes — whatever the earlier
    reads returned, however much of the buffer the send loop consumed (sent lines are sliced off
    the *front* of the buffer and take their capacity with them), and whenever `Finish` cut in.  So
    a reader never stops taking data in because its buffer has no room: a `Read` that returns 0
    bytes does so because the source had none. -/
theorem every_read_is_offered_room (size : Nat) (ops : List ReaderBuf.Op) :
    ∀ n ∈ ReaderBuf.offers ReaderBuf.src size (ReaderBuf.new size) ops, size ≤ n :=
  ReaderBuf.offers_ge size ops _ (by simp [ReaderBuf.Inv, ReaderBuf.new])

/-- non-vacuity: a buffer of 4 filled to the brim by one read whose last byte ends a line has
    neither length nor capacity left, and the next read is offered 4 again -/
example : ReaderBuf.offers ReaderBuf.src 4 (ReaderBuf.new 4) [.read 4 4, .read 1 0, .finish, .read 9 2] = [4, 4, 4] := by decide
/-- ... which is not a matter of course: regrowing to twice the *capacity* offers the second read
    nothing, for ever -/
example : ReaderBuf.offers ⟨Generated.Reader.needGrow, fun _ cap _ => 2 * cap⟩ 4 (ReaderBuf.new 4)
    [.read 4 4, .read 1 0, .read 1 0] = [4, 0, 0] := by decide

/-! ### regenerated control skeletons (written by lib/wire_skeletons.py) -/
/-- Obligations over regenerated facts: the functions this property's model stands for have the
    control skeleton the model was written against (`Proofs/Skeletons.lean`, one `rfl` per function
    or clause; DESIGN.md §11.6a) -/
theorem streams_skeletons : Skeletons.StreamsShape := Skeletons.streams_shape
theorem f_logstream_reader_skeletons : Skeletons.F_logstream_readerShape := Skeletons.f_logstream_reader_shape
theorem f_logstream_filestream_skeletons : Skeletons.F_logstream_filestreamShape := Skeletons.f_logstream_filestream_shape
theorem f_tailer_tail_skeletons : Skeletons.F_tailer_tailShape := Skeletons.f_tailer_tail_shape
theorem f_logstream_logstream_skeletons : Skeletons.F_logstream_logstreamShape := Skeletons.f_logstream_logstream_shape

end MtailVerif.C16
