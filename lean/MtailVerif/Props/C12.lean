import MtailVerif.Proofs.ExportLocks
import MtailVerif.Generated.ExportLocks
import MtailVerif.Proofs.Skeletons
/-! # C12 — No export attempt can leave metrics locked or stall processing

    `Generated.ExportLocks.all` holds, for each exporter loop, the lock/emitter skeleton
    regenerated from the Go AST on every run.  `safe` is a syntactic check; `safe_sound`
    (Proofs/ExportLocks.lean) shows that a safe skeleton, run on a metric with any number of
    label sets under any fault plan, ends with the read lock released, no emitter goroutine
    left blocked on its channel, and no unlock of an unheld lock. -/
namespace MtailVerif.C12
open MtailVerif.ExportLocks

/-- Obligation over regenerated facts: every exporter loop in the current source is safe. -/
theorem skeletons_safe : ∀ p ∈ Generated.ExportLocks.all, safe p.2 = true := by decide

/-- the four loops the property names are the ones extracted -/
theorem skeletons_named :
    Generated.ExportLocks.all.map (·.1) = ["Collect", "writeSocketMetrics", "HandleVarz", "HandleGraphite"] := by
  decide

/-- C12: for every exporter loop, every number of label sets `n`, every fault plan (which
    label set is unrepresentable, which write fails, where the request is cancelled) and every
    run that finishes: the metric's read lock is released, no emitter is left blocked. -/
theorem export_releases (p : String × List Stmt) (hp : p ∈ Generated.ExportLocks.all)
    (n fuel : Nat) (plan : List Bool) (o : Outcome) (rest : List Bool)
    (hex : exec n fuel p.2 ⟨0, .none, false⟩ plan = some (o, rest)) : GoodOutcome o :=
  safe_sound p.2 (skeletons_safe p hp) n fuel plan o rest hex

/-- hence a subsequent writer (line processing taking `m.Lock()`) is not blocked by this export -/
theorem writer_not_blocked (c : C) (h : Good c) : c.readers = 0 := h.1

/-- **the JSON export** (`HandleJSON` → `Store.MarshalJSON`, regenerated): whatever the encoder
    answers — success, or a value JSON cannot represent such as NaN or ±Inf — the attempt ends with
    the store's lock and every metric's lock released, and the handler itself takes none. -/
theorem json_export_releases :
    runJ Generated.ExportLocks.marshalJSON {} [] = some { store := 0, metrics := 0, collected := true } ∧
      Generated.ExportLocks.jsonHandlerLockOps = 0 := by decide

/-- the check is not vacuous: locking each metric inside the encoding loop and returning on an
    encoder error (statements the model does not know) is not accepted, and forgetting the deferred
    release leaves every metric read-locked -/
example : runJ [.rlockStore, .deferRUnlockStore, .decl, .collect, .unknown, .retMarshal] {} [] = none := by decide
example : runJ [.rlockStore, .deferRUnlockStore, .decl, .collect, .rlockAll, .retMarshal] {} [] =
    some { store := 0, metrics := 1, collected := true } := by decide

/-- non-vacuity: the Prometheus collector loop on a metric with 3 label sets, with the second
    label set unrepresentable, finishes (does not run out of fuel) and is `Good` -/
example : (exec 3 200 Generated.ExportLocks.collect ⟨0, .none, false⟩
    (List.replicate 20 false ++ [true])).map (·.1) = some (.returned ⟨0, .done, false⟩) := by
  decide

/-- the check is not vacuous either: the pre-repair shape of `Collect` (early `return` inside
    the receive loop) is rejected, and really does leak on a concrete plan -/
example : safe [.rlock, .spawn, .loop [.ifs [.ret]], .runlock, .ret] = false := by decide
example : exec 2 50 [.rlock, .spawn, .loop [.ifs [.ret]], .runlock, .ret] ⟨0, .none, false⟩ [true]
    = some (.returned ⟨1, .running 1, false⟩, []) := by decide

/-- **"…or stall processing", the push side** (obligation over regenerated facts): `PushMetrics`
    sets a deadline on the connection it dialled before it hands it to anything that writes — the
    writes happen with a metric's read lock held, and a peer that accepted and then stopped reading
    would otherwise hold that lock for ever.  (That a write on a connection with a deadline returns
    by the deadline is the runtime's, §11.6.) -/
theorem push_writes_have_a_deadline :
    deadlineBeforeWrites false Generated.ExportLocks.pushConnCalls = true ∧
      Generated.ExportLocks.pushConnCalls = ["DialTimeout", "SetDeadline", "writeSocketMetrics", "Close"] := by
  decide

/-- what that says, for any list of calls: every writing call has a deadline-setting call before it -/
theorem push_every_write_is_bounded (pre : List String) (w : String) (post : List String)
    (hcs : Generated.ExportLocks.pushConnCalls = pre ++ w :: post)
    (hw : connQuiet w = false) (hwb : connBounds w = false) : ∃ d ∈ pre, connBounds d = true := by
  rcases deadlineBeforeWrites_sound _ false push_writes_have_a_deadline.1 pre w post hcs hw hwb with h | h
  · cases h
  · exact h

/-- not vacuous: dialling with a context deadline and writing (the context governs the dial only) is refused -/
example : deadlineBeforeWrites false ["DialContext", "writeSocketMetrics", "Close"] = false := by decide

/-! ### regenerated control skeletons (written by lib/wire_skeletons.py) -/
/-- Obligations over regenerated facts: the functions this property's model stands for have the
    control skeleton the model was written against (`Proofs/Skeletons.lean`, one `rfl` per function
    or clause; DESIGN.md §11.6a) -/
theorem export_skeletons : Skeletons.ExportShape := Skeletons.export_shape
theorem f_exporter_prometheus_skeletons : Skeletons.F_exporter_prometheusShape := Skeletons.f_exporter_prometheus_shape
theorem f_metrics_metric_skeletons : Skeletons.F_metrics_metricShape := Skeletons.f_metrics_metric_shape
theorem f_exporter_export_skeletons : Skeletons.F_exporter_exportShape := Skeletons.f_exporter_export_shape
theorem f_exporter_graphite_skeletons : Skeletons.F_exporter_graphiteShape := Skeletons.f_exporter_graphite_shape
theorem f_exporter_varz_skeletons : Skeletons.F_exporter_varzShape := Skeletons.f_exporter_varz_shape

end MtailVerif.C12
