import MtailVerif.Proofs.IRCorrect
import MtailVerif.Model.Lower
/-! C01 — compiled programs compute what the language reference says.

`IR.Sem` (Model/IR.lean) is the reference semantics of the typed core language the code generator
works from: structural evaluation in source order, short-circuit `&&`/`||`, comparisons yielding
booleans, conditions, `else`, and `otherwise` with the per-block flag of docs/Language.md; a `stop`,
a checked runtime error or an internal fault ends the line with the effects made so far.
`IR.emit` is codegen.go's instruction layout.  `compile_correct`: the VM running the generated
code gives, for every line, store, memo and library behaviour, exactly what the semantics gives.

Partial (stated in DESIGN.md): the theorem starts from the core language.  The step from the
checked AST to the core language (`Lower.lower`: name resolution as the checker did it, decorator
expansion, opcode choice from the typed operator table, conversions) is a model that is compared
with the real code generator's bytecode on every case, not proved; the leaves of the semantics
(`+` on integers is wrapping 64-bit addition, …) are the VM model's instruction semantics, which
C04's correspondence ties to vm.go. -/
namespace MtailVerif.C01
open MtailVerif MtailVerif.VM MtailVerif.IR

/-- **Compiler correctness (core language).**  For every program outside the two
    `otherwise`/`else` shapes, every line, every metric store, every strptime memo and every
    behaviour of the standard library: the bytecode's result (how the line ends — normally, by
    `stop`, with which checked runtime error, or with which internal fault — the metric store and
    the memo) is the reference semantics' result, given enough fuel. -/
theorem compiled_code_computes_the_reference_semantics (prog : Ss) (hok : okSs prog = true)
    (p : Prog) (hp : p.code = emitSs prog 0) (o : Oracle) (inp : Input) (st : MStore) (memo : Memo) :
    ∃ k, ∀ fuel, k ≤ fuel → runLine o p fuel inp st memo = semLine o p prog inp st memo :=
  compile_correct prog hok p hp o inp st memo

/-- A runtime error aborts only the rest of the line: what the semantics returns on an error is
    the store at the point of the error (this is how `R.halt` is produced: `afterStep` passes on
    the store of the failing instruction's result, and every enclosing construct returns it
    unchanged). Stated for a sequence of statements. -/
theorem error_keeps_effects_made_before (o : Oracle) (p : Prog) (inp : Input) (s : S) (ss : Ss) (c c' : Cfg) (fl fl' : Bool)
    (h1 : execS o p inp s c fl = .ok c' fl') (out : Outcome) (st : MStore) (memo : Memo)
    (h2 : execSs o p inp ss c' fl' = .halt out st memo) :
    execSs o p inp (.cons s ss) c fl = .halt out st memo := by
  rw [execSs, h1]; simpa [SR.andThen] using h2

/-! ### the excluded shapes deviate: a concrete program (known finding)

`/1 > 0/ { m0++ }   /0 > 1/ { } else { otherwise { m1++ } }` — by the language reference the
`otherwise` is the first conditional of its block (the `else` block), so it matches and m1 becomes
1; the compiled code leaves the matched register of the enclosing block set, and m1 stays 0. -/

def lit (n : Int) : E := .prim [⟨.push, .i64 n⟩] .nil
def gt (a b : Int) : E := .cmp ⟨.icmp, .int 1⟩ false (lit a) (lit b)
def incr (m : Int) : S := .expr (.prim [⟨.mload, .int m⟩, ⟨.dload, .int 0⟩, ⟨.inc, .none⟩] .nil)

def cex : Ss :=
  .cons (.cond (gt 1 0) (.cons (incr 0) .nil))
    (.cons (.condElse (gt 0 1) .nil (.cons (.otherwise (.cons (incr 1) .nil)) .nil)) .nil)

def o0 : Oracle :=
  { reMatch := fun _ _ => none, parseInt := fun _ _ => none, parseFloat := fun _ => none,
    fadd := fun a _ => a, fsub := fun a _ => a, fmul := fun a _ => a, fdiv := fun a _ => a,
    fmod := fun a _ => a, fpow := fun a _ => a, fcmp := fun _ _ _ => false, i2f := fun _ => 0,
    f2i := fun _ => 0, fmtG := fun _ => [], fmtg := fun _ => [], toLower := id,
    replaceAll := fun v _ _ => v, reReplace := fun _ v _ => v, timeParse := fun _ _ => none, nowSec := 0 }

def p0 : Prog := ⟨emitSs cex 0, [], 0, [⟨0, 0, []⟩, ⟨0, 0, []⟩]⟩
def st0 : MStore := [{ nkeys := 0 }, { nkeys := 0 }]

def valueOf (r : LineResult) (m : Nat) : Option Int :=
  match (r.store[m]?).bind (fun mm => mm.lvs.head?) with
  | some lv => (match lv.value.val with | .int x => some x | _ => none)
  | none => none

example : okSs cex = false := by decide

/-- **The excluded shapes really deviate** (kernel-checked by evaluation of both sides on this
    program): the reference semantics increments m1, the compiled code does not. -/
theorem otherwise_in_else_deviates :
    valueOf (semLine o0 p0 cex ⟨[], []⟩ st0 []) 1 = some 1 ∧
    valueOf (runLine o0 p0 100 ⟨[], []⟩ st0 []) 1 = none ∧
    valueOf (semLine o0 p0 cex ⟨[], []⟩ st0 []) 0 = some 1 ∧
    valueOf (runLine o0 p0 100 ⟨[], []⟩ st0 []) 0 = some 1 := by
  refine ⟨?_, ?_, ?_, ?_⟩ <;> decide +kernel

/-! ### the hypotheses are met by non-trivial programs -/

/-- `1 > 0 && 0 > 1 { m0++ } else { m1++ }   otherwise`-free, nested: inside the class -/
def sample : Ss :=
  .cons (.condElse (.and (gt 1 0) (.or (gt 0 1) (gt 2 1))) (.cons (incr 0) (.cons (.cond (gt 3 2) (.cons (incr 1) .nil)) .nil))
    (.cons (incr 1) .nil)) (.cons (.otherwise (.cons (incr 0) .nil)) .nil)

example : okSs (.cons (.cond (gt 1 0) (.cons (incr 0) (.cons (.otherwise (.cons (incr 1) .nil)) .nil))) .nil) = true := by
  decide
example : okSs (.cons (.condElse (.and (gt 1 0) (.or (gt 0 1) (gt 2 1))) (.cons (incr 0) .nil) (.cons (incr 1) .nil)) .nil) = true := by
  decide

end MtailVerif.C01
