import MtailVerif.Proofs.IRCorrect
import MtailVerif.Model.Lower
import MtailVerif.Proofs.Skeletons
/-! C01 — compiled programs compute what the language reference says.

`IR.Sem` (Model/IR.lean) is the reference semantics of the typed core language the code generator
works from: structural evaluation in source order, short-circuit `&&`/`||`, comparisons yielding
booleans, conditions, `else`, and `otherwise` with the per-block flag of docs/Language.md; a `stop`,
a checked runtime error or an internal fault ends the line with the effects made so far.
`IR.emit` is codegen.go's instruction layout.  `compile_correct`: the VM running the generated
code gives, for every line, store, memo and library behaviour, exactly what the semantics gives.

Partial (stated in DESIGN.md): the theorem starts from the core language.  The step from the
checked AST to the core language (`Lower.lower`: name resolution as the checker did it, decorator
expansion, opcode choice from the typed operator table, conversions) is a model that is compared
with the real code generator's bytecode on every case, not proved; the leaves of the semantics
(`+` on integers is wrapping 64-bit addition, …) are the VM model's instruction semantics, which
C04's correspondence ties to vm.go. -/
namespace MtailVerif.C01
open MtailVerif MtailVerif.VM MtailVerif.IR MtailVerif.Lower MtailVerif.Ast

/-- **Compiler correctness (core language).**  For every program outside the two
    `otherwise`/`else` shapes, every line, every metric store, every strptime memo and every
    behaviour of the standard library: the bytecode's result (how the line ends — normally, by
    `stop`, with which checked runtime error, or with which internal fault — the metric store and
    the memo) is the reference semantics' result, given enough fuel. -/
theorem compiled_code_computes_the_reference_semantics (prog : Ss) (hok : okSs prog = true)
    (p : Prog) (hp : p.code = emitSs prog 0) (o : Oracle) (inp : Input) (st : MStore) (memo : Memo) :
    ∃ k, ∀ fuel, k ≤ fuel → runLine o p fuel inp st memo = semLine o p prog inp st memo :=
  compile_correct prog hok p hp o inp st memo

/-- A runtime error aborts only the rest of the line: what the semantics returns on an error is
    the store at the point of the error (this is how `R.halt` is produced: `afterStep` passes on
    the store of the failing instruction's result, and every enclosing construct returns it
    unchanged). Stated for a sequence of statements. -/
theorem error_keeps_effects_made_before (o : Oracle) (p : Prog) (inp : Input) (s : S) (ss : Ss) (c c' : Cfg) (fl fl' : Bool)
    (h1 : execS o p inp s c fl = .ok c' fl') (out : Outcome) (st : MStore) (memo : Memo)
    (h2 : execSs o p inp ss c' fl' = .halt out st memo) :
    execSs o p inp (.cons s ss) c fl = .halt out st memo := by
  rw [execSs, h1]; simpa [SR.andThen] using h2

/-! ### the operator table

The theorem above takes a primitive's meaning from the VM model.  What the *source* operators mean
is fixed here independently (64-bit wrapping integer arithmetic with Go's truncated division,
the library's float arithmetic, two's-complement bit operations, the usual order on integers), and
the opcode and branch polarity that `Lower` picks from codegen.go's tables are proved to compute
exactly that on operands of the operator's type — so an operator mapped to the wrong opcode, a
comparison with the wrong operand or the wrong jump, would break a proof here. -/

/-- what the binary operators of the language mean on two 64-bit integers -/
def intOp (o : Oracle) : Op → Int → Int → Except RtErr Int
  | .plus, x, y => .ok (wrap (x + y))
  | .minus, x, y => .ok (wrap (x - y))
  | .mul, x, y => .ok (wrap (x * y))
  | .div, x, y => if y = 0 then .error .divByZero else .ok (wrap (Int.tdiv x y))
  | .mod, x, y => if y = 0 then .error .divByZero else .ok (Int.tmod x y)
  | .pow, x, y => .ok (o.f2i (o.fpow (o.i2f x) (o.i2f y)))
  | _, _, _ => .error .arity

def litI (x : Int) : E := .prim [⟨.push, .i64 x⟩] .nil

def pushV (v : Val) (c : Cfg) : Cfg := ⟨{ c.t with stack := v :: c.t.stack }, c.st, c.memo⟩

theorem int_operator_table (o : Oracle) (p : Prog) (inp : Input) (c : Cfg) (hc : norm c.t = c.t) (x y : Int) (oc : Opcode)
    (op : Op) (hop : op = .plus ∨ op = .minus ∨ op = .mul ∨ op = .div ∨ op = .mod ∨ op = .pow)
    (h : typedOp op .int = some oc) :
    evalE o p inp (.prim [i0 oc] (.cons (litI x) (.cons (litI y) .nil))) c =
      match intOp o op x y with
      | .ok r => .ok (pushV (.i64 r) c)
      | .error e => .halt (.err e) c.st c.memo := by
  obtain ⟨t, st, memo⟩ := c
  obtain ⟨pc, m, caps, time, stack, dead⟩ := t
  simp only [norm] at hc
  injection hc with h1 h2
  subst h1 h2
  by_cases hy : y = 0 <;>
  rcases hop with rfl | rfl | rfl | rfl | rfl | rfl <;> simp [typedOp, Ty.root] at h <;> subst h <;>
    simp [evalE, evalEs, litI, R.bind, runPrim, afterStep, step, stepCore, popInt, P.andThen, binInt, norm, i0,
      intOp, pushV, hy]

def floatOp (o : Oracle) : Op → UInt64 → UInt64 → Option UInt64
  | .plus, a, b => some (o.fadd a b)
  | .minus, a, b => some (o.fsub a b)
  | .mul, a, b => some (o.fmul a b)
  | .div, a, b => some (o.fdiv a b)
  | .mod, a, b => some (o.fmod a b)
  | .pow, a, b => some (o.fpow a b)
  | _, _, _ => none

def litF (b : UInt64) : E := .prim [⟨.push, .f64 b⟩] .nil

theorem float_operator_table (o : Oracle) (p : Prog) (inp : Input) (c : Cfg) (hc : norm c.t = c.t) (a b : UInt64)
    (oc : Opcode) (op : Op) (hop : op ≠ .assign) (h : typedOp op .float = some oc) :
    ∃ r, floatOp o op a b = some r ∧
      evalE o p inp (.prim [i0 oc] (.cons (litF a) (.cons (litF b) .nil))) c = .ok (pushV (.f64 r) c) := by
  obtain ⟨t, st, memo⟩ := c
  obtain ⟨pc, m, caps, time, stack, dead⟩ := t
  simp only [norm] at hc
  injection hc with h1 h2
  subst h1 h2
  cases op <;> simp [typedOp, Ty.root] at h <;> (try (exact absurd rfl hop)) <;> subst h <;>
    simp [evalE, evalEs, litF, R.bind, runPrim, afterStep, step, stepCore, popFloat, P.andThen, binFloat, norm, i0,
      floatOp, pushV]

/-- bitwise operators and shifts on 64-bit integers -/
def bitOp : Op → Int → Int → Except RtErr Int
  | .bitand, x, y => .ok (BitVec.ofInt 64 x &&& BitVec.ofInt 64 y).toInt
  | .bitor, x, y => .ok (BitVec.ofInt 64 x ||| BitVec.ofInt 64 y).toInt
  | .xor, x, y => .ok (BitVec.ofInt 64 x ^^^ BitVec.ofInt 64 y).toInt
  | .shl, x, y => if y < 0 ∨ y ≥ 2147483647 then .error .shiftOutOfRange
                  else .ok (if y ≥ 64 then 0 else wrap (x * 2 ^ y.toNat))
  | .shr, x, y => if y < 0 ∨ y ≥ 2147483647 then .error .shiftOutOfRange
                  else .ok (if y ≥ 64 then (if x < 0 then -1 else 0) else x / 2 ^ y.toNat)
  | _, _, _ => .error .arity

theorem bit_operator_table (o : Oracle) (p : Prog) (inp : Input) (c : Cfg) (hc : norm c.t = c.t) (x y : Int)
    (oc : Opcode) (op : Op) (h : bitOpcode op = some oc) :
    evalE o p inp (.prim [i0 oc] (.cons (litI x) (.cons (litI y) .nil))) c =
      match bitOp op x y with
      | .ok r => .ok (pushV (.i64 r) c)
      | .error e => .halt (.err e) c.st c.memo := by
  obtain ⟨t, st, memo⟩ := c
  obtain ⟨pc, m, caps, time, stack, dead⟩ := t
  simp only [norm] at hc
  injection hc with h1 h2
  subst h1 h2
  by_cases hy : (y < 0 ∨ y ≥ 2147483647) <;>
  cases op <;> simp [bitOpcode] at h <;> subst h <;>
    simp [evalE, evalEs, litI, R.bind, runPrim, afterStep, step, stepCore, popInt, P.andThen, binInt, norm, i0,
      bitOp, pushV, hy]

/-- `~x` is the bitwise complement -/
theorem not_operator (o : Oracle) (p : Prog) (inp : Input) (c : Cfg) (hc : norm c.t = c.t) (x : Int) :
    evalE o p inp (.prim [i0 .neg] (.cons (litI x) .nil)) c = .ok (pushV (.i64 (-x - 1)) c) := by
  obtain ⟨t, st, memo⟩ := c
  obtain ⟨pc, m, caps, time, stack, dead⟩ := t
  simp only [norm] at hc
  injection hc with h1 h2
  subst h1 h2
  simp [evalE, evalEs, litI, R.bind, runPrim, afterStep, step, stepCore, popInt, P.andThen, norm, i0, pushV]

/-- the truth value of a comparison of two integers -/
def cmpMeaning : Op → Int → Int → Bool
  | .lt, x, y => decide (x < y) | .gt, x, y => decide (x > y) | .le, x, y => decide (x ≤ y)
  | .ge, x, y => decide (x ≥ y) | .eq, x, y => decide (x = y) | .ne, x, y => decide (x ≠ y)
  | _, _, _ => false

theorem int_comparison_table (o : Oracle) (p : Prog) (inp : Input) (c : Cfg) (hc : norm c.t = c.t) (x y : Int)
    (op : Op) (arg : Int) (jm : Bool) (h : cmpCode op = some (arg, jm)) :
    evalE o p inp (.cmp (iN .icmp arg) jm (litI x) (litI y)) c = .ok (pushV (.bool (cmpMeaning op x y)) c) := by
  obtain ⟨t, st, memo⟩ := c
  obtain ⟨pc, m, caps, time, stack, dead⟩ := t
  simp only [norm] at hc
  injection hc with h1 h2
  subst h1 h2
  cases op <;> simp [cmpCode] at h <;> obtain ⟨rfl, rfl⟩ := h <;>
    simp [evalE, evalEs, litI, R.bind, runPrim, afterStep, step, stepCore, popInt, P.andThen, norm, iN, branch, taken,
      cmpInt, argInt, pushB, pushV, cmpMeaning]
  · by_cases h : y < x <;> simp [h] <;> omega
  · by_cases h : x < y <;> simp [h] <;> omega

/-- an operand that is a value already on the stack model: a literal string from the table -/
def litS (k : Nat) : E := .prim [iN .str k] .nil

/-- `+` on strings is concatenation -/
theorem string_plus_is_concatenation (o : Oracle) (p : Prog) (inp : Input) (c : Cfg) (hc : norm c.t = c.t)
    (j k : Nat) (a b : Bytes) (ha : p.strs[j]? = some a) (hb : p.strs[k]? = some b) (oc : Opcode)
    (h : typedOp .plus .str = some oc) :
    evalE o p inp (.prim [i0 oc] (.cons (litS j) (.cons (litS k) .nil))) c = .ok (pushV (.str (a ++ b)) c) := by
  obtain ⟨t, st, memo⟩ := c
  obtain ⟨pc, m, caps, time, stack, dead⟩ := t
  simp only [norm] at hc
  injection hc with h1 h2
  subst h1 h2
  simp [typedOp, Ty.root] at h; subst h
  have hj : ¬ ((j : Int) < 0) := by omega
  have hk : ¬ ((k : Int) < 0) := by omega
  simp [evalE, evalEs, litS, R.bind, runPrim, afterStep, step, stepCore, popString, P.andThen, norm, i0, iN, argInt,
    pushV, ha, hb, hj, hk]

/-- the implicit and explicit conversions: what `emitConversion` emits computes the conversion -/
theorem conversion_int_to_float (o : Oracle) (p : Prog) (inp : Input) (c : Cfg) (hc : norm c.t = c.t) (x : Int)
    (is : List Instr) (h : conversion .int .float = some is) :
    evalE o p inp (.prim is (.cons (litI x) .nil)) c = .ok (pushV (.f64 (o.i2f x)) c) := by
  obtain ⟨t, st, memo⟩ := c
  obtain ⟨pc, m, caps, time, stack, dead⟩ := t
  simp only [norm] at hc
  injection hc with h1 h2
  subst h1 h2
  simp [conversion, Ty.root] at h; subst h
  simp [evalE, evalEs, litI, R.bind, runPrim, afterStep, step, stepCore, popInt, P.andThen, norm, i0, pushV]

theorem conversion_int_to_string (o : Oracle) (p : Prog) (inp : Input) (c : Cfg) (hc : norm c.t = c.t) (x : Int)
    (is : List Instr) (h : conversion .int .str = some is) :
    evalE o p inp (.prim is (.cons (litI x) .nil)) c = .ok (pushV (.str (itoa x)) c) := by
  obtain ⟨t, st, memo⟩ := c
  obtain ⟨pc, m, caps, time, stack, dead⟩ := t
  simp only [norm] at hc
  injection hc with h1 h2
  subst h1 h2
  simp [conversion, Ty.root] at h; subst h
  simp [evalE, evalEs, litI, R.bind, runPrim, afterStep, step, stepCore, popInt, P.andThen, norm, i0, pushV]

/-- a string to an integer: the library's base-10 parse, or the checked conversion error -/
theorem conversion_string_to_int (o : Oracle) (p : Prog) (inp : Input) (c : Cfg) (hc : norm c.t = c.t)
    (k : Nat) (s : Bytes) (hs : p.strs[k]? = some s) (is : List Instr) (h : conversion .str .int = some is) :
    evalE o p inp (.prim is (.cons (litS k) .nil)) c =
      match o.parseInt s 10 with
      | some n => .ok (pushV (.i64 n) c)
      | none => .halt (.err .convFailed) c.st c.memo := by
  obtain ⟨t, st, memo⟩ := c
  obtain ⟨pc, m, caps, time, stack, dead⟩ := t
  simp only [norm] at hc
  injection hc with h1 h2
  subst h1 h2
  simp [conversion, Ty.root] at h; subst h
  have hk : ¬ ((k : Int) < 0) := by omega
  cases hp : o.parseInt s 10 <;>
    simp [evalE, evalEs, litS, R.bind, runPrim, afterStep, step, stepCore, popString, P.andThen, norm, i0, iN, argInt,
      pushV, hs, hp, hk]

/-- comparisons of strings: byte-wise lexicographic order -/
def strCmpMeaning : Op → Bytes → Bytes → Bool
  | .lt, a, b => decide (a < b) | .gt, a, b => decide (b < a) | .le, a, b => !decide (b < a)
  | .ge, a, b => !decide (a < b) | .eq, a, b => decide (a = b) | .ne, a, b => !decide (a = b)
  | _, _, _ => false

theorem string_comparison_table (o : Oracle) (p : Prog) (inp : Input) (c : Cfg) (hc : norm c.t = c.t)
    (j k : Nat) (a b : Bytes) (ha : p.strs[j]? = some a) (hb : p.strs[k]? = some b)
    (op : Op) (arg : Int) (jm : Bool) (h : cmpCode op = some (arg, jm)) :
    evalE o p inp (.cmp (iN .scmp arg) jm (litS j) (litS k)) c = .ok (pushV (.bool (strCmpMeaning op a b)) c) := by
  obtain ⟨t, st, memo⟩ := c
  obtain ⟨pc, m, caps, time, stack, dead⟩ := t
  simp only [norm] at hc
  injection hc with h1 h2
  subst h1 h2
  have hj : ¬ ((j : Int) < 0) := by omega
  have hk : ¬ ((k : Int) < 0) := by omega
  cases op <;> simp [cmpCode] at h <;> obtain ⟨rfl, rfl⟩ := h <;>
    simp [evalE, evalEs, litS, R.bind, runPrim, afterStep, step, stepCore, popString, P.andThen, norm, iN, branch, taken,
      cmpStr, argInt, pushB, pushV, strCmpMeaning, ha, hb, hj, hk]

/-- comparisons of floats are the library's -/
def floatCmpMeaning (o : Oracle) : Op → UInt64 → UInt64 → Bool
  | .lt, a, b => o.fcmp a b (-1) | .gt, a, b => o.fcmp a b 1 | .le, a, b => !o.fcmp a b 1
  | .ge, a, b => !o.fcmp a b (-1) | .eq, a, b => o.fcmp a b 0 | .ne, a, b => !o.fcmp a b 0
  | _, _, _ => false

theorem float_comparison_table (o : Oracle) (p : Prog) (inp : Input) (c : Cfg) (hc : norm c.t = c.t)
    (a b : UInt64) (op : Op) (arg : Int) (jm : Bool) (h : cmpCode op = some (arg, jm)) :
    evalE o p inp (.cmp (iN .fcmp arg) jm (litF a) (litF b)) c = .ok (pushV (.bool (floatCmpMeaning o op a b)) c) := by
  obtain ⟨t, st, memo⟩ := c
  obtain ⟨pc, m, caps, time, stack, dead⟩ := t
  simp only [norm] at hc
  injection hc with h1 h2
  subst h1 h2
  cases op <;> simp [cmpCode] at h <;> obtain ⟨rfl, rfl⟩ := h <;>
    simp [evalE, evalEs, litF, R.bind, runPrim, afterStep, step, stepCore, popFloat, P.andThen, norm, iN, branch, taken,
      cmpFloat, argInt, pushB, pushV, floatCmpMeaning]

/-- short-circuit: when `a` is false, `a && b` is false and `b` is not evaluated (whatever `b`
    is, even an expression that would raise an error); when `a` is true, `a || b` is true -/
theorem and_short_circuits (o : Oracle) (p : Prog) (inp : Input) (a b : E) (c c' : Cfg)
    (h : evalE o p inp a c = .ok (pushB false c')) :
    evalE o p inp (.and a b) c = .ok (pushB false c') := by
  rw [evalE, h]
  obtain ⟨t, st, memo⟩ := c'
  simp [R.bind, branch, pushB, taken]

theorem or_short_circuits (o : Oracle) (p : Prog) (inp : Input) (a b : E) (c c' : Cfg)
    (h : evalE o p inp a c = .ok (pushB true c')) :
    evalE o p inp (.or a b) c = .ok (pushB true c') := by
  rw [evalE, h]
  obtain ⟨t, st, memo⟩ := c'
  simp [R.bind, branch, pushB, taken]


/-! ### the excluded shapes deviate: a concrete program (known finding)

`/1 > 0/ { m0++ }   /0 > 1/ { } else { otherwise { m1++ } }` — by the language reference the
`otherwise` is the first conditional of its block (the `else` block), so it matches and m1 becomes
1; the compiled code leaves the matched register of the enclosing block set, and m1 stays 0. -/

def lit (n : Int) : E := .prim [⟨.push, .i64 n⟩] .nil
def gt (a b : Int) : E := .cmp ⟨.icmp, .int 1⟩ false (lit a) (lit b)
def incr (m : Int) : S := .expr (.prim [⟨.mload, .int m⟩, ⟨.dload, .int 0⟩, ⟨.inc, .none⟩] .nil)

def cex : Ss :=
  .cons (.cond (gt 1 0) (.cons (incr 0) .nil))
    (.cons (.condElse (gt 0 1) .nil (.cons (.otherwise (.cons (incr 1) .nil)) .nil)) .nil)

def o0 : Oracle :=
  { reMatch := fun _ _ => none, parseInt := fun _ _ => none, parseFloat := fun _ => none,
    fadd := fun a _ => a, fsub := fun a _ => a, fmul := fun a _ => a, fdiv := fun a _ => a,
    fmod := fun a _ => a, fpow := fun a _ => a, fcmp := fun _ _ _ => false, i2f := fun _ => 0,
    f2i := fun _ => 0, fmtG := fun _ => [], fmtg := fun _ => [], toLower := id,
    replaceAll := fun v _ _ => v, reReplace := fun _ v _ => v, timeParse := fun _ _ => none, nowSec := 0 }

def p0 : Prog := ⟨emitSs cex 0, [], 0, [⟨0, 0, []⟩, ⟨0, 0, []⟩]⟩
def st0 : MStore := [{ nkeys := 0 }, { nkeys := 0 }]

def valueOf (r : LineResult) (m : Nat) : Option Int :=
  match (r.store[m]?).bind (fun mm => mm.lvs.head?) with
  | some lv => (match lv.value.val with | .int x => some x | _ => none)
  | none => none

example : okSs cex = false := by decide

/-- **The excluded shapes really deviate** (kernel-checked by evaluation of both sides on this
    program): the reference semantics increments m1, the compiled code does not. -/
theorem otherwise_in_else_deviates :
    valueOf (semLine o0 p0 cex ⟨[], []⟩ st0 []) 1 = some 1 ∧
    valueOf (runLine o0 p0 100 ⟨[], []⟩ st0 []) 1 = none ∧
    valueOf (semLine o0 p0 cex ⟨[], []⟩ st0 []) 0 = some 1 ∧
    valueOf (runLine o0 p0 100 ⟨[], []⟩ st0 []) 0 = some 1 := by
  refine ⟨?_, ?_, ?_, ?_⟩ <;> decide +kernel

/-! ### the hypotheses are met by non-trivial programs -/

/-- `1 > 0 && 0 > 1 { m0++ } else { m1++ }   otherwise`-free, nested: inside the class -/
def sample : Ss :=
  .cons (.condElse (.and (gt 1 0) (.or (gt 0 1) (gt 2 1))) (.cons (incr 0) (.cons (.cond (gt 3 2) (.cons (incr 1) .nil)) .nil))
    (.cons (incr 1) .nil)) (.cons (.otherwise (.cons (incr 0) .nil)) .nil)

example : okSs (.cons (.cond (gt 1 0) (.cons (incr 0) (.cons (.otherwise (.cons (incr 1) .nil)) .nil))) .nil) = true := by
  decide
example : okSs (.cons (.condElse (.and (gt 1 0) (.or (gt 0 1) (gt 2 1))) (.cons (incr 0) .nil) (.cons (incr 1) .nil)) .nil) = true := by
  decide

/-! ### regenerated control skeletons (written by lib/wire_skeletons.py) -/
/-- Obligations over regenerated facts: the functions this property's model stands for have the
    control skeleton the model was written against (`Proofs/Skeletons.lean`, one `rfl` per function
    or clause; DESIGN.md §11.6a) -/
theorem line_skeletons : Skeletons.LineShape := Skeletons.line_shape
theorem symbols_skeletons : Skeletons.SymbolsShape := Skeletons.symbols_shape
theorem exec_skeletons : Skeletons.ExecShape := Skeletons.exec_shape
theorem compare_skeletons : Skeletons.CompareShape := Skeletons.compare_shape
theorem codegenBefore_skeletons : Skeletons.CodegenBeforeShape := Skeletons.codegenBefore_shape
theorem codegenAfter_skeletons : Skeletons.CodegenAfterShape := Skeletons.codegenAfter_shape
theorem f_checker_checker_skeletons : Skeletons.F_checker_checkerShape := Skeletons.f_checker_checker_shape
theorem f_codegen_codegen_skeletons : Skeletons.F_codegen_codegenShape := Skeletons.f_codegen_codegen_shape
theorem f_vm_vm_skeletons : Skeletons.F_vm_vmShape := Skeletons.f_vm_vm_shape
theorem f_types_types_skeletons : Skeletons.F_types_typesShape := Skeletons.f_types_types_shape

end MtailVerif.C01
