import MtailVerif.Proofs.ScopeUnused
import MtailVerif.Proofs.Skeletons
/-! # C24 — invalid programs are rejected with a positioned error

    `Scope.check` (Model/Scope.lean) mirrors the checker's symbol handling; regular-expression
    syntax is an oracle.  Proved here: the checker never takes an error back, whatever it visits
    afterwards (`errors_never_retracted`), so one report suffices for rejection; a `next` that is not
    inside a decorator definition is reported for every program and every position it can stand at
    (`next_outside_decorator_rejected`, a statement over all ASTs); so is a pattern written with
    literals whose text is over the length limit or does not parse, wherever in the program it
    stands (`bad_literal_regex_rejected`, also over all ASTs, decorator definitions included); so is
    a name that no declaration of the program introduces, used as an identifier or as a decorator
    (`undeclared_name_rejected`: an invariant of the checker's whole state says nothing can resolve
    the name, whatever was declared, captured by `next` or instantiated before); so is a name that
    two statements of one block declare (`redeclared_name_rejected`: every visit leaves the scope
    stack as it found it, so the first declaration is still there when the second arrives); so is a
    metric, constant or decorator that a block declares and nothing in the program refers to
    (`unused_declaration_rejected`: the symbol stays unmarked and in its block's scope until the
    block is swept); and each of the other defect
    classes is reported by its clause whenever the walk reaches the offending node
    (`*_reported`: the lookup fails / the name is taken / the pattern is too long or does not parse /
    a declaration leaves its scope unused), each with the offending node's or declaration's own
    position.  The tie runs the model on the real parser's AST against the real checker, class and
    position of every scoping error compared, on valid programs and on mutants of every class. -/
namespace MtailVerif.C24
open MtailVerif MtailVerif.Ast MtailVerif.Scope

/-- whatever the checker visits, errors already reported stay reported -/
theorem errors_never_retracted (cfg : Cfg) (n : Node) (s : St) : ∃ more, (walk cfg n s).errors = s.errors ++ more :=
  walk_ext cfg n s

/-- **`next` outside a decorator**: for every program and every place the statement can stand —
    nested blocks, conditions' else branches, decorated blocks, after other errors — the program is
    rejected -/
theorem next_outside_decorator_rejected (cfg : Cfg) (prog : Node) (h : hasNextOutside prog = true) :
    check cfg prog ≠ [] := by
  have := next_fires cfg prog h {} rfl rfl
  unfold check
  intro he
  rw [he] at this
  simp at this

/-- **regular expression over the length limit or not parseable**: for every program and every
    place a pattern expression can stand — conditions, `=~` operands, constant definitions, builtin
    arguments, decorator definitions and decorated blocks, nested to any depth, after any other
    errors — a pattern written with literals (one literal or a concatenation of them) whose text is
    longer than the limit, or that the regular-expression library refuses, makes the checker reject
    the program.  (`cfg.groups` is the library's verdict, an oracle; the limit is a parameter.) -/
theorem bad_literal_regex_rejected (cfg : Cfg) (prog : Node) (h : hasBadRegex cfg prog = true) :
    check cfg prog ≠ [] := by
  have := badRegex_fires cfg prog h {} rfl
  unfold check
  intro he
  rw [he] at this
  simp at this

/-- **undeclared metric / undefined decorator**: a name that no `counter`/`gauge`/… declaration,
    no `const` and no `def` anywhere in the program introduces, used as an identifier in any
    expression or as a decorator on any block — in nested blocks, else branches, decorator
    definitions, decorated blocks (whose scope is a copy of what the definition saw at `next`),
    after any other errors — makes the checker reject the program. -/
theorem undeclared_name_rejected (cfg : Cfg) (prog : Node) (name : String)
    (hd : declares name prog = false) (hm : mentions name prog = true) : check cfg prog ≠ [] := by
  have := undecl_fires cfg name prog hd hm {} rfl (inv_init name)
  unfold check
  intro he
  rw [he] at this
  simp at this

/-- **redeclared name**: two statements of one block — metric declarations, `const`s, `def`s, in
    any combination — that declare the same name make the checker reject the program, whatever
    stands between them and wherever the block is (top level, a condition's block or its else
    branch, a decorator definition, a decorated block). -/
theorem redeclared_name_rejected (cfg : Cfg) (prog : Node) (h : hasDup prog = true) : check cfg prog ≠ [] := by
  have := dup_fires cfg prog h {} rfl
  unfold check
  intro he
  rw [he] at this
  simp at this

/-- **unused declaration**: a metric, a pattern constant or a decorator that some block of the
    program declares — at top level, in a condition's block or else branch, in a decorator
    definition, in a decorated block — and that no identifier and no decorator use anywhere in the
    program names, makes the checker reject the program. -/
theorem unused_declaration_rejected (cfg : Cfg) (prog : Node) (x : String)
    (hd : declaresInBlock x prog = true) (hm : mentions x prog = false) : check cfg prog ≠ [] := by
  have := unused_fires cfg x prog hd hm {} rfl (g_init x)
  unfold check
  intro he
  rw [he] at this
  simp at this

/-- ... and when the walk reaches it (depth limit not hit), the error carries the statement's own position -/
theorem next_outside_position (p : Pos) (s : St) (h : s.decoScopes = []) :
    (doNext p s).errors = s.errors ++ [⟨.nextOutside, some p⟩] := by
  unfold doNext; simp [h, St.err]

/-- **undeclared metric**: an identifier that names neither a metric nor a pattern constant visible
    from the current scope chain is reported at the identifier -/
theorem undeclared_identifier_reported (name : String) (p : Pos) (s : St)
    (h1 : lookup s name .var = none) (h2 : lookup s name .pattern = none) :
    (idK name p s).errors = s.errors ++ [⟨.undeclared, some p⟩] := by
  unfold idK; simp [h1, h2, cut, St.err]

/-- **capture group not defined by a visible pattern** -/
theorem undefined_capref_reported (name : String) (p : Pos) (s : St) (h : lookup s name .capref = none) :
    (capK name p s).errors = s.errors ++ [⟨.undefCapref, some p⟩] := by
  unfold capK; simp [h, cut, St.err]

/-- **undefined decorator** -/
theorem undefined_decorator_reported (name : String) (w : Option Pos) (wb : St → St) (s : St)
    (h : lookup s name .deco = none) :
    (decoK name w wb s).errors = s.errors ++ [⟨.undefDeco, w⟩] := by
  unfold decoK; simp [h, cut, St.err]

/-- **redeclared name**: declaring a name the innermost scope already holds is reported, and the
    scope is left as it was -/
theorem redeclaration_reported (name : String) (k : Kind) (p : Option Pos) (c : Cls) (dp : Option Pos)
    (ok : Sym → St → St) (s : St) (f : Frame) (rest : List Frame) (alt : Nat)
    (hf : s.frames = f :: rest) (ht : frameGet f name = some alt) :
    (declare name k p c dp ok s).errors = s.errors ++ [⟨c, dp⟩] ∧ (declare name k p c dp ok s).frames = s.frames := by
  unfold declare
  have h1 : insertTop (s.newSym name k p).1 name (s.newSym name k p).2.id = ((s.newSym name k p).1, some alt) := by
    unfold insertTop
    simp [St.newSym, hf, ht]
  simp only [h1, Option.isSome_some, if_true]
  exact ⟨by simp [cut, St.err, St.newSym], by simp [cut, St.err, St.newSym]⟩

/-- **regular expression over the length limit** -/
theorem overlong_regex_reported (cfg : Cfg) (s : St) (pat : Bytes) (p : Option Pos) (h : pat.length > cfg.maxRegexLen) :
    (checkRegex cfg s pat p).errors = s.errors ++ [⟨.regexTooLong, p⟩] := by
  unfold checkRegex; simp [h, St.err]

/-- **pattern constant over the length limit**: reported where it is defined, and its text is not
    kept — so constants built from constants cannot double in size from one definition to the next
    (every recorded fragment is within the limit: `recorded_fragments_bounded`) -/
theorem overlong_fragment_reported (cfg : Cfg) (sy : Sym) (e : Node) (s : St) (h1 : (evalPattern cfg.fmtFloat s e).1 ≠ [])
    (h2 : (evalPattern cfg.fmtFloat s e).1.length > cfg.maxRegexLen) :
    (recordPattern cfg sy e s).errors = s.errors ++ (evalPattern cfg.fmtFloat s e).2 ++ [⟨.regexTooLong, sy.pos⟩] ∧
      (recordPattern cfg sy e s).patterns = s.patterns := by
  unfold recordPattern
  have : (evalPattern cfg.fmtFloat s e).1.isEmpty = false := by
    cases h : (evalPattern cfg.fmtFloat s e).1 with
    | nil => exact absurd h h1
    | cons a as => rfl
  simp [this, h2, St.err]

theorem recorded_fragments_bounded (cfg : Cfg) (sy : Sym) (e : Node) (s : St)
    (h : ∀ p ∈ s.patterns, p.2.length ≤ cfg.maxRegexLen) :
    ∀ p ∈ (recordPattern cfg sy e s).patterns, p.2.length ≤ cfg.maxRegexLen := by
  unfold recordPattern
  simp only
  split
  · exact h
  · split
    · exact h
    · next hl =>
      intro p hp
      simp only [List.mem_cons] at hp
      rcases hp with rfl | hp
      · simpa using Nat.le_of_not_lt hl
      · exact h p hp

/-- **invalid regular expression** (whatever the library's syntax is) -/
theorem invalid_regex_reported (cfg : Cfg) (s : St) (pat : Bytes) (p : Option Pos)
    (hl : ¬ pat.length > cfg.maxRegexLen) (h : cfg.groups pat = none) :
    (checkRegex cfg s pat p).errors = s.errors ++ [⟨.regexInvalid, p⟩] := by
  unfold checkRegex; simp [hl, h, St.err]

/-- **unused declaration**: a metric, constant or decorator still unused when its scope is left is
    reported at its declaration -/
theorem unused_declaration_reported (s : St) (key : String) (sy : Sym) (rest : List Frame)
    (hf : s.frames = [(key, sy.id)] :: rest) (hs : s.sym sy.id = some sy) (hu : s.used.contains sy.id = false)
    (hk : sy.kind ≠ .capref) :
    (sweep s).errors = s.errors ++ [⟨.unused sy.kind, sy.pos⟩] := by
  unfold sweep
  have hu' : sy.id ∉ s.used := by simpa using hu
  simp [hf, hs, hu', hk, St.err]

/-- the literal-zero divisor clause of `VisitAfter(BinaryExpr)`: after the implicit conversions the
    right operand is still the literal exactly when no conversion to another type was inserted -/
def divZeroClause (resultTy rhsTy : Ty) (op : Op) (rhs : Node) : Bool :=
  (op == .div || op == .mod) && resultTy == rhsTy &&
    (match rhs with | .int 0 _ => true | _ => false)

/-- **integer division or modulus by the literal 0** -/
theorem literal_zero_divisor_reported (op : Op) (p : Pos) (h : op = .div ∨ op = .mod) :
    divZeroClause .int .int op (.int 0 p) = true := by
  rcases h with rfl | rfl <;> rfl

/-- the clause does not fire for a float division (the literal is wrapped in a conversion) -/
example (p : Pos) : divZeroClause .float .int .div (.int 0 p) = false := rfl

/-! ### non-vacuity -/

def cfg0 : Cfg := { groups := fun _ => some [""] }
def p0 : Pos := ⟨0, 0, 3⟩

/-- `/x/ { next }` is rejected, with the position of `next` -/
example : check cfg0 (.stmts (.cons (.cond (.un .match (.patexpr (.patlit [120] p0) []) p0 .unk)
    (.stmts (.cons (.next ⟨1, 2, 5⟩) .nil)) .nil) .nil)) = [⟨.nextOutside, some ⟨1, 2, 5⟩⟩] := by decide

/-- an over-long literal in a condition deep inside a decorator definition is seen by `hasBadRegex` -/
example : hasBadRegex { cfg0 with maxRegexLen := 2 } (.stmts (.cons (.decodecl "d" (.stmts (.cons (.cond
    (.un .match (.patexpr (.patlit [120, 121, 122] p0) []) p0 .unk)
    (.stmts (.cons (.next ⟨1, 2, 5⟩) .nil)) .nil) .nil)) p0) .nil)) = true := by decide

/-- `counter a` / `/x/ { zz++ }`: `zz` is declared nowhere and mentioned, and the model reports it
    (with the unused `a`) -/
example : declares "zz" (.stmts (.cons (.decl { kind := 1, name := "a", hidden := false, exported := "", keys := [], limit := 0, buckets := [] } p0)
      (.cons (.cond (.un .match (.patexpr (.patlit [120] p0) []) p0 .unk)
        (.stmts (.cons (.un .inc (.id "zz" ⟨1, 2, 3⟩ .unk) p0 .unk) .nil)) .nil) .nil))) = false ∧
    mentions "zz" (.stmts (.cons (.decl { kind := 1, name := "a", hidden := false, exported := "", keys := [], limit := 0, buckets := [] } p0)
      (.cons (.cond (.un .match (.patexpr (.patlit [120] p0) []) p0 .unk)
        (.stmts (.cons (.un .inc (.id "zz" ⟨1, 2, 3⟩ .unk) p0 .unk) .nil)) .nil) .nil))) = true ∧
    (check cfg0 (.stmts (.cons (.decl { kind := 1, name := "a", hidden := false, exported := "", keys := [], limit := 0, buckets := [] } p0)
      (.cons (.cond (.un .match (.patexpr (.patlit [120] p0) []) p0 .unk)
        (.stmts (.cons (.un .inc (.id "zz" ⟨1, 2, 3⟩ .unk) p0 .unk) .nil)) .nil) .nil)))).map (·.cls) = [.undeclared, .unused .var] := by
  refine ⟨by decide, by decide, by decide⟩

/-- `counter a` / `a++` / `const a /x/`: the block declares `a` twice, across kinds -/
example : hasDup (.stmts (.cons (.decl { kind := 1, name := "a", hidden := false, exported := "", keys := [], limit := 0, buckets := [] } p0)
    (.cons (.un .inc (.id "a" p0 .unk) p0 .unk) (.cons (.const (.id "a" ⟨2, 6, 6⟩ .unk) (.patexpr (.patlit [120] p0) []) []) .nil)))) = true ∧
  (check cfg0 (.stmts (.cons (.decl { kind := 1, name := "a", hidden := false, exported := "", keys := [], limit := 0, buckets := [] } p0)
    (.cons (.un .inc (.id "a" p0 .unk) p0 .unk) (.cons (.const (.id "a" ⟨2, 6, 6⟩ .unk) (.patexpr (.patlit [120] p0) []) []) .nil))))).map (·.cls) = [.redeclConst] := by
  refine ⟨by decide, by decide⟩

/-- `/x/ { counter inner }`: declared in a nested block, referred to nowhere -/
example : declaresInBlock "inner" (.stmts (.cons (.cond (.un .match (.patexpr (.patlit [120] p0) []) p0 .unk)
      (.stmts (.cons (.decl { kind := 1, name := "inner", hidden := false, exported := "", keys := [], limit := 0, buckets := [] } ⟨1, 2, 14⟩) .nil)) .nil) .nil)) = true ∧
    mentions "inner" (.stmts (.cons (.cond (.un .match (.patexpr (.patlit [120] p0) []) p0 .unk)
      (.stmts (.cons (.decl { kind := 1, name := "inner", hidden := false, exported := "", keys := [], limit := 0, buckets := [] } ⟨1, 2, 14⟩) .nil)) .nil) .nil)) = false ∧
    check cfg0 (.stmts (.cons (.cond (.un .match (.patexpr (.patlit [120] p0) []) p0 .unk)
      (.stmts (.cons (.decl { kind := 1, name := "inner", hidden := false, exported := "", keys := [], limit := 0, buckets := [] } ⟨1, 2, 14⟩) .nil)) .nil) .nil)) =
      [⟨.unused .var, some ⟨1, 2, 14⟩⟩] := by
  refine ⟨by decide, by decide, by decide⟩

/-- the same `next` inside a decorator definition is fine, and the decorated block sees `$0` -/
example : check cfg0 (.stmts (.cons (.decodecl "d" (.stmts (.cons (.cond (.un .match (.patexpr (.patlit [120] p0) []) p0 .unk)
    (.stmts (.cons (.next ⟨1, 2, 5⟩) .nil)) .nil) .nil)) p0)
    (.cons (.deco "d" (.stmts (.cons (.cap "0" false p0 .unk) .nil)) p0) .nil))) = [] := by decide

/-! ### regenerated control skeletons (written by lib/wire_skeletons.py) -/
/-- Obligations over regenerated facts: the functions this property's model stands for have the
    control skeleton the model was written against (`Proofs/Skeletons.lean`, one `rfl` per function
    or clause; DESIGN.md §11.6a) -/
theorem symbols_skeletons : Skeletons.SymbolsShape := Skeletons.symbols_shape
theorem checkerBefore_skeletons : Skeletons.CheckerBeforeShape := Skeletons.checkerBefore_shape
theorem checkerAfter_skeletons : Skeletons.CheckerAfterShape := Skeletons.checkerAfter_shape
theorem patternEval_skeletons : Skeletons.PatternEvalShape := Skeletons.patternEval_shape
theorem optBefore_skeletons : Skeletons.OptBeforeShape := Skeletons.optBefore_shape
theorem optAfter_skeletons : Skeletons.OptAfterShape := Skeletons.optAfter_shape
theorem f_checker_checker_skeletons : Skeletons.F_checker_checkerShape := Skeletons.f_checker_checker_shape
theorem f_runtime_runtime_skeletons : Skeletons.F_runtime_runtimeShape := Skeletons.f_runtime_runtime_shape
theorem f_symbol_symtab_skeletons : Skeletons.F_symbol_symtabShape := Skeletons.f_symbol_symtab_shape
theorem f_ast_ast_skeletons : Skeletons.F_ast_astShape := Skeletons.f_ast_ast_shape
theorem f_ast_walk_skeletons : Skeletons.F_ast_walkShape := Skeletons.f_ast_walk_shape
theorem f_position_position_skeletons : Skeletons.F_position_positionShape := Skeletons.f_position_position_shape

end MtailVerif.C24
