import MtailVerif.Model.Fold
import MtailVerif.Generated.Fold
import MtailVerif.Proofs.Skeletons
/-! # C02 — Constant folding never changes a program's results -/
namespace MtailVerif.C02
open MtailVerif.Fold
variable {F : Type}

/-- Obligation over regenerated facts: the `IntLit % FloatLit` case assigns the result to the node
    it returns, and the folder has exactly the twenty-four arithmetic cases the model encodes. -/
theorem fold_source_shape :
    Generated.Fold.intModFloatAssignsResult = true ∧ Generated.Fold.cases = [
      "BinaryExpr/IntLit/IntLit/PLUS: r.I = lhs.I + rhs.I",
      "BinaryExpr/IntLit/IntLit/MINUS: r.I = lhs.I - rhs.I",
      "BinaryExpr/IntLit/IntLit/MUL: r.I = lhs.I * rhs.I",
      "BinaryExpr/IntLit/IntLit/DIV: r.I = lhs.I / rhs.I",
      "BinaryExpr/IntLit/IntLit/MOD: r.I = lhs.I % rhs.I",
      "BinaryExpr/IntLit/IntLit/POW: r.I = int64(math.Pow(float64(lhs.I), float64(rhs.I)))",
      "BinaryExpr/IntLit/FloatLit/PLUS: r.F = float64(lhs.I) + rhs.F",
      "BinaryExpr/IntLit/FloatLit/MINUS: r.F = float64(lhs.I) - rhs.F",
      "BinaryExpr/IntLit/FloatLit/MUL: r.F = float64(lhs.I) * rhs.F",
      "BinaryExpr/IntLit/FloatLit/DIV: r.F = float64(lhs.I) / rhs.F",
      "BinaryExpr/IntLit/FloatLit/MOD: r.F = math.Mod(float64(lhs.I), rhs.F)",
      "BinaryExpr/IntLit/FloatLit/POW: r.F = math.Pow(float64(lhs.I), rhs.F)",
      "BinaryExpr/FloatLit/IntLit/PLUS: r.F = lhs.F + float64(rhs.I)",
      "BinaryExpr/FloatLit/IntLit/MINUS: r.F = lhs.F - float64(rhs.I)",
      "BinaryExpr/FloatLit/IntLit/MUL: r.F = lhs.F * float64(rhs.I)",
      "BinaryExpr/FloatLit/IntLit/DIV: r.F = lhs.F / float64(rhs.I)",
      "BinaryExpr/FloatLit/IntLit/MOD: r.F = math.Mod(lhs.F, float64(rhs.I))",
      "BinaryExpr/FloatLit/IntLit/POW: r.F = math.Pow(lhs.F, float64(rhs.I))",
      "BinaryExpr/FloatLit/FloatLit/PLUS: r.F = lhs.F + rhs.F",
      "BinaryExpr/FloatLit/FloatLit/MINUS: r.F = lhs.F - rhs.F",
      "BinaryExpr/FloatLit/FloatLit/MUL: r.F = lhs.F * rhs.F",
      "BinaryExpr/FloatLit/FloatLit/DIV: r.F = lhs.F / rhs.F",
      "BinaryExpr/FloatLit/FloatLit/MOD: r.F = math.Mod(lhs.F, rhs.F)",
      "BinaryExpr/FloatLit/FloatLit/POW: r.F = math.Pow(lhs.F, rhs.F)"] := by decide

theorem foldNode_sound (o : FOps F) (zero : F) (env : Env F) (op : Op) (a b r : E F)
    (h : foldNode o zero true op a b = .ok r) : eval o env r = eval o env (.bin op a b) := by
  cases a with
  | int x =>
    cases b with
    | int y =>
      simp only [foldNode] at h
      by_cases h1 : op = .div ∧ y = 0
      · simp [h1] at h
      · by_cases h2 : op = .mod ∧ y = 0
        · simp [h1, h2] at h
        · simp only [h1, h2, if_false] at h
          cases h
          have : ¬ ((op = .div ∨ op = .mod) ∧ y = 0) := by
            rintro ⟨h3 | h3, h4⟩
            · exact h1 ⟨h3, h4⟩
            · exact h2 ⟨h3, h4⟩
          simp [eval, this]
    | float y =>
      simp only [foldNode] at h
      by_cases h1 : op = .div ∧ o.isZero y = true
      · simp [h1] at h
      · by_cases h2 : op = .mod ∧ o.isZero y = true
        · simp [h1, h2] at h
        · simp only [h1, h2, if_false, Bool.not_true, Bool.false_eq_true, and_false] at h
          cases h; simp [eval]
    | ivar k => simp only [foldNode] at h; cases h; rfl
    | fvar k => simp only [foldNode] at h; cases h; rfl
    | bin op' c d => simp only [foldNode] at h; cases h; rfl
  | float x =>
    cases b with
    | int y =>
      simp only [foldNode] at h
      by_cases h1 : op = .div ∧ y = 0
      · simp [h1] at h
      · by_cases h2 : op = .mod ∧ y = 0
        · simp [h1, h2] at h
        · simp only [h1, h2, if_false] at h
          cases h; simp [eval]
    | float y =>
      simp only [foldNode] at h
      by_cases h1 : op = .div ∧ o.isZero y = true
      · simp [h1] at h
      · by_cases h2 : op = .mod ∧ o.isZero y = true
        · simp [h1, h2] at h
        · simp only [h1, h2, if_false] at h
          cases h; simp [eval]
    | ivar k => simp only [foldNode] at h; cases h; rfl
    | fvar k => simp only [foldNode] at h; cases h; rfl
    | bin op' c d => simp only [foldNode] at h; cases h; rfl
  | ivar k => simp only [foldNode] at h; cases h; rfl
  | fvar k => simp only [foldNode] at h; cases h; rfl
  | bin op' c d => simp only [foldNode] at h; cases h; rfl

/-- C02 (results): whenever the folder accepts an expression, the folded expression evaluates —
    for every environment, with the VM's typing, wrapping and runtime-error rule, and for any
    float arithmetic — to exactly what the original evaluates to (same value or same error) -/
theorem fold_preserves_typed_eval (o : FOps F) (zero : F) (env : Env F) (e e' : E F)
    (h : fold o zero true e = .ok e') : eval o env e' = eval o env e := by
  induction e generalizing e' with
  | int i => simp [fold] at h; subst h; rfl
  | float f => simp [fold] at h; subst h; rfl
  | ivar k => simp [fold] at h; subst h; rfl
  | fvar k => simp [fold] at h; subst h; rfl
  | bin op a b iha ihb =>
    simp only [fold] at h
    cases ha : fold o zero true a with
    | error e => simp [ha] at h
    | ok a' =>
      cases hb : fold o zero true b with
      | error e => simp [ha, hb] at h
      | ok b' =>
        simp only [ha, hb] at h
        rw [foldNode_sound o zero env op a' b' e' h]
        simp only [eval, iha a' ha, ihb b' hb]

/-- a literal divisor that is zero -/
def zeroLit (o : FOps F) : E F → Bool
  | .int 0 => true
  | .float f => o.isZero f
  | _ => false

/-- does the expression contain `x / c` or `x % c` whose divisor folds to a literal zero? -/
def hasZeroDivisor (o : FOps F) (zero : F) : E F → Bool
  | .bin op a b =>
    hasZeroDivisor o zero a || hasZeroDivisor o zero b ||
    ((op = .div || op = .mod) && (match fold o zero true b with | .ok b' => zeroLit o b' | .error _ => false))
  | _ => false

/-- C02 (rejection): the folder rejects a program only for a division or modulus whose divisor
    is (after folding) the literal zero -/
theorem foldNode_error (o : FOps F) (zero : F) (op : Op) (a b : E F) (err : FoldErr)
    (h : foldNode o zero true op a b = .error err) : (op = .div ∨ op = .mod) ∧ zeroLit o b = true := by
  cases a with
  | int x =>
    cases b with
    | int y =>
      simp only [foldNode] at h
      by_cases h1 : op = .div ∧ y = 0
      · exact ⟨Or.inl h1.1, by simp [zeroLit, h1.2]⟩
      · by_cases h2 : op = .mod ∧ y = 0
        · exact ⟨Or.inr h2.1, by simp [zeroLit, h2.2]⟩
        · simp [h1, h2] at h
    | float y =>
      simp only [foldNode] at h
      by_cases h1 : op = .div ∧ o.isZero y = true
      · exact ⟨Or.inl h1.1, by simp [zeroLit, h1.2]⟩
      · by_cases h2 : op = .mod ∧ o.isZero y = true
        · exact ⟨Or.inr h2.1, by simp [zeroLit, h2.2]⟩
        · simp [h1, h2] at h
    | ivar k => simp [foldNode] at h
    | fvar k => simp [foldNode] at h
    | bin op' c d => simp [foldNode] at h
  | float x =>
    cases b with
    | int y =>
      simp only [foldNode] at h
      by_cases h1 : op = .div ∧ y = 0
      · exact ⟨Or.inl h1.1, by simp [zeroLit, h1.2]⟩
      · by_cases h2 : op = .mod ∧ y = 0
        · exact ⟨Or.inr h2.1, by simp [zeroLit, h2.2]⟩
        · simp [h1, h2] at h
    | float y =>
      simp only [foldNode] at h
      by_cases h1 : op = .div ∧ o.isZero y = true
      · exact ⟨Or.inl h1.1, by simp [zeroLit, h1.2]⟩
      · by_cases h2 : op = .mod ∧ o.isZero y = true
        · exact ⟨Or.inr h2.1, by simp [zeroLit, h2.2]⟩
        · simp [h1, h2] at h
    | ivar k => simp [foldNode] at h
    | fvar k => simp [foldNode] at h
    | bin op' c d => simp [foldNode] at h
  | ivar k => simp [foldNode] at h
  | fvar k => simp [foldNode] at h
  | bin op' c d => simp [foldNode] at h

theorem fold_reject_only_zero_divisor (o : FOps F) (zero : F) (e : E F) (err : FoldErr)
    (h : fold o zero true e = .error err) : hasZeroDivisor o zero e = true := by
  induction e generalizing err with
  | int i => simp [fold] at h
  | float f => simp [fold] at h
  | ivar k => simp [fold] at h
  | fvar k => simp [fold] at h
  | bin op a b iha ihb =>
    simp only [fold] at h
    simp only [hasZeroDivisor, Bool.or_eq_true]
    cases ha : fold o zero true a with
    | error e => left; left; exact iha e ha
    | ok a' =>
      cases hb : fold o zero true b with
      | error e => left; right; exact ihb e hb
      | ok b' =>
        right
        simp only [ha, hb] at h
        obtain ⟨h1, h2⟩ := foldNode_error o zero op a' b' err h
        simp only [Bool.and_eq_true, Bool.or_eq_true, decide_eq_true_eq]
        exact ⟨h1, h2⟩

/-- non-vacuity and the pre-repair behaviour: `7 % 2.0` folds to `mod 7.0 2.0` with the repaired
    folder and to `0.0` with the unrepaired one (floats as integers for this example) -/
def toyOps : FOps Int :=
  ⟨(· + ·), (· - ·), (· * ·), Int.tdiv, Int.tmod, fun a b => a ^ b.toNat, id, id, (· == 0)⟩
example : (fold toyOps 0 true (.bin .mod (.int 7) (.float 2))).toOption.map (eval toyOps ⟨fun _ => 0, fun _ => 0⟩ ·)
    = some (some (.f 1)) := by decide
example : (fold toyOps 0 false (.bin .mod (.int 7) (.float 2))).toOption.map (eval toyOps ⟨fun _ => 0, fun _ => 0⟩ ·)
    = some (some (.f 0)) := by decide

/-! ### regenerated control skeletons (written by lib/wire_skeletons.py) -/
/-- Obligations over regenerated facts: the functions this property's model stands for have the
    control skeleton the model was written against (`Proofs/Skeletons.lean`, one `rfl` per function
    or clause; DESIGN.md §11.6a) -/
theorem exec_skeletons : Skeletons.ExecShape := Skeletons.exec_shape
theorem compare_skeletons : Skeletons.CompareShape := Skeletons.compare_shape
theorem checkerAfter_skeletons : Skeletons.CheckerAfterShape := Skeletons.checkerAfter_shape
theorem optBefore_skeletons : Skeletons.OptBeforeShape := Skeletons.optBefore_shape
theorem optAfter_skeletons : Skeletons.OptAfterShape := Skeletons.optAfter_shape
theorem f_vm_vm_skeletons : Skeletons.F_vm_vmShape := Skeletons.f_vm_vm_shape
theorem f_opt_opt_skeletons : Skeletons.F_opt_optShape := Skeletons.f_opt_opt_shape
theorem f_compiler_compiler_skeletons : Skeletons.F_compiler_compilerShape := Skeletons.f_compiler_compiler_shape

end MtailVerif.C02
