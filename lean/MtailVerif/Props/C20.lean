import MtailVerif.Proofs.Reload
import MtailVerif.Proofs.Skeletons
import MtailVerif.Proofs.DispatchRace
/-! # C20 — lines reach each program in order, exactly once, across reloads

    Partial by nature: the theorems quantify over every schedule of the transition system of
    Model/Reload.lean (one action per hand-off the Go code performs); the Go scheduler itself is
    sampled through the build-tagged hook at the start of `ProcessLogLine`. -/
namespace MtailVerif.C20
open MtailVerif.Reload

/-- nothing in flight: the fan-out holds no line and no VM holds one -/
def Quiescent (s : St) : Prop := s.pending = none ∧ inflight s = []

/-- **arrival order**: in every reachable state of the draining protocol the lines whose effects
    have been applied are a prefix of the arrival sequence — same order, no line skipped, none twice -/
theorem effects_in_arrival_order (as : List Act) (s : St) (h : run true {} as = some s) :
    s.applied <+: s.taken := by
  have hi := inv_run inv_init as h
  exact ⟨inflight s ++ s.pending.toList, by rw [hi.order]; simp⟩

/-- **exactly one version per line**: the lines VMs have started are exactly the applied ones plus
    the one in flight, in arrival order; with distinct lines no line is ever started twice (never by
    both versions) -/
theorem each_line_started_once (as : List Act) (s : St) (h : run true {} as = some s)
    (hd : s.taken.Nodup) : (s.started.map (·.1)).Nodup ∧ s.started.map (·.1) <+: s.taken := by
  have hi := inv_run inv_init as h
  have hp : s.started.map (·.1) <+: s.taken := ⟨s.pending.toList, by rw [hi.log, hi.order]⟩
  exact ⟨hp.sublist.nodup hd, hp⟩

/-- ... and never by neither: once nothing is in flight every line that arrived has been started
    and applied, in arrival order -/
theorem quiescent_all_applied (as : List Act) (s : St) (h : run true {} as = some s) (hq : Quiescent s) :
    s.applied = s.taken ∧ s.started.map (·.1) = s.taken := by
  have hi := inv_run inv_init as h
  obtain ⟨hp, hf⟩ := hq
  have h1 := hi.order
  have h2 := hi.log
  rw [hf, hp] at h1
  rw [hf] at h2
  simp at h1 h2
  exact ⟨h1.symm, by rw [h2, h1]⟩

/-- so the last write a gauge sees is that of the last line -/
theorem last_write_is_last_line (as : List Act) (s : St) (h : run true {} as = some s) (hq : Quiescent s) :
    s.applied.getLast? = s.taken.getLast? := by
  rw [(quiescent_all_applied as s h hq).1]

/-- at most one VM of the program holds a line at any time -/
theorem only_current_vm_busy (as : List Act) (s : St) (h : run true {} as = some s) :
    ∀ v ∈ s.vms.tail, v.cur = none :=
  (inv_run inv_init as h).oldIdle

/-- why the swap must wait: without the wait this schedule — line 2 handed to the old VM, reload,
    line 3 handed to the new VM and finished, then the old VM finishes line 2 — applies 2 after 3 -/
theorem swap_without_wait_reorders :
    (run false {} [.beginSwap, .endSwap, .take 2, .hand, .beginSwap, .endSwap, .take 3, .hand, .finish 2,
        .finish 1]).map (fun s => (s.pending, inflight s, s.taken, s.applied)) =
      some (none, [], [2, 3], [3, 2]) := by decide

/-- the same schedule is not a schedule of the draining protocol (the swap is not enabled) -/
theorem that_schedule_is_excluded :
    run true {} [.beginSwap, .endSwap, .take 2, .hand, .beginSwap, .endSwap] = none := by decide

/-- regenerated from runtime.go: the swap waits for the old VM, under the write lock, and the
    fan-out keeps the read lock across its sends -/
theorem source_shape :
    Generated.Reload.swapBlock = ["close(handle.lines)", "<-handle.done"] ∧
    Generated.Reload.swapWaitsForOldVM = true ∧ Generated.Reload.swapUnderWriteLock = true ∧
    Generated.Reload.fanoutHoldsReadLockAcrossSends = true := by decide

/-- non-vacuity: a schedule with a reload in the middle of a line reaches a quiescent state -/
example : (run true {} [.beginSwap, .endSwap, .take 1, .hand, .beginSwap, .take 2, .finish 1, .endSwap, .hand,
    .finish 2]).map (fun s => (s.applied, s.started)) = some ([1, 2], [(1, 1), (2, 2)]) := by decide

/-! ### the dispatcher's lock (Model/DispatchRace.lean) -/
/-- Obligation over a regenerated fact, and what it is for: `runtime.New`'s dispatcher holds the
    handle table's read lock from reading a program's channel to the end of the send (the fact),
    and under that discipline no schedule of the dispatcher's and any number of loaders' steps
    sends a line on a closed channel, or to a generation other than the installed one. -/
theorem dispatcher_sends_under_lock :
    Generated.Reload.fanoutHoldsReadLockAcrossSends = true ∧
      (∀ as : List DispatchRace.Act, (DispatchRace.run true {} as).bad = false) ∧
      (∀ as : List DispatchRace.Act, ∀ g ∈ (DispatchRace.run true {} as).sent, g ≤ (DispatchRace.run true {} as).gen) :=
  ⟨by decide, DispatchRace.send_under_lock_never_on_closed, DispatchRace.send_under_lock_to_installed⟩

/-- a dispatcher that copies the channels under the lock and sends after releasing it: the loader
    gets in between and the line goes to a closed channel (a panic that ends the process) -/
theorem sending_after_unlock_is_unsafe :
    (DispatchRace.run false {} [.dLock, .dSnap, .dUnlock, .lLock, .lSwap, .lUnlock, .dSend]).bad = true :=
  DispatchRace.send_after_unlock_hits_closed

/-! ### regenerated control skeletons (written by lib/wire_skeletons.py) -/
/-- Obligations over regenerated facts: the functions this property's model stands for have the
    control skeleton the model was written against (`Proofs/Skeletons.lean`, one `rfl` per function
    or clause; DESIGN.md §11.6a) -/
theorem loader_skeletons : Skeletons.LoaderShape := Skeletons.loader_shape
theorem line_skeletons : Skeletons.LineShape := Skeletons.line_shape
theorem dispatch_skeletons : Skeletons.DispatchShape := Skeletons.dispatch_shape
theorem f_vm_vm_skeletons : Skeletons.F_vm_vmShape := Skeletons.f_vm_vm_shape
theorem f_runtime_runtime_skeletons : Skeletons.F_runtime_runtimeShape := Skeletons.f_runtime_runtime_shape

end MtailVerif.C20
