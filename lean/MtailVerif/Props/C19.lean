import MtailVerif.Proofs.Pipeline
import MtailVerif.Proofs.Witness
import MtailVerif.Proofs.Skeletons
/-! # C19 — One-shot runs process every line once and then terminate

    Partial by nature: the theorems quantify over all schedules of the transition system in
    `Model/Pipeline.lean`; the real Go scheduler is only sampled by the correspondence runs. -/
namespace MtailVerif.C19
open MtailVerif MtailVerif.Pipeline

/-- a schedule: a list of actions, each enabled when taken -/
def runSched (s : St) : List Act → Option St
  | [] => some s
  | a :: rest => if enabled s a then runSched (step s a) rest else none

/-- every state reached by any schedule satisfies the invariant -/
theorem reachable_inv (files : List (List Bytes)) (nvm : Nat) (sched : List Act) (s : St)
    (h : runSched (init files nvm) sched = some s) : Inv files s := by
  have : ∀ (sched : List Act) (s0 : St), Inv files s0 → runSched s0 sched = some s → Inv files s := by
    intro sched
    induction sched with
    | nil => intro s0 h0 hr; simp [runSched] at hr; subst hr; exact h0
    | cons a rest ih =>
      intro s0 h0 hr
      simp only [runSched] at hr
      split at hr
      · rename_i he; exact ih _ (inv_step files s0 h0 a he) hr
      · cases hr
  exact this sched _ (inv_init files nvm) h

/-- C19 (termination): no reachable state is stuck before the end, and every action strictly
    decreases a natural-number measure — so every schedule reaches the final state, after at most
    `measure (init …)` actions -/
theorem oneshot_terminates (files : List (List Bytes)) (nvm : Nat) (sched : List Act) (s : St)
    (h : runSched (init files nvm) sched = some s) :
    (final s = false → ∃ a, enabled s a = true) ∧
    (∀ a, enabled s a = true → measure (step s a) < measure s) :=
  have hi := reachable_inv files nvm sched s h
  ⟨progress s hi.behind, fun a he => measure_decreases s hi.behind a he⟩

/-- C19 (exactly once, in file order): in the final state the lines that reached the programs are
    an interleaving of the files that keeps every file's order — each line of each file exactly
    once — and every VM has processed all of them, in that arrival order -/
theorem each_line_once_per_program (files : List (List Bytes)) (nvm : Nat) (sched : List Act) (s : St)
    (h : runSched (init files nvm) sched = some s) (hf : final s = true) :
    (∀ i, i < files.length → projFile i s.arrived = (files[i]?.getD [])) ∧
    (∀ d ∈ s.done, d = s.arrived.length) :=
  final_complete files s (reachable_inv files nvm sched s h) hf

/-- hence the order-witness program ends, for every schedule, with the same per-file results as
    running it over each file alone: all lines counted, the last number remembered, nothing out of
    order (the numbers of a file being strictly increasing) -/
theorem witness_result_schedule_independent (g : List (Nat × Nat)) (i : Nat) (ns : List Nat)
    (hproj : (g.filter (·.1 = i)).map (·.2) = ns) (hinc : (0 :: ns).Pairwise (· < ·)) :
    Witness.get (Witness.runW g) i = { count := ns.length, last := ns.getLast?.getD 0, ooo := 0 } := by
  unfold Witness.runW
  rw [Witness.runW_proj g i [], hproj]
  have := Witness.runOne_increasing ns {} (by simpa using hinc)
  simpa [Witness.get] using this

/-- non-vacuity: two files, two VMs, one complete schedule -/
example : (runSched (init [[[97]], [[98], [99]]] 2)
    [.emit 1, .process 0, .emit 0, .process 1, .process 1, .emit 1, .process 0, .process 0, .process 1]).map
      (fun s => (final s, s.arrived)) = some (true, [(1, [98]), (0, [97]), (1, [99])]) := by decide

/-! ### regenerated control skeletons (written by lib/wire_skeletons.py) -/
/-- Obligations over regenerated facts: the functions this property's model stands for have the
    control skeleton the model was written against (`Proofs/Skeletons.lean`, one `rfl` per function
    or clause; DESIGN.md §11.6a) -/
theorem streams_skeletons : Skeletons.StreamsShape := Skeletons.streams_shape
theorem line_skeletons : Skeletons.LineShape := Skeletons.line_shape
theorem dispatch_skeletons : Skeletons.DispatchShape := Skeletons.dispatch_shape
theorem f_vm_vm_skeletons : Skeletons.F_vm_vmShape := Skeletons.f_vm_vm_shape
theorem f_runtime_runtime_skeletons : Skeletons.F_runtime_runtimeShape := Skeletons.f_runtime_runtime_shape
theorem f_mtail_mtail_skeletons : Skeletons.F_mtail_mtailShape := Skeletons.f_mtail_mtail_shape
theorem f_logstream_filestream_skeletons : Skeletons.F_logstream_filestreamShape := Skeletons.f_logstream_filestream_shape
theorem f_tailer_tail_skeletons : Skeletons.F_tailer_tailShape := Skeletons.f_tailer_tail_shape
theorem f_logstream_logstream_skeletons : Skeletons.F_logstream_logstreamShape := Skeletons.f_logstream_logstream_shape

end MtailVerif.C19
