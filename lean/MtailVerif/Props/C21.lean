import MtailVerif.Proofs.Buckets
import MtailVerif.Generated.VM
import MtailVerif.Proofs.Skeletons
/-! # C21 — Histograms count every observation in exactly one bucket -/
namespace MtailVerif.C21
open MtailVerif.Buckets
variable {S : Type}

/-- Obligations over regenerated facts: the comparison and fall-through in `Observe`, and the
    first-boundary test of the code generator, are the ones the model encodes. -/
theorem observe_shape :
    Generated.Buckets.observeCond = "v <= b.Range.Max || i == n" ∧
    Generated.Buckets.observeLastIdx = "len(d.Buckets) - 1" ∧
    Generated.Buckets.observeBreaks = true ∧
    Generated.Buckets.observeCountIncs = 1 := by decide

theorem decl_shape :
    Generated.Buckets.declFirstCond = "n.Buckets[0] > 0" ∧
    Generated.Buckets.declSortedCond = "max <= min" := by decide

/-- a histogram datum as created for a declaration with the given boundaries -/
def fresh (s0 : S) (decl : List FV) : Option (B S) := (rangesOfDecl decl).map (make s0)

/-- every observation increments exactly one bucket, by one: the bucket at `target`, which is
    the first whose upper bound is at least the value, or the last bucket when there is none;
    every other bucket keeps its count and every bucket keeps its range -/
theorem observe_exactly_one_bucket (add : S → FV → S) (d : B S) (v : FV) (j : Nat) :
    (observe add d v).buckets[j]? =
      (d.buckets[j]?).map (fun p => if j = target v d.buckets then (p.1, p.2 + 1) else p) := by
  simp only [observe, bump_eq_incAt, incAt_get]

theorem target_is_first_fitting (d : B S) (v : FV) (hne : d.buckets ≠ []) :
    target v d.buckets < d.buckets.length ∧
    (∀ j < target v d.buckets, ∃ p, d.buckets[j]? = some p ∧ le v p.1.max = false) ∧
    ((∃ p, d.buckets[target v d.buckets]? = some p ∧ le v p.1.max = true) ∨
      target v d.buckets = d.buckets.length - 1) :=
  ⟨target_lt v _ hne, target_first v _, target_hit v _ hne⟩

/-- NaN goes to the last bucket -/
theorem nan_goes_to_last (d : B S) : target .nan d.buckets = d.buckets.length - 1 :=
  target_last_of_all_false .nan _ (fun _ _ => rfl)

/-- a value above every bound goes to the last bucket -/
theorem above_all_goes_to_last (d : B S) (v : FV) (h : ∀ p ∈ d.buckets, le v p.1.max = false) :
    target v d.buckets = d.buckets.length - 1 :=
  target_last_of_all_false v _ h

/-- for a declared histogram the last bucket is the +Inf bucket, and no extra bucket is added -/
theorem declared_last_is_inf (s0 : S) (decl : List FV) (d : B S) (h : fresh s0 decl = some d) :
    (d.buckets.map (·.1.max)).getLast? = some pinf := by
  unfold fresh at h
  simp only [Option.map_eq_some_iff] at h
  obtain ⟨rs, hrs, rfl⟩ := h
  have hmax : (rs.map (·.max)).getLast? = some pinf := by
    unfold rangesOfDecl at hrs
    split at hrs
    · simp at hrs
    · simp at hrs
    · rename_i b0 rest hne
      simp only [Option.map_eq_some_iff] at hrs
      obtain ⟨rs', hrs', rfl⟩ := hrs
      have := rangesTail_maxes b0 rest rs' hrs'
      split
      · simp only [List.map_cons, this]
        rw [← List.cons_append, List.getLast?_append]; simp
      · simp [this]
  have hany : rs.any (fun r => isPInf r.max) = true := by
    rw [List.getLast?_eq_some_iff] at hmax
    obtain ⟨pre, hpre⟩ := hmax
    have : pinf ∈ rs.map (·.max) := by rw [hpre]; simp
    simp only [List.mem_map] at this
    obtain ⟨r, hr, hrm⟩ := this
    simp only [List.any_eq_true]
    exact ⟨r, hr, by simp [isPInf, hrm]⟩
  simp only [make, hany, if_true, List.map_map, Function.comp_def]
  simpa using hmax

/-- bucket counts always sum to the observation count, and the sum is the fold of the
    observed values — for every declaration and every observation sequence -/
theorem sum_buckets_eq_count (add : S → FV → S) (s0 : S) (ranges : List Range) (vs : List FV) :
    let d := observeAll add (make s0 ranges) vs
    total d.buckets = d.count ∧ d.count = vs.length ∧ d.sum = vs.foldl add s0 := by
  have := observeAll_inv add (make s0 ranges) vs (make_nonempty s0 ranges) (make_total s0 ranges)
  simpa [make] using this

/-- exported upper bounds = declared boundaries plus +Inf, when the first boundary is > 0 -/
theorem exported_bounds_eq_declared_plus_inf_partial (decl : List FV) (rs : List Range)
    (h : rangesOfDecl decl = some rs) (hpos : ∀ b0 rest, decl = b0 :: rest → gt b0 zero = true) :
    rs.map (·.max) = decl ++ [pinf] := by
  unfold rangesOfDecl at h
  split at h
  · simp at h
  · simp at h
  · rename_i b0 rest hne
    simp only [Option.map_eq_some_iff] at h
    obtain ⟨rs', hrs', rfl⟩ := h
    have := rangesTail_maxes b0 rest rs' hrs'
    simp [hpos b0 rest rfl, this]

/-- KNOWN FINDING (first boundary ≤ 0): the first declared boundary is not exported.
    `buckets 0, 1, 2` yields upper bounds 1, 2, +Inf. -/
theorem first_bound_nonpositive_dropped :
    (rangesOfDecl [.num 0, .num 4607182418800017408, .num 4611686018427387904]).map (fun rs => rs.map (·.max))
      = some [.num 4607182418800017408, .num 4611686018427387904, pinf] := by decide

/-- non-vacuity: `buckets 1, 2` observed with 0.5, NaN and 3 -/
example :
    ((fresh (0 : Nat) [.num 4607182418800017408, .num 4611686018427387904]).map
      (fun d => (observeAll (fun s _ => s + 1) d [.num 4602678819172646912, .nan, .num 4613937818241073152]).buckets.map (·.2)))
      = some [1, 0, 2] := by decide

/-- Obligation over regenerated facts: an observation that reaches the VM as text is read by the
    library's 64-bit float parser (the eleventh conversion of vm.go, in `sset` on a histogram) — a
    zero-padded decimal is the decimal it spells -/
theorem text_observation_shape :
    Generated.VM.libraryConversions =
      ["strconv.ParseInt(n, 10, 64)", "strconv.ParseFloat(n, 64)", "strconv.FormatFloat(n, 'G', -1, 64)",
       "strconv.Itoa(n)", "strconv.FormatInt(n, 10)", "strconv.FormatBool(n)", "strconv.ParseFloat(rxS, 64)",
       "strconv.ParseFloat(rxS, 64)", "strconv.ParseFloat(lxS, 64)", "strconv.ParseInt(lxS, 10, 32)",
       "strconv.ParseFloat(value, 64)", "strconv.ParseInt(str, base, 64)", "strconv.ParseFloat(str, 64)"] := by decide

/-! ### regenerated control skeletons (written by lib/wire_skeletons.py) -/
/-- Obligations over regenerated facts: the functions this property's model stands for have the
    control skeleton the model was written against (`Proofs/Skeletons.lean`, one `rfl` per function
    or clause; DESIGN.md §11.6a) -/
theorem datum_skeletons : Skeletons.DatumShape := Skeletons.datum_shape
theorem exec_skeletons : Skeletons.ExecShape := Skeletons.exec_shape
theorem codegenBefore_skeletons : Skeletons.CodegenBeforeShape := Skeletons.codegenBefore_shape
theorem codegenAfter_skeletons : Skeletons.CodegenAfterShape := Skeletons.codegenAfter_shape
theorem f_codegen_codegen_skeletons : Skeletons.F_codegen_codegenShape := Skeletons.f_codegen_codegen_shape
theorem f_exporter_prometheus_skeletons : Skeletons.F_exporter_prometheusShape := Skeletons.f_exporter_prometheus_shape
theorem f_datum_buckets_skeletons : Skeletons.F_datum_bucketsShape := Skeletons.f_datum_buckets_shape

end MtailVerif.C21
