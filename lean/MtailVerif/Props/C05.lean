import MtailVerif.Proofs.VMMemo
import MtailVerif.Generated.VM
import MtailVerif.Proofs.Skeletons
/-! # C05 — a line's effect never depends on earlier lines except through metrics

    What `vm.VM` keeps between lines is, in the model, exactly the arguments of `runLine`: the
    metric store and the strptime memo.  The thread (program counter, stack, capture results, time
    register, matched flag, the per-line list of removed label values) is created afresh inside
    `runLine`, as `ProcessLogLine` does, and `terminate` is a result, not state.  So the only
    channel other than the metrics is the memo, and the theorems show it is transparent. -/
namespace MtailVerif.C05
open MtailVerif MtailVerif.VM

/-- the VM state after a history of lines, starting from a freshly loaded program -/
def after (o : Oracle) (p : Prog) (fuel : Nat) : List Input → MStore → Memo → MStore × Memo
  | [], st, memo => (st, memo)
  | inp :: rest, st, memo =>
    let r := runLine o p fuel inp st memo
    after o p fuel rest r.store r.memo

/-- invariant over every history: each memo entry is what the library returns for its key -/
theorem memo_coherent (o : Oracle) (p : Prog) (fuel : Nat) :
    ∀ (hist : List Input) (st : MStore) (memo : Memo), Coherent o memo →
      Coherent o (after o p fuel hist st memo).2 := by
  intro hist
  induction hist with
  | nil => intro st memo h; exact h
  | cons inp rest ih =>
    intro st memo h
    simp only [after]
    exact ih _ _ (run_coherent o p inp fuel {} st memo memo h h).2.2.1

/-- **the property**: after any history, a line has the same outcome (normal end, `stop`, which
    runtime error, fault) and leaves the same metrics as in a freshly loaded copy of the program
    (empty memo, fresh thread) whose metrics hold the same values -/
theorem line_effect_history_independent (o : Oracle) (p : Prog) (fuel : Nat) (hist : List Input)
    (st0 : MStore) (line : Input) :
    let s := after o p fuel hist st0 []
    (runLine o p fuel line s.1 s.2).out = (runLine o p fuel line s.1 []).out ∧
    (runLine o p fuel line s.1 s.2).store = (runLine o p fuel line s.1 []).store := by
  intro s
  have hc : Coherent o s.2 := memo_coherent o p fuel hist st0 [] (coherent_nil o)
  obtain ⟨h1, h2, _, _⟩ := run_coherent o p line fuel {} s.1 s.2 [] hc (coherent_nil o)
  exact ⟨h1, h2⟩

/-- the same for two arbitrary histories that led to the same metric values -/
theorem line_effect_depends_on_metrics_only (o : Oracle) (p : Prog) (fuel : Nat) (h1 h2 : List Input)
    (sa sb : MStore) (line : Input)
    (heq : (after o p fuel h1 sa []).1 = (after o p fuel h2 sb []).1) :
    (runLine o p fuel line (after o p fuel h1 sa []).1 (after o p fuel h1 sa []).2).out =
      (runLine o p fuel line (after o p fuel h2 sb []).1 (after o p fuel h2 sb []).2).out ∧
    (runLine o p fuel line (after o p fuel h1 sa []).1 (after o p fuel h1 sa []).2).store =
      (runLine o p fuel line (after o p fuel h2 sb []).1 (after o p fuel h2 sb []).2).store := by
  have c1 := memo_coherent o p fuel h1 sa [] (coherent_nil o)
  have c2 := memo_coherent o p fuel h2 sb [] (coherent_nil o)
  rw [heq]
  obtain ⟨a, b, _, _⟩ := run_coherent o p line fuel {} (after o p fuel h2 sb []).1 _ _ c1 c2
  exact ⟨a, b⟩

/-- regenerated facts the memo model rests on: the key has both the layout and the value, a failed
    parse is not stored, and the capacity -/
theorem source_shape :
    Generated.VM.memoKeyFields = ["layout:string", "value:string"] ∧
    Generated.VM.memoAddGuard = "!v.terminate" ∧
    Generated.VM.memoCapacity = "64" ∧ memoCap = 64 ∧
    -- nothing of a line's control state reaches the next line: the terminate flag is cleared right
    -- after the instruction that set it, and a panic is turned into that flag inside `execute`
    Generated.VM.terminateResetAfterExecute = true ∧ Generated.VM.executeRecoversPanics = true := by decide

/-- why the key needs the layout: a memo keyed by the value alone is not coherent — one entry would
    have to equal two different parses -/
theorem value_only_key_would_leak :
    ∃ (parse : Bytes → Bytes → Option T) (l1 l2 v : Bytes), parse l1 v ≠ parse l2 v :=
  ⟨fun l _ => if l = [1] then some 1 else some 2, [1], [2], [], by decide⟩

/-- non-vacuity: a history on a concrete program really fills the memo -/
example : ∃ (o : Oracle) (p : Prog) (hist : List Input), (after o p 10 hist [] []).2 ≠ [] := by
  let o : Oracle := {
    reMatch := fun _ _ => none, parseInt := fun _ _ => none, parseFloat := fun _ => none,
    fadd := fun a _ => a, fsub := fun a _ => a, fmul := fun a _ => a, fdiv := fun a _ => a,
    fmod := fun a _ => a, fpow := fun a _ => a, fcmp := fun _ _ _ => false, i2f := fun _ => 0,
    f2i := fun _ => 0, fmtG := fun _ => [], fmtg := fun _ => [], toLower := id,
    replaceAll := fun v _ _ => v, reReplace := fun _ v _ => v, timeParse := fun _ _ => some 5, nowSec := 0 }
  refine ⟨o, ⟨[⟨.str, .int 0⟩, ⟨.str, .int 0⟩, ⟨.strptime, .int 2⟩], [[65]], 0, []⟩, [⟨[], []⟩], ?_⟩
  decide

/-! ### regenerated control skeletons (written by lib/wire_skeletons.py) -/
/-- Obligations over regenerated facts: the functions this property's model stands for have the
    control skeleton the model was written against (`Proofs/Skeletons.lean`, one `rfl` per function
    or clause; DESIGN.md §11.6a) -/
theorem line_skeletons : Skeletons.LineShape := Skeletons.line_shape
theorem exec_skeletons : Skeletons.ExecShape := Skeletons.exec_shape
theorem f_vm_vm_skeletons : Skeletons.F_vm_vmShape := Skeletons.f_vm_vm_shape

end MtailVerif.C05
