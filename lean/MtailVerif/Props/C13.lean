import MtailVerif.Proofs.Prom
import MtailVerif.Props.C21
import MtailVerif.Proofs.Skeletons
/-! # C13 — Prometheus exposition reflects the store exactly -/
namespace MtailVerif.C13
open MtailVerif MtailVerif.Prom

/-- C13 (exactly the representable series): whatever the iteration order bookkeeping
    (`lastMetric`, `lastSource`), the collector emits, for each non-text metric, exactly the
    samples of its representable label sets, in label-set order — nothing else, nothing twice. -/
theorem collect_spec (cfg : Config) (last : Bytes × Bytes) (ms : List Metric) :
    collect cfg last ms = ms.flatMap (samplesOfMetric cfg) :=
  collect_eq cfg last ms

/-- a representable label set of a non-text metric is exported, with the prescribed name, labels,
    type, value and timestamp, no matter which *other* label sets are unrepresentable -/
theorem representable_exported (cfg : Config) (last : Bytes × Bytes) (ms : List Metric) (m : Metric)
    (ls : LabelSet) (hm : m ∈ ms) (hk : m.kind ≠ .text) (hl : ls ∈ m.lsets)
    (hr : representable cfg m ls = true) : sampleOf cfg m ls ∈ collect cfg last ms := by
  rw [collect_spec]
  simp only [List.mem_flatMap]
  refine ⟨m, hm, ?_⟩
  simp only [samplesOfMetric, hk, if_false, List.mem_map, List.mem_filter]
  exact ⟨ls, ⟨hl, hr⟩, rfl⟩

/-- what one exported sample says -/
theorem sample_fields (cfg : Config) (m : Metric) (ls : LabelSet) :
    (sampleOf cfg m ls).name = noHyphens m.name ∧
    (sampleOf cfg m ls).labels = (labelNames cfg m ls).zip (labelValues cfg m ls) ∧
    (sampleOf cfg m ls).typ = typeForKind m.kind ∧
    ((sampleOf cfg m ls).timeMs.isSome = cfg.emitTimestamp) ∧
    (ls.datum.hist = none → (sampleOf cfg m ls).value = ls.datum.asFloat) := by
  have key : ∀ (k : Kind) (h : Option (Nat × UInt64 × List (Buckets.FV × UInt64 × Nat))),
      m.kind = k → ls.datum.hist = h → _ := fun k h hk hh => (⟨hk, hh⟩ : m.kind = k ∧ ls.datum.hist = h)
  cases hk : m.kind <;> cases hh : ls.datum.hist <;>
    simp [sampleOf, hk, hh] <;> (cases cfg.emitTimestamp <;> simp)

/-- text metrics and unrepresentable label sets are never exported; a sample in the output
    always comes from a representable label set of a non-text metric -/
theorem exported_only_representable (cfg : Config) (last : Bytes × Bytes) (ms : List Metric) (s : Sample)
    (h : s ∈ collect cfg last ms) :
    ∃ m ∈ ms, m.kind ≠ .text ∧ ∃ ls ∈ m.lsets, representable cfg m ls = true ∧ s = sampleOf cfg m ls := by
  rw [collect_spec] at h
  simp only [List.mem_flatMap] at h
  obtain ⟨m, hm, hs⟩ := h
  unfold samplesOfMetric at hs
  split at hs
  · simp at hs
  · rename_i hk
    simp only [List.mem_map, List.mem_filter] at hs
    obtain ⟨ls, ⟨hl, hr⟩, rfl⟩ := hs
    exact ⟨m, hm, hk, ls, hl, hr, rfl⟩

/-- histogram samples: cumulative counts are non-decreasing in bound order -/
theorem histogram_cumulative_monotone (bs : List (Buckets.FV × UInt64 × Nat)) :
    (cumByMax bs).Pairwise (fun a b => a.2 ≤ b.2) :=
  cumulate_mono 0 _

/-- … and, the bounds being distinct, the last cumulative count is the sum of all bucket
    counts — which by C21 (`sum_buckets_eq_count`) is the observation count -/
theorem histogram_last_cumulative_eq_total (bs : List (Buckets.FV × UInt64 × Nat))
    (hnd : (bs.map (·.1)).Nodup) :
    ∀ x, (cumByMax bs).getLast? = some x → x.2 = sumC bs := by
  intro x hx
  have := cumulate_last 0 _ x hx
  rw [this, fold_sum bs [] hnd (by simp)]
  simp [sumC]

/-- non-vacuity: a gauge with a hyphenated name, two label sets, the first not valid UTF-8 -/
example : (collect ⟨false, false⟩ ([], [])
    [⟨[97, 45, 98], [112], .gauge, [[107]], [⟨[[255]], ⟨1, 0, none⟩⟩, ⟨[[120]], ⟨2, 0, none⟩⟩]⟩]).map
      (fun s => (s.name, s.labels, s.value)) =
    [([97, 95, 98], [([112, 114, 111, 103], [112]), ([107], [120])], 2)] := by decide

/-! ### regenerated control skeletons (written by lib/wire_skeletons.py) -/
/-- Obligations over regenerated facts: the functions this property's model stands for have the
    control skeleton the model was written against (`Proofs/Skeletons.lean`, one `rfl` per function
    or clause; DESIGN.md §11.6a) -/
theorem export_skeletons : Skeletons.ExportShape := Skeletons.export_shape
theorem datum_skeletons : Skeletons.DatumShape := Skeletons.datum_shape
theorem f_exporter_prometheus_skeletons : Skeletons.F_exporter_prometheusShape := Skeletons.f_exporter_prometheus_shape
theorem f_datum_datum_skeletons : Skeletons.F_datum_datumShape := Skeletons.f_datum_datum_shape
theorem f_mtail_mtail_skeletons : Skeletons.F_mtail_mtailShape := Skeletons.f_mtail_mtail_shape

end MtailVerif.C13
