import MtailVerif.Proofs.Runtime
import MtailVerif.Generated.Runtime
import MtailVerif.Proofs.Skeletons
/-! # C25 — Self-monitoring counters are exact (program-loader part)

    Each call of `compileAndRun` is exactly one of: no-op (unchanged content), a load, or a load
    error; the matching counter moves by exactly one and the others do not move. -/
namespace MtailVerif.C25
open MtailVerif MtailVerif.Runtime

/-- Obligation over regenerated facts: a refused registration is counted as a load error, and
    `CompileAndRun` has exactly one `ProgLoads.Add`. -/
theorem counter_sites_shape :
    Generated.Runtime.registrationErrorCounted = true ∧
    Generated.Runtime.loadsAddsInCompileAndRun = 1 ∧
    Generated.Runtime.loadErrorAddsInCompileAndRun = 4 := by decide

def count (k : Bytes) (l : List (Bytes × Nat)) : Nat :=
  match l.find? (·.1 = k) with
  | some p => p.2
  | none => 0

theorem count_bump_self (k : Bytes) (l : List (Bytes × Nat)) : count k (bump k l) = count k l + 1 := by
  unfold count
  induction l with
  | nil => simp [bump]
  | cons p rest ih =>
    by_cases hp : p.1 = k
    · simp [bump, hp]
    · simp only [bump, hp, if_false, List.find?_cons, decide_false]
      exact ih

theorem count_bump_other (k k' : Bytes) (l : List (Bytes × Nat)) (h : k' ≠ k) : count k' (bump k l) = count k' l := by
  unfold count
  induction l with
  | nil => simp [bump, h.symm]
  | cons p rest ih =>
    by_cases hp : p.1 = k
    · have h2 : ¬ k = k' := fun e => h e.symm
      simp [bump, hp, h2]
    · simp only [bump, hp, if_false, List.find?_cons]
      by_cases hp2 : p.1 = k'
      · simp [hp2]
      · simp only [hp2, decide_false]; exact ih

/-- C25 (loader): with refused registrations counted, every `compileAndRun` moves exactly the
    counter of what happened — a load, a load error (compile error *or* refused registration), or
    nothing for unchanged content — for that program, by exactly one -/
theorem counters_exact_step (cfg : Cfg) (hcfg : cfg.countRegistrationError = true) (r : RT) (name : Bytes) (v : Version) :
    let r' := compileAndRun cfg r name v
    (match decision cfg r name v with
     | .unchanged => count name r'.loads = count name r.loads ∧ count name r'.loadErrors = count name r.loadErrors
     | .loaded _ => count name r'.loads = count name r.loads + 1 ∧ count name r'.loadErrors = count name r.loadErrors
     | .compileError => count name r'.loads = count name r.loads ∧ count name r'.loadErrors = count name r.loadErrors + 1
     | .refused _ => count name r'.loads = count name r.loads ∧ count name r'.loadErrors = count name r.loadErrors + 1) ∧
    r'.unloads = r.unloads ∧ r'.lineCount = r.lineCount := by
  unfold compileAndRun
  cases decision cfg r name v with
  | unchanged => simp
  | compileError => simp [count_bump_self]
  | refused ps => simp [hcfg, count_bump_self]
  | loaded s' => simp [count_bump_self]

/-- counters of other programs never move -/
theorem counters_of_others_untouched (cfg : Cfg) (r : RT) (name other : Bytes) (v : Version) (hne : other ≠ name) :
    count other (compileAndRun cfg r name v).loads = count other r.loads ∧
    count other (compileAndRun cfg r name v).loadErrors = count other r.loadErrors := by
  unfold compileAndRun
  cases decision cfg r name v with
  | unchanged => simp
  | compileError => simp [count_bump_other _ _ _ hne]
  | refused ps => by_cases h : cfg.countRegistrationError = true <;> simp [h, count_bump_other _ _ _ hne]
  | loaded s' => simp [count_bump_other _ _ _ hne]

/-- unloading moves exactly the unload counter of that program -/
theorem unload_counts (r : RT) (name : Bytes) :
    count name (unload r name).unloads = count name r.unloads + 1 ∧
    (unload r name).loads = r.loads ∧ (unload r name).loadErrors = r.loadErrors := by
  simp [unload, count_bump_self]

theorem applyDecl_counts (prog key : Bytes) (m : Bool) (r : RT) (de : SMetric × Nat) :
    (applyDecl prog key m r de).lineCount = r.lineCount ∧ (applyDecl prog key m r de).runtimeErrors = r.runtimeErrors ∧
    (applyDecl prog key m r de).loads = r.loads ∧ (applyDecl prog key m r de).loadErrors = r.loadErrors := by
  unfold applyDecl
  split
  · exact ⟨rfl, rfl, rfl, rfl⟩
  · split
    · exact ⟨rfl, rfl, rfl, rfl⟩
    · split <;> exact ⟨rfl, rfl, rfl, rfl⟩

theorem foldDecl_counts (prog key : Bytes) (m : Bool) (des : List (SMetric × Nat)) (r : RT) :
    (des.foldl (applyDecl prog key m) r).lineCount = r.lineCount ∧
    (des.foldl (applyDecl prog key m) r).runtimeErrors = r.runtimeErrors := by
  induction des generalizing r with
  | nil => exact ⟨rfl, rfl⟩
  | cons de rest ih =>
    simp only [List.foldl_cons]
    have h1 := applyDecl_counts prog key m r de
    have h2 := ih (applyDecl prog key m r de)
    exact ⟨h2.1.trans h1.1, h2.2.trans h1.2.1⟩

theorem lineProg_lineCount (key : Bytes) (m : Bool) (r : RT) (h : Bytes × Handle) :
    (lineProg key m r h).lineCount = r.lineCount := by
  unfold lineProg
  simp only
  split
  · rfl
  · exact (foldDecl_counts h.1 key m _ r).1

/-- every line handed to the loader moves `lines_total` by exactly one -/
theorem line_counts (r : RT) (key : Bytes) (m : Bool) : (line r key m).lineCount = r.lineCount + 1 := by
  unfold line
  have : ∀ (hs : List (Bytes × Handle)) (acc : RT), (hs.foldl (lineProg key m) acc).lineCount = acc.lineCount := by
    intro hs
    induction hs with
    | nil => intro acc; rfl
    | cons h rest ih => intro acc; simp only [List.foldl_cons]; rw [ih, lineProg_lineCount]
  rw [this]

/-- a program's runtime-error counter moves by one exactly when it raises a runtime error on the
    line, and otherwise not at all -/
theorem runtime_error_counted (key : Bytes) (m : Bool) (r : RT) (h : Bytes × Handle) :
    count h.1 (lineProg key m r h).runtimeErrors =
      count h.1 r.runtimeErrors + (if m ∧ h.2.version.runtimeError then 1 else 0) := by
  unfold lineProg
  simp only
  split
  · simp [count_bump_self]
  · rw [(foldDecl_counts h.1 key m _ r).2]; simp

/-! ### regenerated control skeletons (written by lib/wire_skeletons.py) -/
/-- Obligations over regenerated facts: the functions this property's model stands for have the
    control skeleton the model was written against (`Proofs/Skeletons.lean`, one `rfl` per function
    or clause; DESIGN.md §11.6a) -/
theorem loader_skeletons : Skeletons.LoaderShape := Skeletons.loader_shape
theorem exec_skeletons : Skeletons.ExecShape := Skeletons.exec_shape
theorem f_vm_vm_skeletons : Skeletons.F_vm_vmShape := Skeletons.f_vm_vm_shape
theorem f_runtime_runtime_skeletons : Skeletons.F_runtime_runtimeShape := Skeletons.f_runtime_runtime_shape
theorem f_mtail_mtail_skeletons : Skeletons.F_mtail_mtailShape := Skeletons.f_mtail_mtail_shape
theorem f_logstream_reader_skeletons : Skeletons.F_logstream_readerShape := Skeletons.f_logstream_reader_shape
theorem f_tailer_tail_skeletons : Skeletons.F_tailer_tailShape := Skeletons.f_tailer_tail_shape

end MtailVerif.C25
