import MtailVerif.Proofs.VMTime
import MtailVerif.Props.C05
import MtailVerif.Proofs.Skeletons
/-! # C07 — timestamps follow strptime/settime and default to processing time

    The library's `time.Parse`/`ParseInLocation` (with the configured zone and, when the option is
    on, the zero year replaced by the current year) is the oracle `timeParse`; what mtail does with
    it — which instant ends up in the time register, what `timestamp()` returns, what a datum is
    stamped with, and that none of this depends on earlier parses — is proved here. -/
namespace MtailVerif.C07
open MtailVerif MtailVerif.VM

/-- after a successful `strptime(value, layout)` the register holds the parsed instant — for every
    memo content reachable by any history — and a failed parse is the checked runtime error -/
theorem strptime_result (o : Oracle) (p : Prog) (fuel : Nat) (hist : List Input) (st0 : MStore) (t : Thread)
    (st : MStore) (layout value : Bytes) (rest : List Val) (hstk : t.stack = .str layout :: .str value :: rest) :
    (stepStrptime o t st (C05.after o p fuel hist st0 []).2).1 =
      match o.timeParse layout value with
      | some tm => .next { t with stack := rest, time := tm } st
      | none => .err .timeParseFailed st :=
  strptime_sets_register o t st _ (C05.memo_coherent o p fuel hist st0 [] (coherent_nil o)) layout value rest hstk

/-- `timestamp()` returns the register's instant in seconds, or the wall clock when it is unset -/
theorem timestamp_result (o : Oracle) (p : Prog) (inp : Input) (t : Thread) (st : MStore) :
    stepCore o p inp ⟨.timestamp, .none⟩ t st =
      .next { t with stack := .i64 (if t.time = zeroT then o.nowSec else t.time / 1000000000) :: t.stack } st :=
  timestamp_reads_register o p inp t st

/-- a parsed instant with whole seconds `s` reads back as `s` -/
theorem timestamp_after_strptime (o : Oracle) (p : Prog) (inp : Input) (t : Thread) (st : MStore) (tm : T)
    (ht : t.time = tm) (hz : tm ≠ zeroT) :
    stepCore o p inp ⟨.timestamp, .none⟩ t st = .next { t with stack := .i64 (tm / 1000000000) :: t.stack } st := by
  rw [timestamp_reads_register]; simp [ht, hz]

/-- `settime(n)` then `timestamp()` gives `n`, except for the reserved instant -/
theorem settime_then_timestamp (o : Oracle) (p : Prog) (inp : Input) (t : Thread) (st : MStore) (n : Int)
    (rest : List Val) (hstk : t.stack = .i64 n :: rest) (hn : n ≠ -62135596800) :
    ∃ t1, stepCore o p inp ⟨.settime, .none⟩ t st = .next t1 st ∧
      stepCore o p inp ⟨.timestamp, .none⟩ t1 st = .next { t1 with stack := .i64 n :: rest } st := by
  refine ⟨_, settime_sets_register o p inp t st n rest hstk, ?_⟩
  exact timestamp_after_settime o p inp _ st n hn rfl

/-- the register survives every other instruction, so it still holds at each later datum update and
    `timestamp()` of the line -/
theorem register_kept (o : Oracle) (p : Prog) (inp : Input) (i : Instr) (t : Thread) (st : MStore) (memo : Memo)
    (h1 : i.op ≠ .settime) (h2 : i.op ≠ .strptime) (t' : Thread) (st' : MStore)
    (h : (step o p inp i t st memo).1 = .next t' st') : t'.time = t.time :=
  step_keeps_time o p inp i t st memo h1 h2 t' st' h

/-- every datum update (`++ -- += =` on any metric, observation of a histogram) carries the
    register's instant, or the wall clock when the register is unset -/
theorem datum_updates_carry_register (o : Oracle) (d d' : Datum) (tm : T) :
    (∀ delta, incIntD d delta (stampOf tm) = some d' → d'.time = stampOf tm) ∧
    (∀ v, setIntD o d v (stampOf tm) = some d' → d'.time = stampOf tm) ∧
    (∀ v, setFloatD o d v (stampOf tm) = some d' → d'.time = stampOf tm) ∧
    (∀ v, setStringD d v (stampOf tm) = some d' → d'.time = stampOf tm) :=
  updates_stamp_with_register o d d' tm

theorem stamp_is_register (tm : T) (hz : tm ≠ zeroT) (h1 : -9223372036854775808 ≤ tm)
    (h2 : tm < 9223372036854775808) : stampOf tm = some tm := by
  rw [stampOf_set tm hz, wrap_id tm h1 h2]

theorem stamp_default_now : stampOf zeroT = none := stampOf_zero

/-- the reserved instant: `settime(-62135596800)` leaves the register "unset" -/
theorem reserved_instant : (-62135596800 : Int) * 1000000000 = zeroT := by decide

/-! ### regenerated control skeletons (written by lib/wire_skeletons.py) -/
/-- Obligations over regenerated facts: the functions this property's model stands for have the
    control skeleton the model was written against (`Proofs/Skeletons.lean`, one `rfl` per function
    or clause; DESIGN.md §11.6a) -/
theorem datum_skeletons : Skeletons.DatumShape := Skeletons.datum_shape
theorem exec_skeletons : Skeletons.ExecShape := Skeletons.exec_shape
theorem f_vm_vm_skeletons : Skeletons.F_vm_vmShape := Skeletons.f_vm_vm_shape
theorem f_datum_datum_skeletons : Skeletons.F_datum_datumShape := Skeletons.f_datum_datum_shape

end MtailVerif.C07
