import MtailVerif.Proofs.Gc
import MtailVerif.Props.C09
import MtailVerif.Generated.Gc
import MtailVerif.Proofs.Skeletons
/-! # C10 — Garbage collection removes exactly the expired and over-limit data -/
namespace MtailVerif.C10
open MtailVerif MtailVerif.Metric MtailVerif.Gc
variable {V : Type}

/-- Obligation over regenerated facts: every comparison at a decision point of `Store.Gc` and
    `RemoveOldestDatum` is the one the model encodes (`>`, `>=`, `i > Limit`, `<= 0`, strict
    `Before`, the `i--` after a removal). -/
theorem gc_source_shape :
    Generated.Gc.limitGuard = "m.Limit > 0 && len(m.LabelValues) >= m.Limit" ∧
    Generated.Gc.limitLoop = "i := len(m.LabelValues); i > m.Limit; i--" ∧
    Generated.Gc.expirySkip = "lv.Expiry <= 0" ∧
    Generated.Gc.expiryCond = "now.Sub(lv.Value.TimeUTC()) > lv.Expiry" ∧
    Generated.Gc.expiryDec = true ∧
    Generated.Gc.oldestCond = "oldestLV == nil || lv.Value.TimeUTC().Before(oldestLV.Value.TimeUTC())" ∧
    Generated.Gc.nowSrc = "time.Now()" ∧
    -- every metric is visited: the closure waits for the metric's lock (it does not skip a busy
    -- metric) and leaves only at its end
    Generated.Gc.closurePrologue = "m.Lock(); defer m.Unlock()" ∧ Generated.Gc.closureReturns = 1 := by decide

/-- C10 (refinement): on every metric satisfying the representation invariant (every reachable
    metric, C09), the Go GC closure — limit loop calling RemoveOldestDatum, then the index walk
    with `i--` — succeeds, preserves the invariant and computes exactly `Spec.gc` of the
    ordered-map view. -/
theorem gc_refines_spec (tm : V → Int) (now limit : Int) (m : Metric V) (hi : Inv m) :
    ∃ m', gc tm now limit m = .ok m' ∧ Inv m' ∧ abs m' = Spec.gc tm now limit (abs m) ∧ m'.nkeys = m.nkeys :=
  Gc.gc_refines C09.hinj tm now limit m hi

/-! ### what `Spec.gc` guarantees -/

theorem oldestS_spec (tm : V → Int) (cur : Option (Entry V)) (s : Spec V) (o : Entry V)
    (h : oldestS tm cur s = some o) :
    (o ∈ s ∨ cur = some o) ∧ (∀ k ∈ s, tm o.value ≤ tm k.value) ∧ (∀ c, cur = some c → tm o.value ≤ tm c.value) := by
  induction s generalizing cur with
  | nil =>
    simp only [oldestS] at h
    exact ⟨Or.inr h, by simp, fun c hc => by rw [h] at hc; cases hc; exact Int.le_refl _⟩
  | cons e rest ih =>
    cases cur with
    | none =>
      simp only [oldestS] at h
      obtain ⟨h1, h2, h3⟩ := ih _ h
      refine ⟨?_, ?_, by simp⟩
      · rcases h1 with h1 | h1
        · left; exact List.mem_cons_of_mem _ h1
        · left; simp only [Option.some.injEq] at h1; simp [h1]
      · intro k hk
        simp only [List.mem_cons] at hk
        rcases hk with rfl | hk
        · exact h3 _ rfl
        · exact h2 k hk
    | some c =>
      simp only [oldestS] at h
      split at h
      · rename_i hlt
        obtain ⟨h1, h2, h3⟩ := ih _ h
        refine ⟨?_, ?_, ?_⟩
        · rcases h1 with h1 | h1
          · left; exact List.mem_cons_of_mem _ h1
          · left; simp only [Option.some.injEq] at h1; simp [h1]
        · intro k hk
          simp only [List.mem_cons] at hk
          rcases hk with rfl | hk
          · exact h3 _ rfl
          · exact h2 k hk
        · intro c' hc'; cases hc'
          have := h3 e rfl; omega
      · rename_i hge
        obtain ⟨h1, h2, h3⟩ := ih _ h
        refine ⟨?_, ?_, ?_⟩
        · rcases h1 with h1 | h1
          · left; exact List.mem_cons_of_mem _ h1
          · right; exact h1
        · intro k hk
          simp only [List.mem_cons] at hk
          rcases hk with rfl | hk
          · have := h3 c rfl; omega
          · exact h2 k hk
        · intro c' hc'; cases hc'; exact h3 c rfl

theorem eraseS_sublist (l : List Bytes) (s : Spec V) : (eraseS l s).Sublist s := by
  induction s with
  | nil => simp [eraseS]
  | cons x rest ih =>
    simp only [eraseS]; split
    · exact List.sublist_cons_self _ _
    · exact ih.cons_cons _

theorem eraseS_length (s : Spec V) (o : Entry V) (h : o ∈ s) :
    (eraseS o.labels s).length + 1 = s.length := by
  induction s with
  | nil => simp at h
  | cons x rest ih =>
    simp only [eraseS]
    by_cases hx : x.labels = o.labels
    · simp [hx]
    · simp only [hx, if_false, List.length_cons]
      simp only [List.mem_cons] at h
      rcases h with rfl | h
      · exact absurd rfl hx
      · have := ih h; omega

theorem mem_eraseS_of_ne (l : List Bytes) (s : Spec V) (x : Entry V) (hx : x ∈ s) (hne : x.labels ≠ l) :
    x ∈ eraseS l s := by
  induction s with
  | nil => simp at hx
  | cons y rest ih =>
    simp only [eraseS]
    simp only [List.mem_cons] at hx
    by_cases hy : y.labels = l
    · simp only [hy, if_true]
      rcases hx with rfl | hx
      · exact absurd hy hne
      · exact hx
    · simp only [hy, if_false, List.mem_cons]
      rcases hx with rfl | hx
      · left; rfl
      · right; exact ih hx

theorem removeOldestS_sublist (tm : V → Int) (s : Spec V) : (removeOldestS tm s).Sublist s := by
  unfold removeOldestS; split
  · exact List.Sublist.refl _
  · exact eraseS_sublist _ _

theorem dropOldest_sublist (tm : V → Int) (n : Nat) (s : Spec V) : (dropOldest tm n s).Sublist s := by
  induction n generalizing s with
  | zero => exact List.Sublist.refl _
  | succ n ih => exact (ih _).trans (removeOldestS_sublist tm s)

theorem removeOldestS_length (tm : V → Int) (s : Spec V) (h : s ≠ []) :
    (removeOldestS tm s).length + 1 = s.length := by
  unfold removeOldestS
  cases ho : oldestS tm none s with
  | none =>
    cases s with
    | nil => exact absurd rfl h
    | cons e rest =>
      simp only [oldestS] at ho
      have : ∀ (c : Entry V) (r : Spec V), oldestS tm (some c) r ≠ none := by
        intro c r
        induction r generalizing c with
        | nil => simp [oldestS]
        | cons y r ih => simp only [oldestS]; split <;> exact ih _
      exact absurd ho (this _ _)
  | some o =>
    have := (oldestS_spec tm none s o ho).1
    rcases this with hm | hm
    · exact eraseS_length s o hm
    · simp at hm

/-- limit phase: a metric over its limit ends with exactly `limit` entries -/
theorem gc_limit_size (tm : V → Int) (n : Nat) (s : Spec V) (h : n ≤ s.length) :
    (dropOldest tm n s).length = s.length - n := by
  induction n generalizing s with
  | zero => rfl
  | succ n ih =>
    have hne : s ≠ [] := by intro e; subst e; simp at h
    have hl := removeOldestS_length tm s hne
    simp only [dropOldest]
    rw [ih _ (by omega)]; omega

/-- limit phase: every entry removed for the limit is no newer than every entry kept -/
theorem removed_no_newer_than_kept (tm : V → Int) (n : Nat) (s : Spec V)
    (hnd : (s.map (·.labels)).Nodup) (x : Entry V) (hx : x ∈ s) (hxr : x ∉ dropOldest tm n s)
    (k : Entry V) (hk : k ∈ dropOldest tm n s) : tm x.value ≤ tm k.value := by
  induction n generalizing s with
  | zero => exact absurd hx hxr
  | succ n ih =>
    simp only [dropOldest] at hxr hk
    have hsub := removeOldestS_sublist tm s
    by_cases hx1 : x ∈ removeOldestS tm s
    · exact ih _ (hnd.sublist (hsub.map _)) hx1 hxr hk
    · -- x is the entry removed at this step
      unfold removeOldestS at hx1 hk
      cases ho : oldestS tm none s with
      | none => simp [ho] at hx1; exact absurd hx hx1
      | some o =>
        simp only [ho] at hx1 hk
        obtain ⟨hom, hmin, _⟩ := oldestS_spec tm none s o ho
        have hom : o ∈ s := by rcases hom with h | h; exact h; simp at h
        have hlab : x.labels = o.labels := by
          apply Classical.byContradiction; intro hne
          exact hx1 (mem_eraseS_of_ne _ s x hx hne)
        have hxo : x = o := by
          -- unique labels
          have : ∀ (s : Spec V), (s.map (·.labels)).Nodup → x ∈ s → o ∈ s → x.labels = o.labels → x = o := by
            intro s
            induction s with
            | nil => intro _ h; simp at h
            | cons y r ihr =>
              intro hn hxs hos hl
              simp only [List.map_cons, List.nodup_cons] at hn
              simp only [List.mem_cons] at hxs hos
              rcases hxs with rfl | hxs <;> rcases hos with rfl | hos
              · rfl
              · exact absurd (List.mem_map_of_mem (f := (·.labels)) hos) (hl ▸ hn.1)
              · exact absurd (List.mem_map_of_mem (f := (·.labels)) hxs) (hl ▸ hn.1)
              · exact ihr hn.2 hxs hos hl
          exact this s hnd hx hom hlab
        subst hxo
        have hks : k ∈ s := ((dropOldest_sublist tm n _).trans (eraseS_sublist _ s)).subset hk
        exact hmin k hks

/-- expiry phase: survivors are exactly the entries that are not expired, in order -/
theorem gc_expiry_exact (tm : V → Int) (now limit : Int) (s : Spec V) (e : Entry V) :
    e ∈ Spec.gc tm now limit s ↔
      e ∈ (if limit > 0 ∧ (s.length : Int) ≥ limit then dropOldest tm (s.length - limit.toNat) s else s) ∧
      ¬ (e.expiry > 0 ∧ sub now (tm e.value) > e.expiry) := by
  unfold Spec.gc
  simp only [List.mem_filter, expiredS, Bool.not_eq_true', Bool.and_eq_false_iff, Bool.not_eq_false',
    decide_eq_true_eq, decide_eq_false_iff_not]
  constructor
  · rintro ⟨h1, h2⟩
    refine ⟨h1, ?_⟩
    rintro ⟨h3, h4⟩
    rcases h2 with h2 | h2 <;> omega
  · rintro ⟨h1, h2⟩
    refine ⟨h1, ?_⟩
    by_cases h3 : e.expiry ≤ 0
    · left; exact h3
    · right; intro h4; exact h2 ⟨by omega, h4⟩

/-- frame: GC never changes a surviving entry and never reorders (the result is a sublist) -/
theorem gc_frame (tm : V → Int) (now limit : Int) (s : Spec V) : (Spec.gc tm now limit s).Sublist s := by
  unfold Spec.gc
  refine (List.filter_sublist).trans ?_
  split
  · exact dropOldest_sublist tm _ s
  · exact List.Sublist.refl _

/-- with a positive limit, at most `limit` entries remain -/
theorem gc_at_most_limit (tm : V → Int) (now limit : Int) (s : Spec V) (hl : limit > 0) :
    ((Spec.gc tm now limit s).length : Int) ≤ max limit s.length ∧
    ((s.length : Int) ≥ limit → ((Spec.gc tm now limit s).length : Int) ≤ limit) := by
  unfold Spec.gc
  constructor
  · have := (gc_frame tm now limit s).length_le
    unfold Spec.gc at this
    omega
  · intro hge
    simp only [hl, hge, and_self, if_true]
    have h1 : limit.toNat ≤ s.length := by omega
    have := gc_limit_size tm (s.length - limit.toNat) s (by omega)
    have h2 := (List.filter_sublist (l := dropOldest tm (s.length - limit.toNat) s)
      (p := fun e => !expiredS tm now e)).length_le
    omega

/-- non-vacuity: limit 2 over three entries (times 5,1,9), then one expired entry -/
example : ((Spec.gc (fun v : Int × Int => v.2) 100 2
    [⟨[[97]], (0, 5), 0⟩, ⟨[[98]], (0, 1), 0⟩, ⟨[[99]], (0, 9), 10⟩]).map (·.labels)) = [[[97]]] := by decide

/-! ### one lock acquisition from the first read to the last removal

    `gc_refines_spec` is about the closure as one step; that it *is* one step for every schedule is
    the lock it holds throughout (`closurePrologue` above, and the skeleton of `Store.Gc` below).
    What a pass that decides under one acquisition and removes, by label tuple, under a later one
    would do: -/

/-- the label tuples a scan finds expired -/
def scanS (tm : V → Int) (now : Int) (s : Spec V) : List (List Bytes) :=
  (s.filter (expiredS tm now)).map (·.labels)
/-- their removal, later -/
def deleteS (ls : List (List Bytes)) (s : Spec V) : Spec V := ls.foldl (fun s l => eraseS l s) s

/-- with nothing in between the two halves are the expiry pass -/
theorem split_pass_alone_keeps_unexpired (tm : V → Int) (now : Int) (s : Spec V) (e : Entry V)
    (he : e ∈ s)
    (huniq : ∀ x ∈ s, expiredS tm now x = true → x.labels ≠ e.labels) :
    e ∈ deleteS (scanS tm now s) s := by
  unfold deleteS scanS
  have key : ∀ (ls : List (List Bytes)) (t : Spec V), e ∈ t → (∀ l ∈ ls, l ≠ e.labels) →
      e ∈ ls.foldl (fun s l => eraseS l s) t := by
    intro ls
    induction ls with
    | nil => intro t ht _; simpa using ht
    | cons l ls ih =>
      intro t ht hl
      simp only [List.foldl_cons]
      apply ih
      · exact mem_eraseS_of_ne l t e ht (fun h => hl l (by simp) h.symm)
      · intro l' hl'; exact hl l' (by simp [hl'])
  apply key _ _ he
  intro l hl
  simp only [List.mem_map, List.mem_filter] at hl
  obtain ⟨x, ⟨hx, hxe⟩, rfl⟩ := hl
  exact huniq x hx hxe

/-- **a split pass is not the property's GC**: label `a`, written at 0, expiring after 1 ns, is found
    expired at 100; before the removal the VM deletes it (`del m["a"]`) and a line creates it anew,
    stamped 100, with no expiry.  Nothing in that state is expired — the property's GC leaves it as
    it is — and the late removal takes the new datum. -/
def raceBefore : Spec Int := [⟨[[97]], 0, 1⟩]
def raceAfter : Spec Int := eraseS [[97]] raceBefore ++ [⟨[[97]], 100, 0⟩]
theorem split_pass_is_unsafe :
    scanS id 100 raceBefore = [[[97]]] ∧ raceAfter.all (fun e => !expiredS id 100 e) = true ∧
      (Spec.gc id 100 0 raceAfter).map (·.value) = [100] ∧
      (deleteS (scanS id 100 raceBefore) raceAfter).map (·.value) = [] := by decide

/-! ### regenerated control skeletons (written by lib/wire_skeletons.py) -/
/-- Obligations over regenerated facts: the functions this property's model stands for have the
    control skeleton the model was written against (`Proofs/Skeletons.lean`, one `rfl` per function
    or clause; DESIGN.md §11.6a) -/
theorem metric_skeletons : Skeletons.MetricShape := Skeletons.metric_shape
theorem f_metrics_store_skeletons : Skeletons.F_metrics_storeShape := Skeletons.f_metrics_store_shape
theorem f_metrics_metric_skeletons : Skeletons.F_metrics_metricShape := Skeletons.f_metrics_metric_shape

end MtailVerif.C10
