import MtailVerif.Model.Formats
import MtailVerif.Proofs.Formats
import MtailVerif.Proofs.Skeletons
/-! # C22 — Every export format reports each label set's own value

    The formatters are modelled as functions of the metric and the label set being emitted, as in
    the Go code (`func(hostname, m, l, interval) string`), where `m` carries *all* label sets.
    Non-interference: the record of label set `l` is unchanged by any change to the other label
    sets of the metric (in particular to `LabelValues[0]`). -/
namespace MtailVerif.C22
open MtailVerif MtailVerif.Formats

/-- two metrics that differ only in their (other) label sets -/
def sameStatic (m m' : FMetric) : Prop :=
  m.name = m'.name ∧ m.prog = m'.prog ∧ m.kind = m'.kind ∧ m.histBuckets = m'.histBuckets

theorem graphite_own_label_set (p : Bytes) (m m' : FMetric) (l : FLabelSet) (h : sameStatic m m') :
    graphiteLines p m l = graphiteLines p m' l := by
  obtain ⟨h1, h2, _, h4⟩ := h
  simp [graphiteLines, h1, h2, h4]

theorem statsd_own_label_set (p : Bytes) (m m' : FMetric) (l : FLabelSet) (h : sameStatic m m') :
    statsdRecord p m l = statsdRecord p m' l := by
  obtain ⟨h1, h2, h3, _⟩ := h
  simp [statsdRecord, h1, h2, h3]

theorem collectd_own_label_set (host p i : Bytes) (m m' : FMetric) (l : FLabelSet) (h : sameStatic m m') :
    collectdRecord host p i m l = collectdRecord host p i m' l := by
  obtain ⟨h1, h2, h3, _⟩ := h
  simp [collectdRecord, h1, h2, h3]

theorem varz_own_label_set (host : Bytes) (o : Bool) (m m' : FMetric) (l : FLabelSet) (h : sameStatic m m') :
    varzRecord host o m l = varzRecord host o m' l := by
  obtain ⟨h1, h2, _, _⟩ := h
  simp [varzRecord, h1, h2]

/-- each graphite line of a label set ends with that label set's own timestamp, and the value
    line carries its own value; a histogram yields one line per bucket plus count plus value -/
theorem graphite_shape (p : Bytes) (m : FMetric) (l : FLabelSet) :
    let path := p ++ m.prog ++ [dot] ++ formatLabels m.name l.labels dot dot us
    (graphiteLines p m l).getLast? = some (path ++ [32] ++ l.datum.valueStr ++ [32] ++ l.datum.timeStr ++ [10]) ∧
    (∀ count bins, m.histBuckets = true → l.datum.hist = some (count, bins) →
      (graphiteLines p m l).length = bins.length + 2) ∧
    (m.histBuckets = false → (graphiteLines p m l).length = 1) := by
  intro path
  refine ⟨by simp [graphiteLines, path], ?_, ?_⟩
  · intro count bins hb hh; simp [graphiteLines, hb, hh]
  · intro hb; simp [graphiteLines, hb]

theorem flatMap_single {α β : Type} (g : α → β) (xs : List α) : xs.flatMap (fun x => [g x]) = xs.map g := by
  induction xs with
  | nil => rfl
  | cons x xs ih => simp [ih]

/-- exactly one formatter call per label set of each exported metric, in order -/
theorem one_record_per_label_set (f : FMetric → FLabelSet → Bytes) (ms : List FMetric) :
    pushAll (fun m l => [f m l]) ms =
      (ms.filter (fun m => m.kind ≠ 4)).flatMap (fun m => m.lsets.map (f m)) := by
  unfold pushAll
  simp only [flatMap_single]
  induction ms with
  | nil => rfl
  | cons m rest ih =>
    by_cases hk : m.kind = 4
    · simp [hk, ih]
    · simp [hk, ih]

theorem one_record_per_label_set_handlers (f : FMetric → FLabelSet → Bytes) (ms : List FMetric) :
    handleAll (fun m l => [f m l]) ms = ms.flatMap (fun m => m.lsets.map (f m)) := by
  simp [handleAll, flatMap_single]

/-- non-vacuity: two label sets of a histogram get their own bucket counts -/
example :
    let d1 : FDatum := ⟨str "1", str "10", some (str "1", [(str "1", str "1"), (str "inf", str "0")])⟩
    let d2 : FDatum := ⟨str "5", str "20", some (str "2", [(str "1", str "0"), (str "inf", str "2")])⟩
    let m : FMetric := ⟨str "h", str "p", 5, true, [⟨[(str "k", str "a")], d1⟩, ⟨[(str "k", str "b")], d2⟩]⟩
    graphiteLines [] m ⟨[(str "k", str "b")], d2⟩ =
      [str "p.h.k.b.bin_1 0 20\n", str "p.h.k.b.bin_inf 2 20\n", str "p.h.k.b.count 2 20\n", str "p.h.k.b 5 20\n"] := by
  decide

/-- C22 (a record names its own label set): two label sets of a metric (as many labels each) whose
    records carry the same name have the same keys with the same values, once separator bytes in
    them are written as the replacement text — for the graphite/statsd naming (`.`) and the
    collectd naming (`-`), any metric name, any keys and values.  So distinct label sets never share
    a record name except by the replacement of separators. -/
theorem record_name_determines_label_set (name : Bytes) (l1 l2 : FLabelSet) (sep : UInt8)
    (hsep : sep = dot ∨ sep = dash) (hlen : l1.labels.length = l2.labels.length)
    (h : formatLabels name l1.labels sep sep us = formatLabels name l2.labels sep sep us) :
    (sortByKey l1.labels).map (fun kv => (esc sep us kv.1, esc sep us kv.2)) =
    (sortByKey l2.labels).map (fun kv => (esc sep us kv.1, esc sep us kv.2)) :=
  formatLabels_determines name _ _ sep us (by rcases hsep with rfl | rfl <;> decide) hlen h

/-- … and for label keys and values without separator bytes (the stores the property speaks about)
    the name determines the label set outright: distinct label sets get distinct record names -/
theorem distinct_label_sets_distinct_names (name : Bytes) (l1 l2 : FLabelSet) (sep : UInt8)
    (hsep : sep = dot ∨ sep = dash) (hlen : l1.labels.length = l2.labels.length)
    (h1 : ∀ kv ∈ l1.labels, sep ∉ kv.1 ∧ sep ∉ kv.2) (h2 : ∀ kv ∈ l2.labels, sep ∉ kv.1 ∧ sep ∉ kv.2)
    (hne : sortByKey l1.labels ≠ sortByKey l2.labels) :
    formatLabels name l1.labels sep sep us ≠ formatLabels name l2.labels sep sep us := by
  intro h
  exact hne (formatLabels_injective name _ _ sep us (by rcases hsep with rfl | rfl <;> decide) hlen h1 h2 h)

/-- non-vacuity: label sets that agree on a long prefix and differ in the last value (what a name
    clipped at a fixed length would merge) get different names; a separator inside a value is what
    can make two names coincide -/
example : formatLabels (str "m") [(str "a", str "xxxxxxxxxxxxxxxxxxxxxxxxxxxxxxxxxxxxxxxxxxxxxxxxxxxxxxxxxxxxxxxxxxxx"), (str "b", str "1")] dash dash us
        ≠ formatLabels (str "m") [(str "a", str "xxxxxxxxxxxxxxxxxxxxxxxxxxxxxxxxxxxxxxxxxxxxxxxxxxxxxxxxxxxxxxxxxxxx"), (str "b", str "2")] dash dash us := by decide
example : formatLabels (str "m") [(str "k", str "a-b")] dash dash us = formatLabels (str "m") [(str "k", str "a_b")] dash dash us := by decide

/-! ### regenerated control skeletons (written by lib/wire_skeletons.py) -/
/-- Obligations over regenerated facts: the functions this property's model stands for have the
    control skeleton the model was written against (`Proofs/Skeletons.lean`, one `rfl` per function
    or clause; DESIGN.md §11.6a) -/
theorem export_skeletons : Skeletons.ExportShape := Skeletons.export_shape
theorem f_metrics_store_skeletons : Skeletons.F_metrics_storeShape := Skeletons.f_metrics_store_shape
theorem f_exporter_export_skeletons : Skeletons.F_exporter_exportShape := Skeletons.f_exporter_export_shape
theorem f_exporter_graphite_skeletons : Skeletons.F_exporter_graphiteShape := Skeletons.f_exporter_graphite_shape
theorem f_exporter_varz_skeletons : Skeletons.F_exporter_varzShape := Skeletons.f_exporter_varz_shape
theorem f_exporter_json_skeletons : Skeletons.F_exporter_jsonShape := Skeletons.f_exporter_json_shape
theorem f_exporter_statsd_skeletons : Skeletons.F_exporter_statsdShape := Skeletons.f_exporter_statsd_shape
theorem f_exporter_collectd_skeletons : Skeletons.F_exporter_collectdShape := Skeletons.f_exporter_collectd_shape

end MtailVerif.C22
