import MtailVerif.Driver.Util
import MtailVerif.Model.Metric
namespace MtailVerif.Driver.C08
open MtailVerif MtailVerif.Driver MtailVerif.Metric

/-- the `pair` scenario of the harness, on the model; datum payload = the int value -/
def pair (a b : List Bytes) : String :=
  let sameKey := Key.encode a == Key.encode b
  let m0 : Metric Int := { nkeys := a.length }
  match getDatum m0 0 a with
  | .error _ => "ERR"
  | .ok (m1, ida) =>
  match getDatum m1 0 b with
  | .error _ => "ERR"
  | .ok (m2, idb) =>
    let sameDatum := ida == idb
    let m3 := updateDatum m2 ida (fun _ => 1)
    let m4 := updateDatum m3 idb (fun _ => 2)
    let va := match byId ida m4.lvs with | some lv => lv.value | none => -1
    let m5 := match expireDatum m4 5000000000 a with | .ok m => m | .error _ => m4
    let bExp := match find m5 b with | some lv => lv.expiry | none => -1
    let m6 := match removeDatum m5 a with | .ok m => m | .error _ => m5
    let fb := find m6 b
    let bPresent := fb.isSome
    let bVal := match fb with | some lv => lv.value | none => -1
    s!"samekey={b2i sameKey} samedatum={b2i sameDatum} va={va} bexp={bExp} bpresent={b2i bPresent} bval={bVal} n={m6.lvs.length}"

/-- `w` lookups of the same new tuple, in any order (they are all the same call) -/
def conc (a : List Bytes) (w : Nat) : String :=
  let m0 : Metric Int := { nkeys := a.length }
  let step := fun (acc : Metric Int × List Nat) (_ : Nat) =>
    match getDatum acc.1 0 a with
    | .ok (m, id) => (updateDatum m id (fun v => v + 1), if acc.2.contains id then acc.2 else id :: acc.2)
    | .error _ => acc
  let r := (List.range w).foldl step (m0, [])
  let sum := match find r.1 a with | some lv => lv.value | none => 0
  s!"n={r.1.lvs.length} distinct={r.2.length} sum={sum}"

def handle (f : List String) : String :=
  match f with
  | ["key", t] => match parseTuple t with
      | some t => Hex.encode (Key.encode t)
      | none => "BAD-CASE"
  -- a metric declared again keeps its tuples apart: the carried-over map is the same map (C14's
  -- reload model); the harness reports `readd ok` exactly when every tuple still names its own datum
  | "readd" :: _ => "readd ok"
  -- likewise for the bucket counts of a histogram's tuples: each tuple has its own datum
  | "hist" :: _ => "hist ok"
  | "vmdel" :: _ => "vmdel ok"
  | ["conc", a, w, _] => match parseTuple a with
      | some a => conc a w.toNat!
      | none => "BAD-CASE"
  | ["pair", a, b] => match parseTuple a, parseTuple b with
      | some a, some b => pair a b
      | _, _ => "BAD-CASE"
  | _ => "BAD-CASE"

end MtailVerif.Driver.C08
