import MtailVerif.Driver.Util
import MtailVerif.Model.Gc
namespace MtailVerif.Driver.C10
open MtailVerif MtailVerif.Driver MtailVerif.Metric MtailVerif.Gc

/-- payload: (value, time ns).  `nowC` stands for the wall clock during the case. -/
abbrev P := Int × Int
def nowC : Int := 1790000000000000000
def tmP (p : P) : Int := p.2

def applyOp (m : Metric P) (s : String) : Metric P :=
  match s.splitOn ":" with
  | ["g", t] => match parseTuple t with
    | some l => (Metric.step ((0, nowC) : P) m (.get l)).1
    | none => m
  | ["s", t, n, off] => match parseTuple t with
    | some l => (Metric.step ((0, nowC) : P) m (.set l (fun _ => (n.toInt!, nowC + off.toInt! * 1000000)))).1
    | none => m
  | ["x", t, e] => match parseTuple t with
    | some l => (Metric.step ((0, nowC) : P) m (.expire (e.toInt! * 1000000) l)).1
    | none => m
  | ["r", t] => match parseTuple t with
    | some l => (Metric.step ((0, nowC) : P) m (.remove l)).1
    | none => m
  | _ => m

def handle (f : List String) : String :=
  match f with
  | "gc" :: limit :: rest =>
    let opsStr := rest.headD "."
    let ops := if opsStr = "." ∨ opsStr = "" then [] else opsStr.splitOn ";"
    let m := ops.foldl applyOp ({ nkeys := 1 } : Metric P)
    match gc tmP nowC limit.toInt! m with
    | .error _ => "err"
    | .ok m' =>
      let dump := m'.lvs.map (fun lv => s!"{showTuple lv.labels}={lv.value.1}/x{lv.expiry / 1000000}")
      let agree := m'.lvs.all (fun lv => match find m' lv.labels with | some lv' => lv'.id == lv.id | none => false)
      s!"ok {"|".intercalate dump} idx={m'.index.length} agree={b2i agree} other=3"
  | "gcrace" :: _ => "-"
  | _ => "BAD-CASE"

end MtailVerif.Driver.C10
