import MtailVerif.Driver.Util
import MtailVerif.Driver.C08
import MtailVerif.Model.MetricSpec
namespace MtailVerif.Driver.C09
open MtailVerif MtailVerif.Driver MtailVerif.Metric

/-- datum payload: (value, timestamp seconds; -1 = stamped with the wall clock at creation) -/
abbrev P := Int × Int

def showTs (t : Int) : String := if t < 0 then "NOW" else toString t

def parseOp (step : Nat) (s : String) : Option (Op P) :=
  match s.splitOn ":" with
  | ["g", t] => (parseTuple t).map .get
  | ["s", t, n] => (parseTuple t).map (fun l => .set l (fun _ => (n.toInt!, (step : Int) + 1)))
  | ["i", t, n] => (parseTuple t).map (fun l => .set l (fun p => (p.1 + n.toInt!, (step : Int) + 1)))
  | ["r", t] => (parseTuple t).map .remove
  | ["x", t, n] => (parseTuple t).map (.expire n.toInt!)
  | ["f", t] => (parseTuple t).map .find
  | ["e"] => some .emit
  | _ => none

def showOut : Out P → String
  | .ok => "ok"
  | .err .arity => "E:arity"
  | .err .noDatum => "E:nodatum"
  | .found none => "none"
  | .found (some (v, x)) => s!"v{v.1}/x{x}"
  | .list l => "[" ++ "|".intercalate (l.map (fun p => s!"{showTuple p.1}={p.2.1}")) ++ "]"

def runAll (m : Metric P) (outs : List String) : Nat → List String → Option (Metric P × List String)
  | _, [] => some (m, outs.reverse)
  | step, o :: os =>
    match parseOp step o with
    | none => none
    | some op =>
      let r := Metric.step ((0, -1) : P) m op
      runAll r.1 (showOut r.2 :: outs) (step + 1) os

def handle (f : List String) : String :=
  match f with
  | "conc" :: _ => C08.handle f
  | "ops" :: _kind :: _typ :: nkeys :: rest =>
    let opsStr := rest.headD "."
    let ops := if opsStr = "." ∨ opsStr = "" then [] else opsStr.splitOn ";"
    match runAll ({ nkeys := nkeys.toNat! } : Metric P) [] 0 ops with
    | none => "BAD-CASE"
    | some (m, outs) =>
      let dump := m.lvs.map (fun lv => s!"{showTuple lv.labels}={lv.value.1}@{showTs lv.value.2}/x{lv.expiry}")
      let agree := m.lvs.all (fun lv => match find m lv.labels with | some lv' => lv'.id == lv.id | none => false)
      s!"{" ".intercalate outs} # {"|".intercalate dump} idx={m.index.length} agree={b2i agree}"
  | _ => "BAD-CASE"

end MtailVerif.Driver.C09
