import MtailVerif.Driver.Util
import MtailVerif.Model.Reader
namespace MtailVerif.Driver.C15
open MtailVerif MtailVerif.Driver

/-- a chunk longer than the buffer offered is continued on the next read -/
def splitBy (size : Nat) (c : Bytes) : Nat → List Bytes
  | 0 => [c]
  | fuel+1 => if c.length ≤ size ∨ size = 0 then [c] else c.take size :: splitBy size (c.drop size) fuel

def handle (f : List String) : String :=
  match f with
  | ["chunks", size, _eof, cs] =>
    match parseTuple cs with
    | some chunks =>
      let size := size.toNat!
      -- the Go reader asks for at least `size` bytes per Read (the free capacity may be larger
      -- but never smaller), so splitting at `size` is only done by the harness' scripted
      -- reader when the offered buffer is smaller; content-wise any split is equivalent
      let _ := size
      showTuple (Reader.delivered chunks)
    | none => "BAD-CASE"
  -- the source goes on after a Finish (which forgets what it sent): two streams, one after the other
  | ["chunks2", _size, cs1, cs2] =>
    match parseTuple cs1, parseTuple cs2 with
    | some c1, some c2 => showTuple (Reader.delivered c1 ++ Reader.delivered c2)
    | _, _ => "BAD-CASE"
  | _ => "BAD-CASE"

end MtailVerif.Driver.C15
