import MtailVerif.Driver.AstWire
import MtailVerif.Model.Unparse
import MtailVerif.Model.ExprGrammar
/-! Runs the unparser model on the checked AST of a case (go/harness/main/c23.go). -/
namespace MtailVerif.Driver.C23
open MtailVerif MtailVerif.Driver MtailVerif.Ast MtailVerif.Unparse

def parseTable (s : String) : List (String × String) :=
  if s = "." then [] else
  (s.splitOn ";").filterMap fun e =>
    match e.splitOn "=" with
    | [k, v] => (Hex.decode v).map fun b => (k, String.fromUTF8! ⟨b.toArray⟩)
    | _ => none

def bits16 (b : UInt64) : String :=
  let hex := Nat.toDigits 16 b.toNat
  String.ofList (List.replicate (16 - hex.length) '0' ++ hex)

def opName : Op → String := Grammar.opTokenName

def hexS (s : String) : String := Hex.encode s.toUTF8.toList

open Grammar in
def tokName : Tok → String
  | .lp => "LP" | .rp => "RP" | .lsq => "LSQ" | .rsq => "RSQ" | .comma => "COMMA"
  | .op o => "OP:" ++ opName o
  | .int i => "i:" ++ toString i
  | .float b => "f:" ++ bits16 b
  | .str t => "s:" ++ Hex.encode t
  | .cap n nd => "c:" ++ hexS n ++ ":" ++ (if nd then "1" else "0")
  | .id n => "v:" ++ hexS n
  | .bi n => "b:" ++ hexS n

mutual
def sx : Node → String
  | .int i _ => "(i " ++ toString i ++ ")"
  | .float b _ => "(f " ++ bits16 b ++ ")"
  | .str t _ => "(s " ++ Hex.encode t ++ ")"
  | .cap n nd _ _ => "(c " ++ hexS n ++ " " ++ (if nd then "1" else "0") ++ ")"
  | .idx (.id n _ _) (.exprs as) _ => "(v " ++ hexS n ++ sxs as ++ ")"
  | .builtin n .nil _ _ => "(b " ++ hexS n ++ ")"
  | .builtin n (.exprs as) _ _ => "(b " ++ hexS n ++ sxs as ++ ")"
  | .bin op l r _ => "(N " ++ opName op ++ " " ++ sx l ++ " " ++ sx r ++ ")"
  | .un op e _ _ => "(U " ++ opName op ++ " " ++ sx e ++ ")"
  | _ => "(?)"
def sxs : Nodes → String
  | .nil => ""
  | .cons a as => " " ++ sx a ++ sxs as
end

open Grammar in
def handleExpr (astS : String) : String :=
  match AstWire.parseAst astS with
  | none => "model-cannot-read-ast"
  | some e0 =>
    let e := eraseNode e0
    -- the statement `g = <e>`, as the harness writes it
    let g : Node := .idx (.id "g" dp .unk) (.exprs .nil) .unk
    let ts := toksAssign .assign g e
    let parsed := match parseExprStmt (10 * ts.length + 40) ts with
      | some (.bin .assign _ e' _, []) => sx e'
      | _ => "PARSE-ERROR"
    " ".intercalate (ts.map tokName) ++ " | " ++ parsed ++ " | " ++ (if wf e then "wf" else "outside-theorem")

def handle (f : List String) : String :=
  match f with
  | ["expr", _, _, astS] => handleExpr astS
  | [_, _, "PARSE-ERROR", _] => "rejected"
  | [_, _, "REJECTED", _] => "rejected"
  | [_, _, astS, orc] =>
    match AstWire.parseAst astS with
    | none => "model-cannot-read-ast"
    | some prog =>
      let tb := parseTable orc
      let look := fun (k : String) => match tb.find? (·.1 = k) with | some (_, v) => v | none => "?MISSING?"
      let fm : Fmt := { fmtFloat := fun b => look ("f" ++ bits16 b), fmtDur := fun ns => look ("d" ++ toString ns) }
      Hex.encode (unparse fm prog).toUTF8.toList
  | _ => "bad-case"

end MtailVerif.Driver.C23
