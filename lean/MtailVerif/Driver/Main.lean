import MtailVerif.Driver.C08
import MtailVerif.Driver.C15
import MtailVerif.Driver.C09
import MtailVerif.Driver.C21
import MtailVerif.Driver.C10
import MtailVerif.Driver.C12
import MtailVerif.Driver.C13
import MtailVerif.Driver.C22
import MtailVerif.Driver.Rt
import MtailVerif.Driver.C16
import MtailVerif.Driver.C18
import MtailVerif.Driver.C17
import MtailVerif.Driver.C19
import MtailVerif.Driver.C02
import MtailVerif.Driver.VMSrv
import MtailVerif.Driver.C20
import MtailVerif.Driver.C24
import MtailVerif.Driver.C23
import MtailVerif.Driver.C03
/-! `mtailmodel <prop>`: reads the case lines written by the Go harness on stdin and prints
    `<id> OBS <observation>` computed by the Lean model.  Core Lean only (links as an exe). -/
open MtailVerif MtailVerif.Driver

def handlerFor (prop : String) : Option (List String → String) :=
  match prop with
  | "C08" => some C08.handle
  | "C15" => some C15.handle
  | "C09" => some C09.handle
  | "C21" => some C21.handle
  | "C10" => some C10.handle
  | "C12" => some C12.handle
  | "C13" => some C13.handle
  | "C22" => some C22.handle
  | "C16" => some C16.handle
  | "C18" => some C18.handle
  | "C17" => some C17.handle
  | "C19" => some C19.handle
  | "C02" => some C02.handle
  | "C20" => some C20.handle
  | "C24" => some C24.handle
  | "C23" => some C23.handle
  | "C03" => some C03.handle
  | "C11" => some (fun f => match f with | [_, _, n, _] => s!"n={n}" | _ => "bad-case")
  | "C14" => some Rt.handle
  | "C06" => some Rt.handle
  | "C25" => some (fun f => match f with | "os" :: _ => C19.handle f | _ => Rt.handle f)
  | "C26" => some Rt.handle
  | _ => none

partial def loop (h : IO.FS.Stream) (out : IO.FS.Stream) (f : List String → String) : IO Unit := do
  let line ← h.getLine
  if line.isEmpty then return ()
  let l := line.trimAscii.toString
  if l.isEmpty || l.startsWith "#" then
    loop h out f
  else
    match fields l with
    | id :: rest =>
      out.putStrLn s!"{id} OBS {f rest}"
      loop h out f
    | [] => loop h out f

def main (args : List String) : IO UInt32 := do
  match args with
  | ["VMSRV"] => VMSrv.main
  | [prop] =>
    match handlerFor prop with
    | some f =>
      let out ← IO.getStdout
      loop (← IO.getStdin) out f
      out.flush
      return 0
    | none => IO.eprintln s!"unknown property {prop}"; return 2
  | _ => IO.eprintln "usage: mtailmodel <prop>"; return 2
