import MtailVerif.Driver.Util
import MtailVerif.Generated.ExportLocks
namespace MtailVerif.Driver.C12
open MtailVerif MtailVerif.Driver MtailVerif.ExportLocks

def skeletonFor (name : String) : Option (List Stmt) :=
  let key := match name with
    | "prom" => "Collect" | "push" => "writeSocketMetrics" | "varz" => "HandleVarz" | "graphite" => "HandleGraphite"
    | _ => ""
  (Generated.ExportLocks.all.find? (·.1 == key)).map (·.2)

def isBad (r : Option (Outcome × List Bool)) : Bool :=
  match r with
  | some (.fall c, _) => c.readers != 0 || blocked c || c.underflow
  | some (.returned c, _) => c.readers != 0 || blocked c || c.underflow
  | some (.continued _, _) => true
  | none => true

/-- all fault plans with at most one fault among the first `len` decision points -/
def singleFaultPlans (len : Nat) : List (List Bool) :=
  [] :: (List.range len).map (fun i => List.replicate i false ++ [true])

/-- does some single-fault plan leave the lock held or an emitter blocked, on a metric with
    `l` label sets?  (An export over M metrics runs the closure once per metric.) -/
def anyBad (prog : List Stmt) (l : Nat) : Bool :=
  (singleFaultPlans (16 * (l + 2))).any (fun plan => isBad (exec l (200 * (l + 2)) prog ⟨0, .none, false⟩ plan))

/-- the JSON export leaves something locked iff the regenerated `MarshalJSON` does not release -/
def jsonBad : Bool :=
  match runJ Generated.ExportLocks.marshalJSON {} [] with
  | some s => s.store != 0 || s.metrics != 0
  | none => true

def handle (f : List String) : String :=
  match f with
  | ["exp", "json", m, _] => s!"bad={b2i (m.toNat! > 0 && jsonBad)}"
  | ["exp", name, m, l] =>
    match skeletonFor name with
    | none => "BAD-CASE"
    | some prog =>
      -- with no metrics the closure never runs
      let bad := m.toNat! > 0 && anyBad prog l.toNat!
      s!"bad={b2i bad}"
  | ["stall", _, _, _] =>
    -- the push stalls iff a writing call on the connection has no deadline-setting call before it
    s!"bad={b2i (!deadlineBeforeWrites false Generated.ExportLocks.pushConnCalls)}"
  | "one" :: _ => "-"
  | _ => "BAD-CASE"

end MtailVerif.Driver.C12
