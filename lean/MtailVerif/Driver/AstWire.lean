import MtailVerif.Driver.Util
import MtailVerif.Driver.FloatBits
import MtailVerif.Model.Ast
/-! Reader and writer for the AST wire format of go/harness/main/astdump.go. -/
namespace MtailVerif.Driver.AstWire
open MtailVerif MtailVerif.Driver MtailVerif.Ast

def parsePos (s : String) : Pos :=
  match s.splitOn ":" with
  | [a, b, c] => ⟨a.toInt!, b.toInt!, c.toInt!⟩
  | _ => ⟨-1, -1, -1⟩

def parseTy0 (s : String) : Ty :=
  match s with
  | "Int" => .int | "Float" => .float | "String" => .str | "Bool" => .bool | "Pattern" => .pattern
  | "None" => .none | "Buckets" => .buckets | "Undef" => .undef | "Dim" => .dim | "Var" => .var
  | "Error" => .error | "-" => .unk | _ => .other

def parseTy (s : String) : Ty :=
  if s.endsWith "~" then .via (parseTy0 (s.dropEnd 1).toString) else parseTy0 s

def parseOp (s : String) : Option Op :=
  match s with
  | "INC" => some .inc | "DEC" => some .dec | "DIV" => some .div | "MOD" => some .mod | "MUL" => some .mul
  | "MINUS" => some .minus | "PLUS" => some .plus | "POW" => some .pow | "SHL" => some .shl | "SHR" => some .shr
  | "LT" => some .lt | "GT" => some .gt | "LE" => some .le | "GE" => some .ge | "EQ" => some .eq | "NE" => some .ne
  | "BITAND" => some .bitand | "XOR" => some .xor | "BITOR" => some .bitor | "NOT" => some .not | "AND" => some .and
  | "OR" => some .or | "ADD_ASSIGN" => some .addAssign | "ASSIGN" => some .assign | "MATCH" => some .match
  | "NOT_MATCH" => some .notMatch | _ => none

def strOf (h : String) : String := match Hex.decode h with | some b => String.fromUTF8! ⟨b.toArray⟩ | none => "?"
def bytesOf (h : String) : Bytes := (Hex.decode h).getD []

/-- recursive-descent reader; `none` on malformed input -/
partial def readNode : List String → Option (Node × List String)
  | "_" :: r => some (.nil, r)
  | "S" :: n :: r => do
    let (cs, r) ← readMany n.toNat! r
    pure (.stmts (Nodes.ofList cs), r)
  | "X" :: n :: r => do
    let (cs, r) ← readMany n.toNat! r
    pure (.exprs (Nodes.ofList cs), r)
  | "C" :: r => do
    let (c, r) ← readNode r
    let (t, r) ← readNode r
    let (e, r) ← readNode r
    pure (.cond c t e, r)
  | "I" :: nm :: p :: ty :: r => some (.id (strOf nm) (parsePos p) (parseTy ty), r)
  | "R" :: nm :: nd :: p :: ty :: r => some (.cap (strOf nm) (nd == "1") (parsePos p) (parseTy ty), r)
  | "B" :: nm :: r => do
    let (a, r) ← readNode r
    match r with
    | p :: ty :: r => pure (.builtin (strOf nm) a (parsePos p) (parseTy ty), r)
    | _ => none
  | "N" :: op :: r => do
    let o ← parseOp op
    let (l, r) ← readNode r
    let (rr, r) ← readNode r
    match r with
    | ty :: r => pure (.bin o l rr (parseTy ty), r)
    | _ => none
  | "U" :: op :: r => do
    let o ← parseOp op
    let (e, r) ← readNode r
    match r with
    | p :: ty :: r => pure (.un o e (parsePos p) (parseTy ty), r)
    | _ => none
  | "A" :: r => do
    let (l, r) ← readNode r
    let (i, r) ← readNode r
    match r with
    | ty :: r => pure (.idx l i (parseTy ty), r)
    | _ => none
  | "D" :: k :: nm :: h :: ex :: keys :: lim :: bs :: p :: r =>
    let ks := (parseTuple keys).getD []
    some (.decl ⟨k.toNat!, strOf nm, h == "1", strOf ex, ks.map (fun b => String.fromUTF8! ⟨b.toArray⟩), lim.toInt!,
      parseBitsList bs⟩ (parsePos p), r)
  | "s" :: t :: p :: r => some (.str (bytesOf t) (parsePos p), r)
  | "i" :: n :: p :: r => some (.int n.toInt! (parsePos p), r)
  | "f" :: b :: p :: r => some (.float (parseBits b) (parsePos p), r)
  | "P" :: r => do
    let (e, r) ← readNode r
    match r with
    | pat :: r => pure (.patexpr e (bytesOf pat), r)
    | _ => none
  | "p" :: pat :: p :: r => some (.patlit (bytesOf pat) (parsePos p), r)
  | "K" :: r => do
    let (i, r) ← readNode r
    let (e, r) ← readNode r
    match r with
    | pat :: r => pure (.const i e (bytesOf pat), r)
    | _ => none
  | "E" :: nm :: r => do
    let (b, r) ← readNode r
    match r with
    | p :: r => pure (.decodecl (strOf nm) b (parsePos p), r)
    | _ => none
  | "@" :: nm :: r => do
    let (b, r) ← readNode r
    match r with
    | p :: r => pure (.deco (strOf nm) b (parsePos p), r)
    | _ => none
  | "n" :: p :: r => some (.next (parsePos p), r)
  | "o" :: p :: r => some (.otherwise (parsePos p), r)
  | "t" :: p :: r => some (.stop (parsePos p), r)
  | "d" :: r => do
    let (n, r) ← readNode r
    match r with
    | e :: p :: r => pure (.del n e.toInt! (parsePos p), r)
    | _ => none
  | "V" :: r => do
    let (n, r) ← readNode r
    match r with
    | ty :: r => pure (.conv n (parseTy ty), r)
    | _ => none
  | "!" :: sp :: p :: r => some (.error (bytesOf sp) (parsePos p), r)
  | _ => none
where
  readMany : Nat → List String → Option (List Node × List String)
    | 0, r => some ([], r)
    | k+1, r => do
      let (n, r) ← readNode r
      let (ns, r) ← readMany k r
      pure (n :: ns, r)

/-- the field separator inside an AST field is U+001F -/
def parseAst (field : String) : Option Node :=
  match readNode (field.splitOn "\x1f") with
  | some (n, []) => some n
  | _ => none

end MtailVerif.Driver.AstWire
