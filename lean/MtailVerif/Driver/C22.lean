import MtailVerif.Driver.StoreParse
import MtailVerif.Driver.C13
import MtailVerif.Model.Formats
namespace MtailVerif.Driver.C22
open MtailVerif MtailVerif.Driver MtailVerif.Driver.StoreParse MtailVerif.Formats

def decStr (n : Int) : Bytes := str (toString n)

def zipMap : List Bytes → List Bytes → List (Bytes × Bytes)
  | k :: ks, v :: vs =>
    let rest := zipMap ks vs
    if rest.any (fun p => p.1 = k) then rest else (k, v) :: rest
  | _, _ => []

def toFDatum (l : LS) : FDatum :=
  let valueStr := l.oracle.headD []
  let timeStr := decStr (l.timeNs / 1000000000)
  match l.val with
  | .buckets d _ =>
    let bins := (d.buckets.zip (l.oracle.drop 1)).map (fun p => (p.2, decStr p.1.2))
    ⟨valueStr, timeStr, some (decStr d.count, bins)⟩
  | _ => ⟨valueStr, timeStr, none⟩

def toFMetric (m : M) : FMetric :=
  ⟨m.name, m.prog, m.kind, m.kind == 5 && m.typ == 3,
   m.lsets.map (fun l => ⟨zipMap m.keys l.labels, toFDatum l⟩)⟩

def sortStr := C13.sortStr

/-- Go `strings.SplitAfter(s, "\n")` without the trailing empty piece -/
def splitAfterNl (acc : Bytes) : Bytes → List Bytes
  | [] => if acc.isEmpty then [] else [acc]
  | b :: rest => if b = 10 then (acc ++ [b]) :: splitAfterNl [] rest else splitAfterNl (acc ++ [b]) rest

def canonLines (tag : String) (records : List Bytes) : List String :=
  sortStr ((splitAfterNl [] records.flatten).map (fun x => tag ++ Hex.encode x))

def isNonFinite (b : UInt64) : Bool := let x := Float.ofBits b; x.isNaN || x.isInf

def jsonRecord (m : M) : String :=
  let head := [Hex.encode m.name, Hex.encode m.prog, toString m.kind, toString m.typ, showTuple m.keys]
  let lvs := m.lsets.map (fun l =>
    let vs := match l.val with
      | .int v _ => "n" ++ toString v
      | .float b => "f" ++ C13.canonBitsStr b
      | .str s => "s" ++ Hex.encode s
      | .buckets d _ => "b" ++ toString d.count
    showTuple l.labels ++ "=" ++ vs ++ "@" ++ toString l.timeNs)
  "J" ++ "/".intercalate (head ++ lvs)

def handle (f : List String) : String :=
  match f with
  | ["fmt", host, pfx, omitP, store] =>
    match parseStore store, Hex.decode host, Hex.decode pfx with
    | some ms, some host, some pfx =>
      let omitProg := omitP = "1"
      let fms := ms.map toFMetric
      let perLS := fms.flatMap (fun m => m.lsets.flatMap (fun l =>
        canonLines "G" (graphiteLines pfx m l) ++
        ["S" ++ Hex.encode (statsdRecord pfx m l),
         "C" ++ Hex.encode (collectdRecord host pfx (str "5") m l),
         "V" ++ Hex.encode (varzRecord host omitProg m l)]))
      let hv := canonLines "Hv" (handleAll (fun m l => [varzRecord host omitProg m l]) fms)
      let hg := canonLines "Hg" (handleAll (graphiteLines pfx) fms)
      let nonFinite := ms.any (fun m => m.lsets.any (fun l => match l.val with
        | .float b => isNonFinite b
        | .buckets d _ => d.sum.isNaN || d.sum.isInf
        | _ => false))
      let js := if nonFinite then ["JERROR"] else sortStr (ms.map jsonRecord)
      let all := perLS ++ hv ++ hg ++ js
      if all.isEmpty then "." else " ".intercalate all
    | _, _, _ => "BAD-CASE"
  | "overlap" :: _ => "-"
  | _ => "BAD-CASE"

end MtailVerif.Driver.C22
