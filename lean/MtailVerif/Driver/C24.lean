import MtailVerif.Driver.AstWire
import MtailVerif.Model.Scope
/-! Runs the scope model on the parsed AST of a case (go/harness/main/c24.go). -/
namespace MtailVerif.Driver.C24
open MtailVerif MtailVerif.Driver MtailVerif.Ast MtailVerif.Scope

def kindName : Kind → String
  | .var => "var" | .capref => "capref" | .deco => "deco" | .pattern => "pattern"

def clsName : Cls → String
  | .undeclared => "undeclared" | .undefCapref => "undefCapref" | .undefDeco => "undefDeco"
  | .decoIncomplete => "decoIncomplete" | .nextOutside => "nextOutside" | .nextTwice => "nextTwice"
  | .decoNoSymbols => "decoNoSymbols" | .redeclMetric => "redeclMetric" | .redeclDeco => "redeclDeco"
  | .redeclConst => "redeclConst" | .redeclCapref => "redeclCapref" | .unused k => "unused:" ++ kindName k
  | .regexTooLong => "regexTooLong" | .regexInvalid => "regexInvalid" | .tooDeep => "tooDeep"
  | .bucketsOnNonHistogram => "bucketsOnNonHistogram" | .constNotYet => "constNotYet" | .notAConst => "notAConst"

def parseOracle (s : String) : List (Bytes × Option (List String)) :=
  if s = "." then [] else
  (s.splitOn ";").filterMap fun e =>
    match e.splitOn "=" with
    | [k, v] =>
      (Hex.decode k).map fun kb =>
        (kb, if v = "e" then none
             else some (((parseTuple v).getD []).map fun b => String.fromUTF8! ⟨b.toArray⟩))
    | _ => none

def showErr (e : Err) : String :=
  match e.pos with
  | some p => s!"{clsName e.cls}@{p.line}:{p.startcol}"
  | none => s!"{clsName e.cls}@-1:-1"

def handle (f : List String) : String :=
  match f with
  | [_, _, _, "PARSE-ERROR", _, _] => "parse-error"
  | [_, _, _, _, _, "T1"] => "type-errors"
  | [_, _, _, astS, orc, _] =>
    match AstWire.parseAst astS with
    | none => "model-cannot-read-ast"
    | some prog =>
      let table := parseOracle orc
      let cfg : Cfg := {
        groups := fun pat => match table.find? (·.1 = pat) with
          | some (_, r) => r
          | none => some ["\u0001MISSING-ORACLE"] }
      let errs := (check cfg prog).map showErr
      ",".intercalate (errs.mergeSort (fun a b => a ≤ b))
  | _ => "bad-case"

end MtailVerif.Driver.C24
