import MtailVerif.Driver.Util
import MtailVerif.Driver.FloatBits
import MtailVerif.Model.Prom
/-! Parser for the store description written by the harness (go/harness/main/store_gen.go). -/
namespace MtailVerif.Driver.StoreParse
open MtailVerif MtailVerif.Driver MtailVerif.Buckets

inductive Val
  | int (v : Int) (asFloat : UInt64)
  | float (bits : UInt64)
  | str (s : Bytes)
  | buckets (d : B Float) (maxBits : List UInt64)

structure LS where
  labels : List Bytes
  val : Val
  timeNs : Int
  oracle : List Bytes := []     -- fmt output for the value (and bucket bin names), from Go directly

structure M where
  name : Bytes
  prog : Bytes
  kind : Nat
  typ : Nat
  keys : List Bytes
  source : Bytes
  lsets : List LS

def parseVal (s : String) : Option Val :=
  match s.toList with
  | 'i' :: rest =>
    match (String.ofList rest).splitOn "/" with
    | [d, fb] => some (.int d.toInt! (parseBits fb))
    | _ => none
  | 'f' :: rest => some (.float (parseBits (String.ofList rest)))
  | 's' :: rest => (Hex.decode (String.ofList rest)).map .str
  | 'b' :: rest =>
    match (String.ofList rest).splitOn "/" with
    | [rs, obs] =>
      let ranges : List (Range × UInt64) := if rs = "." then [] else (rs.splitOn ",").map (fun p =>
        match p.splitOn ":" with
        | [a, b] => (⟨bitsToFV (parseBits a), bitsToFV (parseBits b)⟩, parseBits b)
        | _ => (⟨.nan, .nan⟩, 0))
      let d0 : B Float := make 0.0 (ranges.map (·.1))
      let d := (parseBitsList obs).foldl (fun d b => observe (fun s _ => s + Float.ofBits b) d (bitsToFV b)) d0
      -- bits of each bucket's upper bound (an implicit +Inf bucket may have been appended)
      let mb := d.buckets.map (fun p => match p.1.max with
        | .nan => (0x7ff8000000000001 : UInt64)
        | .num k => if k < 0 then UInt64.ofNat (9223372036854775808 + k.natAbs) else UInt64.ofNat k.toNat)
      some (.buckets d mb)
    | _ => none
  | _ => none

def parseLS (s : String) : Option LS :=
  match s.splitOn "^" with
  | [l, v, t] => do
    let labels ← parseTuple l
    let val ← parseVal v
    pure ⟨labels, val, t.toInt!, []⟩
  | [l, v, t, o] => do
    let labels ← parseTuple l
    let val ← parseVal v
    let orc ← parseTuple o
    pure ⟨labels, val, t.toInt!, orc⟩
  | _ => none

def parseMetric (s : String) : Option M :=
  match s.splitOn "~" with
  | [n, p, k, t, ks, src, lss] => do
    let name ← Hex.decode n
    let prog ← Hex.decode p
    let keys ← parseTuple ks
    let source ← Hex.decode src
    let lsets ← if lss = "." then some [] else (lss.splitOn "|").mapM parseLS
    pure ⟨name, prog, k.toNat!, t.toNat!, keys, source, lsets⟩
  | _ => none

def parseStore (s : String) : Option (List M) :=
  if s = "." ∨ s = "" then some [] else (s.splitOn ";").mapM parseMetric

end MtailVerif.Driver.StoreParse
