import MtailVerif.Driver.Util
import MtailVerif.Driver.C13
import MtailVerif.Model.TailerPoll
import MtailVerif.Model.Formats
namespace MtailVerif.Driver.C18
open MtailVerif MtailVerif.Driver MtailVerif.TailerPoll

def str := Formats.str

/-- one path segment against one pattern segment: `*` any run of non-'/' bytes, `?` one byte -/
def segMatch : List UInt8 → List UInt8 → Nat → Bool
  | _, _, 0 => false
  | [], [], _ => true
  | 42 :: ps, s, fuel+1 =>
    segMatch ps s fuel || (match s with | [] => false | _ :: ss => segMatch (42 :: ps) ss fuel)
  | 63 :: ps, _ :: ss, fuel+1 => segMatch ps ss fuel
  | p :: ps, c :: ss, fuel+1 => p == c && segMatch ps ss fuel
  | _, _, _ => false

def splitSlash (b : Bytes) : List Bytes :=
  (b.foldr (fun c (acc : List Bytes) => if c = 47 then [] :: acc else match acc with
    | [] => [[c]]
    | x :: xs => (c :: x) :: xs) [[]])

/-- `filepath.Glob(pattern)` restricted to one existing path (no `[...]`, no escapes) -/
def globMatch (pat path : Bytes) : Bool :=
  let ps := splitSlash pat
  let ss := splitSlash path
  ps.length == ss.length && (ps.zip ss).all (fun x => segMatch x.1 x.2 (x.1.length + x.2.length + 2))

def endsWith (b suf : Bytes) : Bool := b.length ≥ suf.length && b.drop (b.length - suf.length) == suf

def parseOp (s : String) : Option Op :=
  match s.splitOn ":" with
  | ["cf", p] => some (.createFile (str p))
  | ["md", p] => some (.mkdir (str p))
  | ["sl", p] => some (.createOther (str p) .device)   -- a symlink to /dev/null
  | ["so", p] => some (.createOther (str p) .socket)   -- a socket file
  | ["rm", p] => some (.remove (str p))
  | ["mv", p, q] => some (.rename (str p) (str q))
  | ["ap", p, l] => (Hex.decode l).map (.appendLine (str p))
  | ["p"] => some .poll
  | ["pp"] => some .patternPoll
  | _ => none

def showStr (b : Bytes) : String := String.ofList (b.map (fun c => Char.ofNat c.toNat))

/-- removing a non-empty directory fails; renaming or writing into a missing directory fails -/
def guardOp (t : T) (op : Op) : Bool :=
  let parentOk (p : Bytes) : Bool :=
    let segs := splitSlash p
    segs.length ≤ 1 || kindOf t (Formats.intercalate [47] segs.dropLast) == some .dir
  match op with
  | .remove p => !(kindOf t p == some .dir && t.nodes.any (fun n => n.1.length > p.length && n.1.take (p.length + 1) == p ++ [47]))
  | .createFile p => parentOk p
  | .mkdir p => parentOk p
  | .createOther p _ => parentOk p
  | .rename p q => parentOk q && !(kindOf t p == some .dir)
  | _ => true

def handle (f : List String) : String :=
  match f with
  | ["tl", pats, ig, opsS] =>
    -- `r:` relative, `u:`/`v:` uncanonical spellings: filepath.Abs cleans them all to the same path
    let clean (b : Bytes) : Bytes := Formats.intercalate [47] ((splitSlash b).filter (fun seg => seg ≠ [46] ∧ seg ≠ []))
    let patterns := (pats.splitOn ",").map (fun p =>
      if p.startsWith "r:" ∨ p.startsWith "u:" ∨ p.startsWith "v:" then clean (str (p.drop 2).toString) else str p)
    let arg := str (ig.drop 2).toString
    let contains (b sub : Bytes) : Bool := (List.range (b.length + 1)).any (fun i => (b.drop i).take sub.length == sub)
    let ignoreF : Bytes → Bool := fun b =>
      if ig.startsWith "s:" then endsWith b arg
      else if ig.startsWith "p:" then b.take arg.length == arg
      else if ig.startsWith "c:" then contains b arg
      else false
    let cfg : Cfg := ⟨patterns, globMatch, ignoreF⟩
    match (opsS.splitOn ";").mapM parseOp with
    | none => "BAD-CASE"
    | some ops =>
      let (t, outs) := ops.foldl (fun (acc : T × List String) op =>
        let t' := if guardOp acc.1 op then step cfg acc.1 op else acc.1
        match op with
        | .poll => (t', acc.2 ++ ["T[" ++ ",".intercalate (C13.sortStr (t'.streams.map showStr)) ++ "]"])
        | .patternPoll => (t', acc.2 ++ ["T[" ++ ",".intercalate (C13.sortStr (t'.streams.map showStr)) ++ "]"])
        | _ => (t', acc.2)) ({}, [])
      let del := C13.sortStr (t.delivered.map (fun d => showStr d.1 ++ "=" ++ Hex.encode d.2))
      " ".intercalate (outs ++ ["D[" ++ ",".intercalate del ++ "]"])
  | _ => "BAD-CASE"

end MtailVerif.Driver.C18
