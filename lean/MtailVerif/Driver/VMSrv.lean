import Std.Data.HashMap
import MtailVerif.Driver.Util
import MtailVerif.Driver.FloatBits
import MtailVerif.Model.VM
import MtailVerif.Model.VMVerify
import MtailVerif.Generated.VM
import MtailVerif.Driver.AstWire
import MtailVerif.Model.Lower
/-! Interactive model server for the VM (`mtailmodel VMSRV`).  The Go harness writes commands on
    stdin, one per line; standard-library behaviour the model needs (regexp matching, number
    parsing and formatting, `math.Mod`/`Pow`, `strings.ToLower`/`ReplaceAll`, `time.Parse`, the
    clock) is requested with `NEED <query>` lines and answered by the harness, which calls the
    library function directly (not through mtail).

      P <since> <code> <strs> <nre> <metrics>   load a program (resets store and memo)
      S <store>                           set the metric store
      F                                   forget the strptime memo (a freshly loaded VM)
      L <filename> <line>                 process one line;   answer: R <outcome> <store> <memo size>
      V                                   run the bytecode verifier;  answer: V ok | V reject <pc> <why>
      Q                                   quit -/
namespace MtailVerif.Driver.VMSrv
open MtailVerif MtailVerif.Driver MtailVerif.VM

abbrev Table := Std.HashMap String String

/-! ### parsing -/

def opcodeOfName (s : String) : Option Opcode :=
  match s with
  | "Bad" => some .bad | "Stop" => some .stop | "Match" => some .match | "Smatch" => some .smatch
  | "Cmp" => some .cmp | "Jnm" => some .jnm | "Jm" => some .jm | "Jmp" => some .jmp
  | "Inc" => some .inc | "Dec" => some .dec | "Strptime" => some .strptime
  | "Timestamp" => some .timestamp | "Settime" => some .settime | "Push" => some .push
  | "Capref" => some .capref | "Str" => some .str | "Sset" => some .sset | "Iset" => some .iset
  | "Iadd" => some .iadd | "Isub" => some .isub | "Imul" => some .imul | "Idiv" => some .idiv
  | "Imod" => some .imod | "Ipow" => some .ipow | "And" => some .and | "Or" => some .or
  | "Xor" => some .xor | "Neg" => some .neg | "Not" => some .not | "Shl" => some .shl
  | "Shr" => some .shr | "Mload" => some .mload | "Dload" => some .dload | "Iget" => some .iget
  | "Fget" => some .fget | "Sget" => some .sget | "Tolower" => some .tolower
  | "Length" => some .length | "Cat" => some .cat | "Setmatched" => some .setmatched
  | "Otherwise" => some .otherwise | "Del" => some .del | "Expire" => some .expire
  | "Fadd" => some .fadd | "Fsub" => some .fsub | "Fmul" => some .fmul | "Fdiv" => some .fdiv
  | "Fmod" => some .fmod | "Fpow" => some .fpow | "Fset" => some .fset
  | "Getfilename" => some .getfilename | "I2f" => some .i2f | "S2i" => some .s2i
  | "S2f" => some .s2f | "I2s" => some .i2s | "F2s" => some .f2s | "Icmp" => some .icmp
  | "Fcmp" => some .fcmp | "Scmp" => some .scmp | "Subst" => some .subst | "Rsubst" => some .rsubst
  | _ => none

/-- opcodes travel as their Go numeric value; the enumeration order is regenerated from
    internal/runtime/code/opcodes.go -/
def opcodeOfNat (n : Nat) : Option Opcode :=
  (Generated.VM.opcodeNames[n]?).bind opcodeOfName

def parseOperand (s : String) : Option Operand :=
  match s.toList with
  | ['_'] => some .none
  | 'n' :: d => (String.ofList d).toInt?.map .int
  | 'i' :: d => (String.ofList d).toInt?.map .i64
  | 'b' :: d => some (.bool (String.ofList d == "1"))
  | 'f' :: d => some (.f64 (parseBits (String.ofList d)))
  | 'd' :: d => (String.ofList d).toInt?.map .dur
  | _ => none

def parseInstr (s : String) : Option Instr :=
  match s.splitOn ":" with
  | [op, arg] => do
    let o ← op.toNat?.bind opcodeOfNat
    let a ← parseOperand arg
    pure ⟨o, a⟩
  | _ => none

def parseList {α : Type} (sep : String) (f : String → Option α) (s : String) : Option (List α) :=
  if s = "." ∨ s = "" then some [] else (s.splitOn sep).mapM f

def parseRange (s : String) : Option Buckets.Range :=
  match s.splitOn ":" with
  | [a, b] => some ⟨fvKey (parseBits a), fvKey (parseBits b)⟩
  | _ => none

def parseMetricInfo (s : String) : Option MetricInfo :=
  match s.splitOn "/" with
  | [t, k, rs] => do
    let ranges ← parseList "," parseRange rs
    pure ⟨← t.toNat?, ← k.toNat?, ranges⟩
  | _ => none

def parseProg (code strs nre ms : String) : Option Prog := do
  let c ← parseList ";" parseInstr code
  let ss ← parseTuple strs
  let m ← parseList ";" parseMetricInfo ms
  pure ⟨c, ss, ← nre.toNat?, m⟩

/-! ### the store on the wire:  metrics `;`, label values `|`, fields `~` -/

def keyOfFV : Buckets.FV → String
  | .nan => "nan"
  | .num k => toString k

def showDVal : DVal → String
  | .int v => s!"i{v}"
  | .float b => if (Float.ofBits b).isNaN then "fnan" else s!"f{fvToBitsStr (bitsToFV b)}"
  | .str s => s!"s{Hex.encode s}"
  | .buckets b =>
    let cs := ".".intercalate (b.buckets.map (fun p => toString p.2))
    let sum := if (Float.ofBits b.sum).isNaN then "nan" else floatBitsStr (Float.ofBits b.sum)
    s!"b{b.count}/{sum}/{cs}"

def showLV (since : Int) (l : Metric.LV Datum) : String :=
  let t := match l.value.time with
    | none => "N"
    | some ns => if ns ≥ since * 1000000000 then "N" else toString ns
  s!"{showTuple l.labels}~{showDVal l.value.val}~{t}~{l.expiry}"

def showMetric (since : Int) (m : Metric.Metric Datum) : String :=
  if m.lvs.isEmpty then "_" else "|".intercalate (m.lvs.map (showLV since))

/-- timestamps at or after `since` (seconds; the start of the case) came from the wall clock and
    are written `N`, as the harness does for the implementation -/
def showStore (since : Int) (st : MStore) : String :=
  if st.isEmpty then "." else ";".intercalate (st.map (showMetric since))

def parseDVal (mi : MetricInfo) (s : String) : Option DVal :=
  match s.toList with
  | 'i' :: d => (String.ofList d).toInt?.map .int
  | 'f' :: d => some (.float (if String.ofList d == "nan" then 0x7ff8000000000001 else parseBits (String.ofList d)))
  | 's' :: d => (Hex.decode (String.ofList d)).map .str
  | 'b' :: d =>
    match (String.ofList d).splitOn "/" with
    | [c, sum, cs] => do
      let counts ← parseList "." (fun x => x.toNat?) cs
      let b0 : Buckets.B UInt64 := Buckets.make 0 mi.ranges
      let bs := (b0.buckets.zip counts).map (fun p => (p.1.1, p.2))
      pure (.buckets ⟨bs, ← c.toNat?, if sum = "nan" then 0x7ff8000000000001 else parseBits sum⟩)
    | _ => none
  | _ => none

def parseLV (mi : MetricInfo) (s : String) : Option (List Bytes × Datum × Int) :=
  match s.splitOn "~" with
  | [l, v, t, e] => do
    let labels ← parseTuple l
    let val ← parseDVal mi v
    let time := if t = "N" then none else t.toInt?
    pure (labels, ⟨val, time⟩, ← e.toInt?)
  | _ => none

def parseMetric (mi : MetricInfo) (s : String) : Option (Metric.Metric Datum) := do
  let lvs ← if s = "_" then some [] else (s.splitOn "|").mapM (parseLV mi)
  lvs.foldlM (fun m (l : List Bytes × Datum × Int) =>
    match Metric.append m l.1 l.2.1 l.2.2 with
    | .ok m' => some m'
    | .error _ => none) ({ nkeys := mi.nkeys } : Metric.Metric Datum)

def parseStore (p : Prog) (s : String) : Option MStore :=
  if s = "." then (if p.metrics.isEmpty then some [] else none)
  else
    let parts := s.splitOn ";"
    if parts.length ≠ p.metrics.length then none
    else (p.metrics.zip parts).mapM (fun x => parseMetric x.1 x.2)

/-! ### library oracle backed by the answer table -/

def qRe (i : Nat) (s : Bytes) : String := s!"re {i} {Hex.encode s}"
def qPi (s : Bytes) (base : Int) : String := s!"pi {Hex.encode s} {base}"
def qPf (s : Bytes) : String := s!"pf {Hex.encode s}"
def bitsStr (b : UInt64) : String :=
  let hex := Nat.toDigits 16 b.toNat
  String.ofList (List.replicate (16 - hex.length) '0' ++ hex)
def qF2 (name : String) (a b : UInt64) : String := s!"{name} {bitsStr a} {bitsStr b}"
def qI2f (n : Int) : String := s!"i2f {n}"
def qF2i (b : UInt64) : String := s!"f2i {bitsStr b}"
def qFG (b : UInt64) : String := s!"fG {bitsStr b}"
def qFg (b : UInt64) : String := s!"fg {bitsStr b}"
def qLo (s : Bytes) : String := s!"lo {Hex.encode s}"
def qRa (v old new : Bytes) : String := s!"ra {Hex.encode v} {Hex.encode old} {Hex.encode new}"
def qRr (i : Nat) (v repl : Bytes) : String := s!"rr {i} {Hex.encode v} {Hex.encode repl}"
def qTp (layout v : Bytes) : String := s!"tp {Hex.encode layout} {Hex.encode v}"

def miss : Bytes := "\u0001MISSING-ORACLE-ANSWER".toUTF8.toList
def missBits : UInt64 := 0x7ff8dead00000000

def hexAns (tb : Table) (q : String) : Bytes :=
  match (tb.get? q).bind Hex.decode with
  | some b => b
  | none => miss

def bitsAns (tb : Table) (q : String) : UInt64 :=
  match tb.get? q with
  | some a => parseBits a
  | none => missBits

def canonNaN (b : UInt64) : UInt64 := if (Float.ofBits b).isNaN then 0x7ff8000000000001 else b

def mkOracle (tb : Table) : Oracle where
  reMatch i s := match tb.get? (qRe i s) with
    | some "nil" => none
    | some a => parseTuple a
    | none => none
  parseInt s base := (tb.get? (qPi s base)).bind (fun a => if a = "e" then none else a.toInt?)
  parseFloat s := (tb.get? (qPf s)).bind (fun a => if a = "e" then none else some (parseBits a))
  fadd a b := canonNaN (Float.ofBits a + Float.ofBits b).toBits
  fsub a b := canonNaN (Float.ofBits a - Float.ofBits b).toBits
  fmul a b := canonNaN (Float.ofBits a * Float.ofBits b).toBits
  fdiv a b := canonNaN (Float.ofBits a / Float.ofBits b).toBits
  fmod a b := bitsAns tb (qF2 "fmod" a b)
  fpow a b := bitsAns tb (qF2 "fpow" a b)
  fcmp a b k :=
    let x := Float.ofBits a
    let y := Float.ofBits b
    if k = -1 then x < y else if k = 0 then x == y else x > y
  i2f n := bitsAns tb (qI2f n)
  f2i b := match (tb.get? (qF2i b)).bind String.toInt? with | some n => n | none => 0
  fmtG b := hexAns tb (qFG b)
  fmtg b := hexAns tb (qFg b)
  toLower s := hexAns tb (qLo s)
  replaceAll v old new := hexAns tb (qRa v old new)
  reReplace i v repl := hexAns tb (qRr i v repl)
  timeParse layout v := (tb.get? (qTp layout v)).bind (fun a => if a = "e" then none else a.toInt?)
  nowSec := match (tb.get? "now").bind String.toInt? with | some n => n | none => 0

/-! ### which answers the next instruction may consult (conservative; iterated to a fixpoint
    because an answer can determine the next question) -/

def peekString (o : Oracle) (st : MStore) (dead : List (Nat × Metric.LV Datum)) (stack : List Val) :
    Option (Bytes × List Val) :=
  match popString o st dead stack with
  | .ok s rest => some (s, rest)
  | _ => none

def peekInt (o : Oracle) (st : MStore) (dead : List (Nat × Metric.LV Datum)) (stack : List Val) :
    Option (Int × List Val) :=
  match popInt o st dead stack with
  | .ok s rest => some (s, rest)
  | _ => none

def peekFloat (o : Oracle) (st : MStore) (dead : List (Nat × Metric.LV Datum)) (stack : List Val) :
    Option (UInt64 × List Val) :=
  match popFloat o st dead stack with
  | .ok s rest => some (s, rest)
  | _ => none

def genericQs (st : MStore) (dead : List (Nat × Metric.LV Datum)) (v : Val) : List String :=
  match v with
  | .str s => [qPi s 10, qPf s]
  | .int n => [qI2f n]
  | .i64 n => [qI2f n]
  | .f64 b => [qFG b, qFg b, qF2i b]
  | .datum m lv =>
    (match getD st dead m lv with
     | some ⟨.int x, _⟩ => [qI2f x]
     | some ⟨.float x, _⟩ => [qFG x, qFg x, qF2i x]
     | some ⟨.str s, _⟩ => [qPi s 10, qPf s]
     | _ => [])
  | _ => []

def queriesOf (tb : Table) (p : Prog) (inp : Input) (i : Instr) (t : Thread) (st : MStore) : List String :=
  let o := mkOracle tb
  let dead := t.dead
  let stack := t.stack
  let generic := (stack.take 4).flatMap (genericQs st dead)
  let idx : Nat := match argInt i with | some n => n.toNat | none => 0
  let specific : List String :=
    match i.op with
    | .match => [qRe idx inp.line]
    | .smatch => (match peekString o st dead stack with | some (s, _) => [qRe idx s] | none => [])
    | .tolower => (match peekString o st dead stack with | some (s, _) => [qLo s] | none => [])
    | .s2i =>
      (match i.arg with
       | .none => (match peekString o st dead stack with | some (s, _) => [qPi s 10] | none => [])
       | _ => (match peekInt o st dead stack with
               | some (b, r) => (match peekString o st dead r with | some (s, _) => [qPi s b] | none => [])
               | none => []))
    | .s2f => (match peekString o st dead stack with | some (s, _) => [qPf s] | none => [])
    | .subst =>
      (match peekString o st dead stack with
       | some (v, r1) => (match peekString o st dead r1 with
         | some (repl, r2) => (match peekString o st dead r2 with
           | some (old, _) => [qRa v old repl]
           | none => [])
         | none => [])
       | none => [])
    | .rsubst =>
      (match peekInt o st dead stack with
       | some (pat, r1) => (match peekString o st dead r1 with
         | some (v, r2) => (match peekString o st dead r2 with
           | some (repl, _) => [qRr pat.toNat v repl]
           | none => [])
         | none => [])
       | none => [])
    | .fmod | .fpow =>
      (match peekFloat o st dead stack with
       | some (b, r1) => (match peekFloat o st dead r1 with
         | some (a, _) => [qF2 (if i.op = .fmod then "fmod" else "fpow") a b]
         | none => [])
       | none => [])
    | .ipow =>
      (match peekInt o st dead stack with
       | some (b, r1) => (match peekInt o st dead r1 with
         | some (a, _) =>
           let fa := o.i2f a
           let fb := o.i2f b
           [qI2f a, qI2f b, qF2 "fpow" fa fb, qF2i (o.fpow fa fb)]
         | none => [])
       | none => [])
    | .sset => (match peekString o st dead stack with | some (s, _) => [qPf s] | none => [])
    | .iset => (match peekInt o st dead stack with | some (n, _) => [qI2f n] | none => [])
    | .timestamp => ["now"]
    | .strptime =>
      (match peekString o st dead stack with
       | some (layout, r1) =>
         (match peekString o st dead r1 with
          | some (s, _) => [qTp layout s]
          | none => [])
       | none => [])
    | _ => []
  generic ++ specific


/-! ### C01: lowering a checked AST, and the reference semantics -/

def opcodeNum (op : Opcode) : Nat :=
  let name := match (List.range Generated.VM.opcodeNames.length).find? (fun k =>
      ((Generated.VM.opcodeNames[k]?).bind opcodeOfName) == some op) with
    | some k => k
    | none => 0
  name

def bits16 (b : UInt64) : String :=
  let hex := Nat.toDigits 16 b.toNat
  String.ofList (List.replicate (16 - hex.length) '0' ++ hex)

def showOperand : Operand → String
  | .none => "_" | .int n => s!"n{n}" | .bool b => if b then "b1" else "b0" | .i64 n => s!"i{n}"
  | .f64 b => "f" ++ bits16 b | .dur n => s!"d{n}"

def hxB (b : Bytes) : String := if b.isEmpty then "-" else Hex.encode b

def showLowered (l : Lower.Lowered) : String :=
  let code := if l.vm.code.isEmpty then "." else
    ";".intercalate (l.vm.code.map fun i => s!"{opcodeNum i.op}:{showOperand i.arg}")
  let strs := if l.vm.strs.isEmpty then "." else ",".intercalate (l.vm.strs.map hxB)
  let ms := if l.decls.isEmpty then "." else
    ";".intercalate (l.decls.map fun m =>
      let rs := if m.rbits.isEmpty then "." else ",".intercalate (m.rbits.map fun r => bits16 r.1 ++ ":" ++ bits16 r.2)
      s!"{m.typ}/{m.nkeys}/{rs}")
  s!"{code} {strs} {l.vm.nre} {ms} " ++ ",".intercalate ("R" :: l.patterns.map hxB)

def parsePos (s : String) : Option Ast.Pos :=
  match s.splitOn ":" with
  | [a, b, c] => do pure ⟨← a.toInt?, ← b.toInt?, ← c.toInt?⟩
  | _ => none

def parseRefs (s : String) : Lower.Refs :=
  if s = "." then {} else
  (s.splitOn ";").foldl (fun (r : Lower.Refs) e =>
    match e.splitOn "=" with
    | [k, v] =>
      let kind := k.take 1
      match parsePos (k.drop 1).toString with
      | none => r
      | some p =>
        let f := v.splitOn ","
        if kind.toString == "I" then
          match f with
          | [kd, decl, lv, elt] =>
            { r with ids := (p, ⟨kd.toList.headD 'o', parsePos decl, lv == "1", AstWire.parseTy elt⟩) :: r.ids }
          | _ => r
        else if kind.toString == "C" then
          match f with
          | [key, addr] => { r with caps := (p, (parsePos key, addr.toInt?.getD (-1))) :: r.caps }
          | _ => r
        else if kind.toString == "D" then { r with decos := (p, parsePos v) :: r.decos }
        else if kind.toString == "V" then { r with vars := (p, AstWire.parseTy v) :: r.vars }
        else if kind.toString == "G" then
          { r with groups := (p, if v == "-" then [] else f.map fun h => if h == "-" then "" else AstWire.strOf h) :: r.groups }
        else r
    | _ => r) {}

def outcomeOf (o : Outcome) : String := match o with
  | .done => "done" | .stopped => "stop" | .err e => s!"err:{repr e}" | .fault f => s!"fault:{repr f}"
  | .fuel => "fuel"

/-! ### the server -/

structure Srv where
  prog : Prog := ⟨[], [], 0, []⟩
  store : MStore := []
  memo : Memo := []
  table : Table := {}
  since : Int := 0
  ir : Option IR.Ss := none

def showOutcome : Outcome → String
  | .done => "done" | .stopped => "stop" | .err e => s!"err:{repr e}" | .fault f => s!"fault:{repr f}"
  | .fuel => "fuel"

partial def ask (inS outS : IO.FS.Stream) (tb : Table) (qs : List String) : IO Table := do
  let mut tb := tb
  for q in qs do
    if !tb.contains q then
      outS.putStrLn s!"NEED {q}"
      outS.flush
      let a ← inS.getLine
      tb := tb.insert q a.trimAscii.toString
  return tb

partial def ensure (inS outS : IO.FS.Stream) (tb : Table) (p : Prog) (inp : Input) (i : Instr) (t : Thread)
    (st : MStore) : IO Table := do
  let qs := (queriesOf tb p inp i t st).filter (fun q => !tb.contains q)
  if qs.isEmpty then return tb
  let tb' ← ask inS outS tb qs
  ensure inS outS tb' p inp i t st

partial def runLineIO (inS outS : IO.FS.Stream) (srv : Srv) (inp : Input) (fuel : Nat) (t : Thread) :
    IO (Outcome × Srv) := do
  if fuel = 0 then return (.fuel, srv)
  match srv.prog.code[t.pc]? with
  | none => return (.done, srv)
  | some i =>
    let tb ← ensure inS outS srv.table srv.prog inp i t srv.store
    let (r, memo') := step (mkOracle tb) srv.prog inp i t srv.store srv.memo
    let srv := { srv with table := tb, memo := memo' }
    match r with
    | .next t' st' => runLineIO inS outS { srv with store := st' } inp (fuel - 1) t'
    | .stop st' => return (.stopped, { srv with store := st' })
    | .err e st' => return (.err e, { srv with store := st' })
    | .fault f st' => return (.fault f, { srv with store := st' })

partial def serve (inS outS : IO.FS.Stream) (srv : Srv) : IO Unit := do
  let line ← inS.getLine
  if line.isEmpty then return ()
  match fields line.trimAscii.toString with
  | ["Q"] => return ()
  | ["P", since, code, strs, nre, ms] =>
    match parseProg code strs nre ms with
    | some p =>
      outS.putStrLn "P ok"; outS.flush
      serve inS outS { srv with prog := p, store := [], memo := [], table := {}, since := since.toInt?.getD 0 }
    | none => outS.putStrLn "P bad"; outS.flush; serve inS outS srv
  | ["A", since, astS, refsS] =>
    match AstWire.parseAst astS with
    | none => outS.putStrLn "A unsupported model-cannot-read-ast"; outS.flush; serve inS outS srv
    | some root =>
      match Lower.lower (parseRefs refsS) root with
      | .error e =>
        if e.startsWith "RESOLUTION" then outS.putStrLn s!"A resolution {e}" else outS.putStrLn s!"A unsupported {e}"
        outS.flush; serve inS outS srv
      | .ok l =>
        let cls := if IR.okSs l.prog then "okT" else "okN"
        outS.putStrLn s!"A {cls} {showLowered l}"; outS.flush
        serve inS outS { srv with prog := l.vm, ir := some l.prog, store := [], memo := [], table := {},
                                  since := since.toInt?.getD 0 }
  | ["S", s] =>
    match parseStore srv.prog s with
    | some st => outS.putStrLn "S ok"; outS.flush; serve inS outS { srv with store := st }
    | none => outS.putStrLn "S bad"; outS.flush; serve inS outS srv
  | ["F"] => outS.putStrLn "F ok"; outS.flush; serve inS outS { srv with memo := [] }
  | ["L", fname, text] =>
    match Hex.decode fname, Hex.decode text with
    | some f, some l =>
      -- the wall clock is asked for once per line
      let srv := { srv with table := srv.table.erase "now" }
      let (out, srv') ← runLineIO inS outS srv ⟨f, l⟩ 100000 {}
      let sem := match srv.ir with
        | none => ""
        | some ir =>
          -- the reference semantics, with the library answers the VM run collected
          let r := IR.semLine (mkOracle srv'.table) srv.prog ir ⟨f, l⟩ srv.store srv.memo
          s!" SEM {outcomeOf r.out} {showStore srv'.since r.store}"
      outS.putStrLn (s!"R {showOutcome out} {showStore srv'.since srv'.store} {srv'.memo.length}" ++ sem)
      outS.flush
      serve inS outS srv'
    | _, _ => outS.putStrLn "R bad"; outS.flush; serve inS outS srv
  | ["V"] =>
    outS.putStrLn (match Verify.verifyProg srv.prog with
      | .ok _ => "V ok"
      | .error (pc, why) => s!"V reject {pc} {why}")
    outS.flush
    serve inS outS srv
  | _ => outS.putStrLn "? bad command"; outS.flush; serve inS outS srv

def main : IO UInt32 := do
  serve (← IO.getStdin) (← IO.getStdout) {}
  return 0

end MtailVerif.Driver.VMSrv
