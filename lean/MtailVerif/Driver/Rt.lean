import MtailVerif.Driver.Util
import MtailVerif.Driver.C13
import MtailVerif.Model.Runtime
import MtailVerif.Generated.Runtime
import MtailVerif.Model.Formats
/-! Driver for the program-loader histories (C06, C14, C25, C26); see go/harness/main/rt.go. -/
namespace MtailVerif.Driver.Rt
open MtailVerif MtailVerif.Driver MtailVerif.Runtime

def cfg : Cfg := ⟨Generated.Runtime.addCopiesExpiry, Generated.Runtime.registrationErrorCounted⟩

def parseDecl (s : String) : Option (SMetric × Nat) :=
  match s.splitOn "/" with
  | [n, k, t, ks, pos, hid, eff] => do
    let name ← Hex.decode n
    let keys ← parseTuple ks
    let p ← Hex.decode pos
    pure ({ name := name, prog := [], kind := k.toNat!, typ := t.toNat!, keys := keys, source := p, hidden := hid = "1" }, eff.toNat!)
  | [n, k, t, ks, pos, hid, eff, bk] => do
    let name ← Hex.decode n
    let keys ← parseTuple ks
    let p ← Hex.decode pos
    let b ← Hex.decode bk
    pure ({ name := name, prog := [], kind := k.toNat!, typ := t.toNat!, keys := keys, source := p, hidden := hid = "1", buckets := b }, eff.toNat!)
  | _ => none

def parseVersion (s : String) : Option (Nat × Version) :=
  match s.splitOn "=" with
  | [vid, body] =>
    match body.splitOn "," with
    | h :: c :: re :: rest =>
      let ds := ",".intercalate rest
      let decls := if ds = "." then some [] else (ds.splitOn "+").mapM parseDecl
      decls.map (fun ds => ((vid.drop 1).toString.toNat!, { hash := h.toNat!, compiles := c = "1", decls := ds.map (·.1), effect := ds.map (·.2), runtimeError := re = "1" }))
    | _ => none
  | _ => none

structure Env where
  rt : RT := {}
  files : List (Bytes × Option Nat) := []    -- name ↦ some version | none = directory

def bytesLe (a b : Bytes) : Bool := a = b || Formats.bytesLt a b
def insertFile (p : Bytes × Option Nat) : List (Bytes × Option Nat) → List (Bytes × Option Nat)
  | [] => [p]
  | q :: rest => if q.1 = p.1 then p :: rest else if Formats.bytesLt p.1 q.1 then p :: q :: rest else q :: insertFile p rest

/-- program source positions are prefixed with the program (file) name by the compiler -/
def instantiate (name : Bytes) (v : Version) : Version :=
  { v with decls := v.decls.map (fun d =>
      { d with source := name ++ [58] ++ d.source,
               -- codegen allocates the datum of a scalar counter and of a histogram without keys at
               -- compile time
               lvs := if d.keys.isEmpty ∧ (d.kind = 1 ∨ d.kind = 5) then [⟨[], 0, 0⟩] else [] }) }

def listing (cat : List (Nat × Version)) (files : List (Bytes × Option Nat)) : List Entry :=
  files.filterMap (fun f => match f.2 with
    | none => some (.dir f.1)
    | some v => (cat.find? (·.1 = v)).map (fun cv => Entry.file f.1 (instantiate f.1 cv.2)))

def str := Formats.str

def applyOp (cat : List (Nat × Version)) (e : Env) (op : String) : Env :=
  match op.splitOn ":" with
  | ["w", f, v] =>
    -- a path inside a sub-directory is not a directory entry; writing over a directory fails
    if (str f).contains 47 ∨ e.files.any (fun p => p.1 = str f ∧ p.2.isNone) then e
    else { e with files := insertFile (str f, some v.toNat!) e.files }
  | ["rm", f] => { e with files := e.files.filter (·.1 ≠ str f) }
  | ["mv", f, g] =>
    match e.files.find? (·.1 = str f) with
    | some p =>
      if p.2.isNone ∨ e.files.any (fun q => q.1 = str g ∧ q.2.isNone) then e   -- only plain files are renamed
      else { e with files := insertFile (str g, p.2) (e.files.filter (·.1 ≠ str f)) }
    | none => e
  | ["mkdir", f] => if e.files.any (·.1 = str f) then e else { e with files := insertFile (str f, none) e.files }
  | ["load"] => { e with rt := loadAll cfg e.rt (listing cat e.files) }
  | ["l", k] => { e with rt := line e.rt (str k) true }
  | ["n", _] => { e with rt := line e.rt [] false }
  | ["gc"] => e
  | ["x", f, m, k, ms] =>
    { e with rt := { e.rt with store := e.rt.store.map (fun p =>
        if p.1 = str m then (p.1, p.2.map (fun mm =>
          if mm.prog = str f then
            { mm with lvs := mm.lvs.map (fun l => if l.labels = mm.keys.map (fun _ => str k) then { l with expiry := ms.toInt! } else l) }
          else mm)) else p) } }
  | _ => e

def sortStr := C13.sortStr

def showCounters (r : RT) : String :=
  let mk (pfx : String) (l : List (Bytes × Nat)) := l.map (fun p => s!"{pfx}/{String.ofList (p.1.map (fun b => Char.ofNat b.toNat))}={p.2}")
  let all := mk "prog_loads_total" r.loads ++ mk "prog_unloads_total" r.unloads ++
    mk "prog_load_errors_total" r.loadErrors ++ mk "prog_runtime_errors_total" r.runtimeErrors ++
    (if r.lineCount > 0 then [s!"lines_total={r.lineCount}"] else [])
  ",".intercalate (sortStr all)

def lseenName : Bytes := str "lseen"

def showStore (s : Store) : String :=
  let ms := s.flatMap (·.2)
  let lines := ms.map (fun m =>
    -- a histogram's datum is not a number: the harness prints `?` for it
    let lvs := ",".intercalate (m.lvs.map (fun l => s!"{showTuple l.labels}={if m.typ = 3 then "?" else toString l.value}/x{l.expiry}"))
    s!"{Hex.encode m.name}/{Hex.encode m.prog}/{m.kind}/{m.typ}/{showTuple m.keys}/{Hex.encode m.source}" ++ "{" ++ lvs ++ "}")
  " ".intercalate (sortStr lines)

def showHandles (r : RT) : String :=
  ",".intercalate (sortStr (r.handles.map (fun h => s!"{String.ofList (h.1.map (fun b => Char.ofNat b.toNat))}=v{h.2.hash}")))

def dump (e : Env) : String :=
  s!"H[{showHandles e.rt}] C[{showCounters e.rt}] S[{showStore e.rt.store}]"

def handle (f : List String) : String :=
  match f with
  | ["rt", catS, opsS] =>
    match (catS.splitOn ";").mapM parseVersion with
    | none => "BAD-CASE"
    | some cat =>
      let ops := opsS.splitOn ";"
      let (e, outs) := ops.foldl (fun (acc : Env × List String) op =>
        let e' := applyOp cat acc.1 op
        if op = "load" then (e', acc.2 ++ [dump e']) else (e', acc.2)) ({}, [])
      " || ".intercalate (outs ++ [dump e])
  | "conc" :: _ => "-"
  | "rterr" :: _ => "-"
  | _ => "BAD-CASE"

end MtailVerif.Driver.Rt
