import MtailVerif.Driver.Util
import MtailVerif.Model.Conn
import MtailVerif.Generated.Conn
import MtailVerif.Model.Formats
namespace MtailVerif.Driver.C17
open MtailVerif MtailVerif.Driver MtailVerif.Conn

def parseEv (kind : String) (s : String) : Option Ev :=
  let cid (c : String) : Nat := if kind = "unixgram" then 0 else c.toNat!
  match s.splitOn ":" with
  | ["o", c] => if kind = "unixgram" then none else some (.accept (cid c))
  | ["w", c, h] => (Hex.decode h).map (.data (cid c))
  | ["x", c] => if kind = "unixgram" then none else some (.close (cid c))
  | ["z"] => some .cancel
  | _ => none

/-- the bulk event `W:<c>:<count>:<len>`: `count` writes of one `len`-byte line each -/
def bulkLine (c : String) (i len : Nat) : Bytes :=
  let num := toString i
  let head := s!"c{c}-{"".pushn '0' (6 - num.length)}{num} ".toUTF8.toList
  let rec pad (l : Bytes) (fuel : Nat) : Bytes :=
    match fuel with
    | 0 => l
    | fuel+1 => if l.length < len - 1 then pad (l ++ [(97 + (i + l.length) % 26).toUInt8]) fuel else l
  pad head len ++ [10]

def expand (s : String) : List String :=
  match s.splitOn ":" with
  | ["W", c, n, len] => (List.range n.toNat!).map (fun i => s!"w:{c}:{Hex.encode (bulkLine c i len.toNat!)}")
  | _ => [s]

def handle (f : List String) : String :=
  match f with
  -- many rounds of "connect while cancelling": the model has nothing to say beyond "it ends"
  | ["race", _, _] => "race-done"
  | ["sock", kind, evS] =>
    -- a pipe or a datagram socket has one reader for its whole life and ends by itself: it behaves
    -- as a one-shot listener with a single connection whose closer also reacts to cancellation
    let single := kind = "fifo" ∨ kind = "unixgram"
    let cfg : Cfg := ⟨kind = "fifo", if single then true else Generated.Conn.closerWaitsForCancelToo⟩
    let s0 : S := if kind = "unixgram" then step cfg {} (.accept 0) else {}
    let evs := ((evS.splitOn ";").flatMap expand).filterMap (parseEv kind)
    let s := evs.foldl (fun s ev =>
      if s.cancelled ∨ (kind = "fifo" ∧ s.linesClosed) then s
      else match ev with
        | .close c =>
          -- a pipe whose writer closes before writing anything keeps waiting for data
          match s.conns.find? (·.id = c) with
          | some h => if kind = "fifo" ∧ h.seen.isEmpty then s else step cfg s ev
          | none => s
        | _ => step cfg s ev) s0
    -- per connection, in each connection's own order (stable sort by the "c<k>-" tag of the line)
    let tagOf (l : Bytes) : Bytes :=
      if l.head? = some 99 ∧ l.contains 45 ∧ (l.takeWhile (· ≠ 45)).length > 0 then l.takeWhile (· ≠ 45) else []
    let ins (x : Bytes) (acc : List Bytes) : List Bytes :=
      let rec go : List Bytes → List Bytes
        | [] => [x]
        | y :: ys => if Formats.bytesLt (tagOf x) (tagOf y) then x :: y :: ys else y :: go ys
      go acc
    let sorted := (s.out.map (·.2)).foldl (fun acc x => ins x acc) []
    s!"{showTuple sorted} closed={b2i s.linesClosed}"
  | _ => "BAD-CASE"

end MtailVerif.Driver.C17
