import MtailVerif.Driver.Util
import MtailVerif.Model.Lexer
/-! Runs the lexer model on the runes and InRegex flags of a case (go/harness/main/c03.go). -/
namespace MtailVerif.Driver.C03
open MtailVerif MtailVerif.Driver MtailVerif.Lexer

def kindName : K → String
  | .NL => "NL" | .LCURLY => "LCURLY" | .RCURLY => "RCURLY" | .LPAREN => "LPAREN" | .RPAREN => "RPAREN"
  | .LSQUARE => "LSQUARE" | .RSQUARE => "RSQUARE" | .COMMA => "COMMA" | .DEC => "DEC" | .MINUS => "MINUS"
  | .INC => "INC" | .ADD_ASSIGN => "ADD_ASSIGN" | .PLUS => "PLUS" | .POW => "POW" | .MUL => "MUL" | .EQ => "EQ"
  | .MATCH => "MATCH" | .ASSIGN => "ASSIGN" | .LE => "LE" | .SHL => "SHL" | .LT => "LT" | .GE => "GE" | .SHR => "SHR"
  | .GT => "GT" | .NE => "NE" | .NOT_MATCH => "NOT_MATCH" | .DIV => "DIV" | .MOD => "MOD" | .AND => "AND"
  | .BITAND => "BITAND" | .OR => "OR" | .BITOR => "BITOR" | .XOR => "XOR" | .NOT => "NOT" | .EOF => "EOF"
  | .INVALID => "INVALID" | .INTLITERAL => "INTLITERAL" | .FLOATLITERAL => "FLOATLITERAL"
  | .DURATIONLITERAL => "DURATIONLITERAL" | .STRING => "STRING" | .CAPREF => "CAPREF" | .CAPREF_NAMED => "CAPREF_NAMED"
  | .BUILTIN => "BUILTIN" | .ID => "ID" | .REGEX => "REGEX" | .DECO => "DECO"
  | .KW n => n

def hexRunes (t : List Nat) : String :=
  if t.isEmpty then "-" else Hex.encode (spell t).toUTF8.toList

def renderTok (t : Tok) : String :=
  let sp := match t.kind, t.err with
    | .INVALID, 1 => "U" ++ toString t.errRune
    | .INVALID, 2 => "S" ++ hexRunes t.text
    | .INVALID, 3 => "X" ++ hexRunes t.text
    | _, _ => hexRunes t.text
  kindName t.kind ++ ":" ++ sp ++ ":" ++ toString t.line ++ ":" ++ toString t.startcol ++ ":" ++ toString t.endcol

def parseRunes (s : String) : List R :=
  if s = "." then [] else
  (s.splitOn ",").filterMap fun e =>
    match e.splitOn ":" with
    | [a, b, c] => match a.toNat?, b.toNat?, c.toNat? with
      | some a, some b, some c => some ⟨a, b, c⟩
      | _, _, _ => none
    | _ => none

def lexAll : List Bool → List R → C → List Tok → List Tok
  | [], _, _, acc => acc.reverse
  | f :: fs, inp, c, acc =>
    let ((t, inp', c'), stopped) := nextToken inp c f
    if stopped then (t :: acc).reverse else lexAll fs inp' c' (t :: acc)

def handle (f : List String) : String :=
  match f with
  | ["src", _, runes, flags] =>
    let flags := if flags.startsWith "!" then (flags.drop 1).toString else flags
    let fl := if flags = "." then [] else flags.toList.map (· == '1')
    let toks := lexAll fl (parseRunes runes) {} []
    (if toks.isEmpty then "." else " ".intercalate (toks.map renderTok)) ++ " disc=ok"
  | _ => "bad-case"

end MtailVerif.Driver.C03
