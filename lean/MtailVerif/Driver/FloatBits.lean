import MtailVerif.Model.Buckets
/-! IEEE-754 bits on the wire ↔ the order key used by the model; sums use Lean's `Float`
    (binary64, round-to-nearest-even — the same operation Go performs on amd64/arm64). -/
namespace MtailVerif.Driver
open MtailVerif.Buckets

def hexVal (c : Char) : Nat :=
  if '0' ≤ c ∧ c ≤ '9' then c.toNat - 48 else if 'a' ≤ c ∧ c ≤ 'f' then c.toNat - 87 else 0

def parseBits (s : String) : UInt64 :=
  UInt64.ofNat (s.toList.foldl (fun acc c => acc * 16 + hexVal c) 0)

def bitsToFV (b : UInt64) : FV :=
  let n := b.toNat
  let mag := n % 9223372036854775808       -- clear the sign bit
  let neg := n ≥ 9223372036854775808
  if mag > 9218868437227405312 then .nan    -- exponent all ones, mantissa non-zero
  else if neg then .num (-(mag : Int)) else .num (mag : Int)

def fvToBitsStr (v : FV) : String :=
  match v with
  | .nan => "nan"
  | .num k =>
    let n : Nat := if k < 0 then 9223372036854775808 + k.natAbs else k.toNat
    let hex := (Nat.toDigits 16 n)
    String.ofList (List.replicate (16 - hex.length) '0' ++ hex)

def floatBitsStr (x : Float) : String :=
  if x.isNaN then "nan" else
    let hex := Nat.toDigits 16 x.toBits.toNat
    String.ofList (List.replicate (16 - hex.length) '0' ++ hex)

def parseBitsList (s : String) : List UInt64 :=
  if s = "." ∨ s = "" then [] else (s.splitOn ",").map parseBits

end MtailVerif.Driver
