import MtailVerif.Driver.StoreParse
namespace MtailVerif.Driver.C13
open MtailVerif MtailVerif.Driver MtailVerif.Driver.StoreParse MtailVerif.Prom

def kindOf : Nat → Kind
  | 1 => .counter | 2 => .gauge | 3 => .timer | 4 => .text | 5 => .histogram | _ => .other

def toDatum (l : LS) : Datum :=
  let tms := l.timeNs / 1000000
  match l.val with
  | .int _ f => ⟨f, tms, none⟩
  | .float b => ⟨b, tms, none⟩
  | .str _ => ⟨0, tms, none⟩
  | .buckets d mb =>
    ⟨0, tms, some (d.count, d.sum.toBits, (d.buckets.zip mb).map (fun p => (p.1.1.max, p.2, p.1.2)))⟩

def toMetric (m : M) : Metric :=
  ⟨m.name, m.prog, kindOf m.kind, m.keys, m.lsets.map (fun l => ⟨l.labels, toDatum l⟩)⟩

def canonBitsStr (b : UInt64) : String :=
  let x := Float.ofBits b
  if x == 0 then "0000000000000000" else floatBitsStr x

/-- insertion sort on strings (small lists) -/
def insertStr (s : String) : List String → List String
  | [] => [s]
  | t :: rest => if s ≤ t then s :: t :: rest else t :: insertStr s rest
def sortStr (l : List String) : List String := l.foldl (fun acc s => insertStr s acc) []

def showLabels (ls : List (Bytes × Bytes)) : String :=
  ",".intercalate (sortStr (ls.map (fun p => Hex.encode p.1 ++ "=" ++ Hex.encode p.2)))

def showSample (s : Sample) : String :=
  let ts := match s.timeMs with | some t => toString t | none => "-"
  let head := Hex.encode s.name ++ "{" ++ showLabels s.labels ++ "}"
  match s.typ with
  | .counter => s!"{head}:c:{canonBitsStr s.value}:{ts}"
  | .gauge => s!"{head}:g:{canonBitsStr s.value}:{ts}"
  | .untyped => s!"{head}:u:{canonBitsStr s.value}:{ts}"
  | .histogram =>
    let bs := ",".intercalate (s.cum.map (fun p => canonBitsStr p.1 ++ "=" ++ toString p.2))
    s!"{head}:h:{canonBitsStr s.value}:{ts}:{s.count}:{bs}"

def handle (f : List String) : String :=
  match f with
  -- a fifth field says which earlier version of the store the same exporter scraped before: what
  -- is exposed is a function of the store as it is now
  | ["prom", omitP, ts, store, _] => handle ["prom", omitP, ts, store]
  | ["prom", omitP, ts, store] =>
    match parseStore store with
    | none => "BAD-CASE"
    | some ms =>
      let cfg : Config := ⟨omitP = "1", ts = "1"⟩
      let samples := collect cfg ([], []) (ms.map toMetric)
      if samples.isEmpty then "." else " ".intercalate (sortStr (samples.map showSample))
  | _ => "BAD-CASE"

end MtailVerif.Driver.C13
