import MtailVerif.Driver.Util
import MtailVerif.Driver.C13
import MtailVerif.Model.Witness
namespace MtailVerif.Driver.C19
open MtailVerif MtailVerif.Driver MtailVerif.Witness

/-- the model's prediction uses one particular order-preserving interleaving (file after file);
    `C19.witness_result_schedule_independent` shows the choice does not matter -/
def handle (f : List String) : String :=
  match f with
  | ["os", _procs, kinds, files] =>
    -- one-shot mode aborts at start-up when a program does not compile
    if (kinds.splitOn ",").contains "s" then "ERR" else
    let specs : List Nat := if files = "." then [] else (files.splitOn ",").map (fun s => (s.splitOn "/").head!.toNat!)
    let g : List (Nat × Nat) := (List.range specs.length).flatMap (fun i =>
      (List.range (specs.getD i 0)).map (fun k => (i, k + 1)))
    let st := runW g
    let progs := ((kinds.splitOn ",").zip (List.range (kinds.splitOn ",").length)).filter (·.1 ≠ "s")
    let parts := progs.map (fun p =>
      let fs := (List.range specs.length).map (fun i =>
        let w := get st i
        s!"f{i}:{w.count}/{w.last}/{w.ooo}")
      s!"P[p{p.2}.mtail]" ++ ",".intercalate fs)
    let ll := (List.range specs.length).map (fun i => s!"f{i}:{specs.getD i 0}")
    let head := "T=1 " ++ " ".intercalate (C13.sortStr parts)
    s!"{head} LT={specs.sum} LL={",".intercalate ll}"
  | _ => "BAD-CASE"

end MtailVerif.Driver.C19
