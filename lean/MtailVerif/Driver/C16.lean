import MtailVerif.Driver.Util
import MtailVerif.Model.FileStream
import MtailVerif.Generated.FileStream
namespace MtailVerif.Driver.C16
open MtailVerif MtailVerif.Driver MtailVerif.FileStream

def cfg : Cfg := ⟨Generated.FileStream.finishOnRotate, Generated.FileStream.finishClears⟩

/-- the bulk append `A:<n>:<len>`: `n` newline-terminated lines of `len` bytes (a six-digit line
    number, then letters) -/
def bulk (n len : Nat) : Bytes :=
  (List.range n).flatMap fun i =>
    let num := toString i
    let head := ("".pushn '0' (6 - num.length) ++ num).toUTF8.toList
    head ++ (List.range (len - 6)).map (fun j => (97 + (i + j + 6) % 26).toUInt8) ++ [10]

def parseOp (s : String) : Option Op :=
  match s.splitOn ":" with
  | ["a", h] => (Hex.decode h).map .append
  | ["A", n, len] => some (.append (bulk n.toNat! len.toNat!))
  | ["t"] => some .truncate
  | ["rot"] => some .rotate
  | ["ct"] => some .copyTruncate
  | ["del"] => some .delete
  -- rotated away, and what took the log's place cannot be opened: for the stream the log has gone
  | ["rotx"] => some .delete
  | ["cre"] => some .create
  | ["p"] => some .poll
  -- content the file holds before the tailer starts: the stream opens at the end of the file, so
  -- for the model (which describes the file from the tailer's first look on) nothing happens
  | ["pre", _] => some .poll
  | _ => none

def handle (f : List String) : String :=
  match f with
  | ["fs", opsS] =>
    let parts := opsS.splitOn ";"
    let stopped := parts.getLast? == some "stop"
    match (if stopped then parts.dropLast else parts).mapM parseOp with
    | some ops => showTuple (if stopped then stop (run cfg start ops) else run cfg start ops).delivered
    | none => "BAD-CASE"
  | _ => "BAD-CASE"

end MtailVerif.Driver.C16
