import MtailVerif.Driver.Util
import MtailVerif.Model.Reload
/-! Interprets the harness's schedule (go/harness/main/c20.go) as actions of the Reload transition
    system, under the protocol the current source implements. -/
namespace MtailVerif.Driver.C20
open MtailVerif MtailVerif.Reload

structure D where
  s : St := {}
  fileVer : Nat := 0
  loadedVer : Nat := 0
  reloadVer : Nat := 0
  blocked : Bool := false
  holds : List Nat := []
  obs : List String := []
  loaded : Bool := false        -- does the program have a handle?
  reloadLoaded : Bool := false
  extraSwaps : Nat := 0

def act (d : D) (a : Act) : D :=
  match step current d.s a with
  | some s' => { d with s := s' }
  | none => { d with obs := d.obs ++ [s!"model-action-disabled:{repr a}"] }

/-- hand the pending line over if the fan-out can, and let the VM finish it unless it is held -/
def tryHand (d : D) : D :=
  match d.s.pending with
  | none => d
  | some l =>
    match step current d.s .hand with
    | none => d
    | some s' =>
      let d := { d with s := s' }
      if d.holds.contains l then d
      else match s'.vms with
        | v :: _ => act d (.finish v.inst)
        | [] => d

def holderOf (l : Nat) : List VM → Option Nat
  | [] => none
  | v :: vs => if v.cur = some l then some v.inst else holderOf l vs

def finishSwap (d : D) : D :=
  if d.blocked then
    match step current d.s .endSwap with
    | some s' =>
      let d := { d with s := s', blocked := false, loadedVer := d.reloadVer, loaded := d.reloadLoaded }
      let d := (List.range d.extraSwaps).foldl (fun d _ => act (act d .beginSwap) .endSwap) d
      tryHand { d with extraSwaps := 0 }
    | none => d
  else d

def release (d : D) (l : Nat) : D :=
  let d := { d with holds := d.holds.erase l }
  match holderOf l d.s.vms with
  | some i => finishSwap (act d (.finish i))
  | none => d

def op (d : D) (o : String) : D :=
  match o.splitOn ":" with
  | ["w", k] => { d with fileVer := k.toNat! }
  | ["rm"] => { d with fileVer := 0 }
  | ["load"] =>
    -- versions from 100 on compile but are refused by the store: nothing is swapped
    if d.fileVer ≥ 100 then d else
    if d.fileVer = d.loadedVer then d
    else
      -- an unload is a swap to a handle that is never given a line
      let d := act (act d .beginSwap) .endSwap
      tryHand { d with loadedVer := d.fileVer, loaded := d.fileVer != 0 }
  | ["hold", n] => { d with holds := n.toNat! :: d.holds }
  | ["l", n] => if d.loaded || d.blocked then tryHand (act d (.take n.toNat!)) else d
  | ["rel", n] => release d n.toNat!
  | ["lq", n] => if d.blocked then d else if d.loaded then tryHand (act d (.take n.toNat!)) else d
  | ["reload"] =>
    if d.fileVer ≥ 100 ∧ ¬ d.blocked then { d with obs := d.obs ++ ["reload=returned"] } else
    if d.blocked then
      -- queued behind the reload that is waiting for the old VM
      { d with reloadVer := d.fileVer, reloadLoaded := d.fileVer != 0, extraSwaps := d.extraSwaps + 1,
               obs := d.obs ++ ["reload=blocked"] }
    else if d.fileVer = d.loadedVer then { d with obs := d.obs ++ ["reload=returned"] }
    else
      let d := act d .beginSwap
      match step current d.s .endSwap with
      | some s' => tryHand { d with s := s', loadedVer := d.fileVer, loaded := d.fileVer != 0, obs := d.obs ++ ["reload=returned"] }
      | none => { d with blocked := true, reloadVer := d.fileVer, reloadLoaded := d.fileVer != 0, obs := d.obs ++ ["reload=blocked"] }
  | _ => d          -- wait, sync

def handle (f : List String) : String :=
  match f with
  | ["sched", ops] =>
    let d := (ops.splitOn ";").foldl op {}
    -- at the end everything still held is released
    let d := d.holds.reverse.foldl release d
    -- instances are numbered in the order they first start a line (what the hook can see)
    let seen : List Nat := d.s.started.foldl (fun acc p => if acc.contains p.2 then acc else acc ++ [p.2]) []
    let ord := fun (i : Nat) => (seen.idxOf i) + 1
    let log := ",".intercalate (d.s.started.map (fun p => s!"{p.1}@{ord p.2}"))
    let g := match d.s.applied.getLast? with | some l => l | none => 0
    s!"log={log} {",".intercalate d.obs} g={g} n={d.s.applied.length}"
  | "rename" :: _ => "-"
  | "conc" :: _ => "-"
  | _ => "bad-case"

end MtailVerif.Driver.C20
