import MtailVerif.Driver.Util
import MtailVerif.Driver.FloatBits
namespace MtailVerif.Driver.C21
open MtailVerif MtailVerif.Driver MtailVerif.Buckets

/-- the accumulator is a real double; the observed value is carried as its bits -/
def obsAll (d : B Float) (vs : List UInt64) : B Float :=
  vs.foldl (fun d b => observe (fun s _ => s + Float.ofBits b) d (bitsToFV b)) d

def showRanges (bs : List (Range × Nat)) : String :=
  ",".intercalate (bs.map (fun p => fvToBitsStr p.1.min ++ ":" ++ fvToBitsStr p.1.max))

def showObs (d : B Float) : String :=
  s!"counts={",".intercalate (d.buckets.map (fun p => toString p.2))} count={d.count} sum={floatBitsStr d.sum}"

/-- `GetBucketsCumByMax`: cumulative counts by ascending upper bound (distinct bounds) -/
def insertSorted (p : Int × Nat) : List (Int × Nat) → List (Int × Nat)
  | [] => [p]
  | q :: rest => if p.1 ≤ q.1 then p :: q :: rest else q :: insertSorted p rest

def cum (d : B Float) : String :=
  let byMax := d.buckets.foldl (fun acc p => match p.1.max with
    | .num k => insertSorted (k, p.2) acc
    | .nan => acc) []
  let r := byMax.foldl (fun (acc : Nat × List String) p =>
    (acc.1 + p.2, acc.2 ++ [fvToBitsStr (.num p.1) ++ ":" ++ toString (acc.1 + p.2)])) (0, [])
  ",".intercalate r.2

def handle (f : List String) : String :=
  match f with
  | ["direct", rs, vs] =>
    let ranges : List Range := if rs = "." then [] else (rs.splitOn ",").map (fun p =>
      match p.splitOn ":" with
      | [a, b] => ⟨bitsToFV (parseBits a), bitsToFV (parseBits b)⟩
      | _ => ⟨.nan, .nan⟩)
    let d := obsAll (make (0.0 : Float) ranges) (parseBitsList vs)
    s!"ranges={showRanges d.buckets} {showObs d}"
  | ["decl", _decs, bs, vs] =>
    match rangesOfDecl ((parseBitsList bs).map bitsToFV) with
    | none => "reject"
    | some ranges =>
      let d := obsAll (make (0.0 : Float) ranges) (parseBitsList vs)
      s!"ranges={showRanges d.buckets} {showObs d} cum={cum d}"
  -- the same observations arriving as log lines (the case carries the values the texts spell)
  | ["vmobs", _decs, bs, vs, _texts, _cap] =>
    match rangesOfDecl ((parseBitsList bs).map bitsToFV) with
    | none => "reject"
    | some ranges =>
      let d := obsAll (make (0.0 : Float) ranges) (parseBitsList vs)
      s!"ranges={showRanges d.buckets} {showObs d} cum={cum d}"
  | ["expo", _decs, bs, va, vb] =>
    -- two label sets, each with its own observations: the exported cumulative counts of a label
    -- set are those of its own datum
    match rangesOfDecl ((parseBitsList bs).map bitsToFV) with
    | none => "reject"
    | some ranges =>
      let one (vs : String) : String :=
        let d := obsAll (make (0.0 : Float) ranges) (parseBitsList vs)
        let byMax := d.buckets.foldl (fun acc p => match p.1.max with
          | .num k => insertSorted (k, p.2) acc
          | .nan => acc) []
        let r := byMax.foldl (fun (acc : Nat × List String) p =>
          (acc.1 + p.2, acc.2 ++ [fvToBitsStr (.num p.1) ++ ":" ++ toString (acc.1 + p.2)])) (0, [])
        ",".intercalate r.2
      s!"a={one va} b={one vb}"
  | "reload" :: _ => "-"
  | _ => "BAD-CASE"

end MtailVerif.Driver.C21
