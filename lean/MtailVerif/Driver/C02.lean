import MtailVerif.Driver.Util
import MtailVerif.Driver.FloatBits
import MtailVerif.Model.Fold
import MtailVerif.Generated.Fold
namespace MtailVerif.Driver.C02
open MtailVerif MtailVerif.Driver MtailVerif.Fold

/-- floats are bit patterns; + − × ÷ are IEEE binary64 operations (Lean's `Float`), `Mod`/`Pow`
    and the integer power come from a table Go's math package filled in -/
structure Tables where
  fmod : List ((UInt64 × UInt64) × UInt64) := []
  fpow : List ((UInt64 × UInt64) × UInt64) := []
  ipow : List ((Int × Int) × Int) := []

def missing : UInt64 := 0x7ff8dead00000000

def canonNaN (b : UInt64) : UInt64 := if (Float.ofBits b).isNaN then 0x7ff8000000000001 else b

def look (t : List ((UInt64 × UInt64) × UInt64)) (a b : UInt64) : UInt64 :=
  match t.find? (fun e => canonNaN e.1.1 == canonNaN a && canonNaN e.1.2 == canonNaN b) with
  | some e => e.2
  | none => missing

def ops (t : Tables) : FOps UInt64 where
  add a b := canonNaN (Float.ofBits a + Float.ofBits b).toBits
  sub a b := canonNaN (Float.ofBits a - Float.ofBits b).toBits
  mul a b := canonNaN (Float.ofBits a * Float.ofBits b).toBits
  div a b := canonNaN (Float.ofBits a / Float.ofBits b).toBits
  mod a b := look t.fmod a b
  pow a b := look t.fpow a b
  ofInt i := (Float.ofInt i).toBits
  toInt a :=        -- Go's int64(f) on amd64: out of range and NaN give MinInt64
    let x := Float.ofBits a
    if x.isNaN || x ≥ 9223372036854775808.0 || x < -9223372036854775808.0 then -9223372036854775808
    else x.toInt64.toInt
  isZero a := Float.ofBits a == 0

/-- parse the oracle table -/
def parseTables (s : String) : Tables :=
  if s = "." then {} else
  (s.splitOn ",").foldl (fun t e =>
    match e.splitOn "=" with
    | [k, v] =>
      match k.splitOn ":" with
      | ["m", a, b] => { t with fmod := ((parseBits a, parseBits b), parseBits v) :: t.fmod }
      | ["p", a, b] => { t with fpow := ((parseBits a, parseBits b), parseBits v) :: t.fpow }
      | ["q", a, b] => { t with ipow := ((a.toInt!, b.toInt!), v.toInt!) :: t.ipow }
      | _ => t
    | _ => t) {}

def parseE (s : String) : Option (E UInt64) :=
  let rec go (toks : List String) (st : List (E UInt64)) : Option (E UInt64) :=
    match toks with
    | [] => st.head?
    | t :: rest =>
      match t.toList with
      | 'i' :: d => go rest (.int (String.ofList d).toInt! :: st)
      | 'f' :: d => go rest (.float (parseBits (String.ofList d)) :: st)
      | ['v', '1'] => go rest (.ivar 1 :: st)
      | ['v', '2'] => go rest (.fvar 2 :: st)
      | [c] =>
        let op := match c with | '+' => some Op.plus | '-' => some Op.minus | '*' => some Op.mul
                               | '/' => some Op.div | '%' => some Op.mod | '^' => some Op.pow | _ => none
        match op, st with
        | some o, b :: a :: st' => go rest (.bin o a b :: st')
        | _, _ => none
      | _ => none
  go (s.splitOn ",") []

def showE : E UInt64 → String
  | .int i => s!"i{i}"
  | .float f => "f" ++ floatBitsStr (Float.ofBits f)
  | .ivar k => s!"v{k}"
  | .fvar k => s!"v{k}"
  | .bin op a b =>
    let o := match op with | .plus => "+" | .minus => "-" | .mul => "*" | .div => "/" | .mod => "%" | .pow => "^"
    showE a ++ "," ++ showE b ++ "," ++ o

def showVal : Option (Val UInt64) → String
  | none => "ERR"
  | some (.i n) => s!"i{n}"
  | some (.f b) => "f" ++ floatBitsStr (Float.ofBits b)

def handle (f : List String) : String :=
  match f with
  -- the expression in another place than `r = E`: the model has nothing to say about the statement
  -- around it; the property is evaluated on the implementation
  | ["foldpos", _pos, _rpn, _tbl, _lines] => "POS"
  | ["fold", rpn, tbl, linesS] =>
    match parseE rpn with
    | none => "BAD-CASE"
    | some e =>
      let t := parseTables tbl
      match fold (ops t) 0 Generated.Fold.intModFloatAssignsResult e with
      | .error _ => "REJECT REJECT"
      | .ok e' =>
        if checkerRejects e' then showE e' ++ " REJECT" else
        -- the gauge keeps its previous value when a line raises a runtime error
        let lines := linesS.splitOn "|"
        let r := lines.foldl (fun (acc : String × List String) l =>
          match l.splitOn "_" with
          | [a, b] =>
            let fb : UInt64 := match b.splitOn "." with
              | [ip, fp] =>
                let neg := ip.startsWith "-"
                let ipn := (if neg then (ip.drop 1).toString else ip).toNat!
                let x := Float.ofScientific (ipn * 10 ^ fp.length + fp.toNat!) true fp.length
                (if neg then -x else x).toBits
              | _ => 0
            let env : Env UInt64 := ⟨fun _ => a.toInt!, fun _ => fb⟩
            match eval (ops t) env e' with
            | none =>
              -- `r = e` loads (and thereby creates, with the zero value) the datum before evaluating `e`
              let cur := if acc.1 = "unset" then (if isIntTyped e' then "i0" else "f0000000000000000") else acc.1
              (cur, acc.2 ++ [cur ++ "/e1"])
            | some v => (showVal (some v), acc.2 ++ [showVal (some v) ++ "/e0"])
          | _ => acc) ("unset", [])
        showE e' ++ " " ++ ",".intercalate r.2
  | _ => "BAD-CASE"

end MtailVerif.Driver.C02
