import MtailVerif.Model.Bytes
/-! helpers for the line-protocol drivers -/
namespace MtailVerif.Driver
open MtailVerif

/-- `a,b,c` of hex fields; `.` or empty = no elements -/
def parseTuple (s : String) : Option (List Bytes) :=
  if s = "." ∨ s = "" then some [] else (s.splitOn ",").mapM Hex.decode

def showTuple (t : List Bytes) : String :=
  if t.isEmpty then "." else ",".intercalate (t.map Hex.encode)

def b2i (b : Bool) : String := if b then "1" else "0"

end MtailVerif.Driver
