import MtailVerif.Model.Utf8
import MtailVerif.Model.Buckets
/-! Model of `Exporter.Collect` (internal/exporter/prometheus.go) and of the validity rules of
    the pinned Prometheus client that decide whether a label set can be represented.

    A store is a list of metrics (iteration order is irrelevant to the result: the registry
    sorts families and the theorems are stated on multisets / per metric).  Values are float
    bit patterns: `promValueForDatum`'s int→float conversion is an oracle supplied with the
    datum (`asFloat`), so no theorem depends on rounding. -/
namespace MtailVerif.Prom
open MtailVerif

inductive Kind | counter | gauge | timer | text | histogram | other
deriving DecidableEq, Repr

/-- what the exporter reads from a datum -/
structure Datum where
  asFloat : UInt64                         -- promValueForDatum (0 for string data)
  timeMs : Int
  /-- for Buckets data: count, sum bits, buckets (upper bound key, bits, count) in slice order -/
  hist : Option (Nat × UInt64 × List (Buckets.FV × UInt64 × Nat)) := none
deriving Repr

structure LabelSet where
  labels : List Bytes
  datum : Datum
deriving Repr

structure Metric where
  name : Bytes
  prog : Bytes
  kind : Kind
  keys : List Bytes
  lsets : List LabelSet
deriving Repr

structure Config where
  omitProgLabel : Bool
  emitTimestamp : Bool

inductive SType | counter | gauge | untyped | histogram
deriving DecidableEq, Repr

/-- one exposed series -/
structure Sample where
  name : Bytes
  labels : List (Bytes × Bytes)       -- in the exporter's order: prog first, then keys
  typ : SType
  value : UInt64                      -- scalar value, or the sum for a histogram
  timeMs : Option Int
  /-- histogram only: count and cumulative buckets by ascending upper bound -/
  count : Nat := 0
  cum : List (UInt64 × Nat) := []
deriving Repr

/-- `noHyphens` -/
def noHyphens (s : Bytes) : Bytes := s.map (fun b => if b = 45 then 95 else b)

def isAlpha (b : UInt8) : Bool := (65 ≤ b && b ≤ 90) || (97 ≤ b && b ≤ 122)
def isDigit (b : UInt8) : Bool := 48 ≤ b && b ≤ 57

/-- legacy metric-name rule `[a-zA-Z_:][a-zA-Z0-9_:]*` -/
def validMetricName : Bytes → Bool
  | [] => false
  | b :: rest => (isAlpha b || b = 95 || b = 58) && rest.all (fun c => isAlpha c || isDigit c || c = 95 || c = 58)

/-- legacy label-name rule `[a-zA-Z_][a-zA-Z0-9_]*`, and not reserved (`__` prefix) -/
def validLabelName : Bytes → Bool
  | [] => false
  | b :: rest =>
    (isAlpha b || b = 95) && rest.all (fun c => isAlpha c || isDigit c || c = 95) &&
    !(b = 95 && rest.head? = some 95)

def nodupB : List Bytes → Bool
  | [] => true
  | x :: xs => !xs.contains x && nodupB xs

def progLabel : Bytes := [112, 114, 111, 103]   -- "prog"

/-- `metrics.zip`: the label set is a Go map from key to value (a repeated key keeps the last
    value; the position of a key is irrelevant, the client sorts label pairs) -/
def zipMap : List Bytes → List Bytes → List (Bytes × Bytes)
  | k :: ks, v :: vs =>
    let rest := zipMap ks vs
    if rest.any (fun p => p.1 = k) then rest else (k, v) :: rest
  | _, _ => []

def labelNames (cfg : Config) (m : Metric) (ls : LabelSet) : List Bytes :=
  (if cfg.omitProgLabel then [] else [progLabel]) ++ (zipMap m.keys ls.labels).map (·.1)

def labelValues (cfg : Config) (m : Metric) (ls : LabelSet) : List Bytes :=
  (if cfg.omitProgLabel then [] else [m.prog]) ++ (zipMap m.keys ls.labels).map (·.2)

/-- can `NewConstMetric` / `NewConstHistogram` build this series? -/
def representable (cfg : Config) (m : Metric) (ls : LabelSet) : Bool :=
  validMetricName (noHyphens m.name) &&
  (labelNames cfg m ls).all validLabelName && nodupB (labelNames cfg m ls) &&
  (labelValues cfg m ls).all Utf8.valid

/-- `promTypeForKind` (histograms take the other constructor) -/
def typeForKind : Kind → SType
  | .counter => .counter
  | .gauge => .gauge
  | .timer => .gauge
  | .histogram => .histogram
  | _ => .untyped

/-- `GetBucketsCumByMax`: one entry per distinct upper bound (a later bucket with the same
    bound overwrites the earlier one in the Go map), cumulated in ascending order -/
def insertByMax (p : Buckets.FV × UInt64 × Nat) : List (Buckets.FV × UInt64 × Nat) → List (Buckets.FV × UInt64 × Nat)
  | [] => [p]
  | q :: rest =>
    match p.1, q.1 with
    | .num a, .num b => if a = b then p :: rest else if a < b then p :: q :: rest else q :: insertByMax p rest
    | _, _ => q :: insertByMax p rest

def cumulate : Nat → List (Buckets.FV × UInt64 × Nat) → List (UInt64 × Nat)
  | _, [] => []
  | acc, p :: rest => (p.2.1, acc + p.2.2) :: cumulate (acc + p.2.2) rest

def cumByMax (bs : List (Buckets.FV × UInt64 × Nat)) : List (UInt64 × Nat) :=
  cumulate 0 (bs.foldl (fun acc p => insertByMax p acc) [])

def sampleOf (cfg : Config) (m : Metric) (ls : LabelSet) : Sample :=
  let base : Sample :=
    { name := noHyphens m.name
      labels := (labelNames cfg m ls).zip (labelValues cfg m ls)
      typ := typeForKind m.kind
      value := ls.datum.asFloat
      timeMs := if cfg.emitTimestamp then some ls.datum.timeMs else none }
  match m.kind, ls.datum.hist with
  | .histogram, some (count, sum, bs) => { base with value := sum, count := count, cum := cumByMax bs }
  | _, _ => base

/-- the label-set loop of `Collect` for one metric: an unrepresentable label set is skipped
    (`continue`), the others are sent -/
def collectMetricLoop (cfg : Config) (m : Metric) : List LabelSet → List Sample
  | [] => []
  | ls :: rest =>
    if representable cfg m ls then sampleOf cfg m ls :: collectMetricLoop cfg m rest
    else collectMetricLoop cfg m rest

/-- the closure passed to `Range`; `last` stands for (lastMetric, lastSource), which only
    feeds the HELP text -/
def collectMetric (cfg : Config) (last : Bytes × Bytes) (m : Metric) : List Sample × (Bytes × Bytes) :=
  if m.kind = .text then ([], last)
  else (collectMetricLoop cfg m m.lsets, if m.lsets.isEmpty then last else (m.name, last.2))

def collect (cfg : Config) : (Bytes × Bytes) → List Metric → List Sample
  | _, [] => []
  | last, m :: rest =>
    let r := collectMetric cfg last m
    r.1 ++ collect cfg r.2 rest

end MtailVerif.Prom
