import MtailVerif.Model.Bytes
import MtailVerif.Generated.Buckets
/-! Model of `datum.Buckets` (internal/metrics/datum/buckets.go, datum.go `MakeBuckets`) and of
    the histogram clause of `codegen.go` that turns declared boundaries into ranges.

    Floats: the property is about *ordering* (which bucket a value falls in, NaN, ±Inf), so a
    float is `nan` or `num k` where `k : Int` is the standard order-preserving key of an IEEE-754
    double (bit pattern, negated for negative numbers, −0 ↦ 0).  Go's `<=`, `>` on non-NaN
    doubles is `≤`, `>` on keys; every comparison with NaN is false.  The running sum is an
    abstract accumulator (`S`, `add`): Go's `+=` is the same operation on both sides of every
    statement about it. -/
namespace MtailVerif.Buckets

inductive FV
  | nan
  | num (k : Int)
deriving DecidableEq, Repr

/-- key of +Inf (0x7FF0000000000000) and of 0.0 -/
def infKey : Int := 9218868437227405312
def pinf : FV := .num infKey
def zero : FV := .num 0

/-- Go `a <= b` -/
def le : FV → FV → Bool
  | .num a, .num b => a ≤ b
  | _, _ => false

/-- Go `a > b` -/
def gt : FV → FV → Bool
  | .num a, .num b => a > b
  | _, _ => false

def isPInf (v : FV) : Bool := v == pinf

structure Range where
  min : FV
  max : FV
deriving DecidableEq, Repr

structure B (S : Type) where
  buckets : List (Range × Nat)   -- `Buckets []BucketCount`
  count : Nat
  sum : S

/-- the loop of `Observe`: `if v <= b.Range.Max || i == n { count++; break }`;
    `isLast` stands for `i == n` with `n = len-1` -/
def bump (v : FV) : List (Range × Nat) → List (Range × Nat)
  | [] => []
  | [(r, c)] => [(r, c + 1)]                    -- i == n
  | (r, c) :: rest => if le v r.max then (r, c + 1) :: rest else (r, c) :: bump v rest

variable {S : Type}

/-- `Observe` (timestamp handled by the datum layer) -/
def observe (add : S → FV → S) (d : B S) (v : FV) : B S :=
  { buckets := bump v d.buckets, count := d.count + 1, sum := add d.sum v }

/-- `MakeBuckets` -/
def highestOf : FV → List Range → FV
  | h, [] => h
  | h, r :: rs => if isPInf r.max then highestOf h rs else if gt r.max h then highestOf r.max rs else highestOf h rs

def make (s0 : S) (ranges : List Range) : B S :=
  let seenInf := ranges.any (fun r => isPInf r.max)
  let bs := ranges.map (fun r => (r, 0))
  { buckets := if seenInf then bs else bs ++ [(⟨highestOf zero ranges, pinf⟩, 0)], count := 0, sum := s0 }

/-- codegen's histogram clause: declared boundaries ↦ ranges, or `none` for a rejected
    declaration (fewer than two boundaries, or not sorted) -/
def rangesTail : FV → List FV → Option (List Range)
  | mn, [] => some [⟨mn, pinf⟩]
  | mn, mx :: rest =>
    if le mx mn then none
    else (rangesTail mx rest).map (fun rs => ⟨mn, mx⟩ :: rs)

def rangesOfDecl : List FV → Option (List Range)
  | [] => none
  | [_] => none
  | b0 :: rest =>
    (rangesTail b0 rest).map (fun rs => if gt b0 zero then ⟨zero, b0⟩ :: rs else rs)

def total (bs : List (Range × Nat)) : Nat := (bs.map (·.2)).sum

end MtailVerif.Buckets
