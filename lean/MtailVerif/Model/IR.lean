import MtailVerif.Model.VM
/-! The typed core language the code generator works from, after the checker has resolved names and
    types and decorators are expanded (Model/Lower.lean builds it from the checked AST):

    * an expression is a *primitive* (evaluate the arguments left to right, then a fixed sequence
      of non-branching VM instructions), a comparison, or a short-circuit `&&` / `||`;
    * a statement is an expression, a conditional with or without `else`, or an `otherwise` block.

    `emit` is the code generator (codegen.go's instruction layout with absolute jump targets);
    `Sem` is the reference semantics: structural evaluation, no program counter, no jumps, and the
    "some conditional in this block matched" flag of `otherwise` kept per block as the language
    reference defines it (docs/Language.md: "matches if no preceding conditional in the current
    scope has matched"). -/
namespace MtailVerif.IR
open MtailVerif MtailVerif.VM

mutual
inductive E
  | prim (is : List Instr) (args : Es)
  | cmp (ci : Instr) (jm : Bool) (a b : E)      -- compare, then `jm`/`jnm` to the "false" arm
  | and (a b : E)
  | or (a b : E)
inductive Es
  | nil
  | cons (e : E) (es : Es)
end

mutual
inductive S
  | expr (e : E)
  | cond (c : E) (t : Ss)
  | condElse (c : E) (t e : Ss)
  | otherwise (t : Ss)
inductive Ss
  | nil
  | cons (s : S) (ss : Ss)
end

/-! ### code generation -/

def iPushB (b : Bool) : Instr := ⟨.push, .bool b⟩
def iJnm (n : Nat) : Instr := ⟨.jnm, .int n⟩
def iJm (n : Nat) : Instr := ⟨.jm, .int n⟩
def iJmp (n : Nat) : Instr := ⟨.jmp, .int n⟩
def iSetm (b : Bool) : Instr := ⟨.setmatched, .bool b⟩
def iOtherwise : Instr := ⟨.otherwise, .none⟩

mutual
def emitE : E → Nat → List Instr
  | .prim is args, base => emitEs args base ++ is
  | .cmp ci jm a b, base =>
    let ca := emitE a base
    let cb := emitE b (base + ca.length)
    let n := base + ca.length + cb.length
    ca ++ cb ++ [ci, (if jm then iJm (n + 4) else iJnm (n + 4)), iPushB true, iJmp (n + 5), iPushB false]
  | .and a b, base =>
    let ca := emitE a base
    let cb := emitE b (base + ca.length + 1)
    let n := base + ca.length + 1 + cb.length
    ca ++ [iJnm (n + 3)] ++ cb ++ [iJnm (n + 3), iPushB true, iJmp (n + 4), iPushB false]
  | .or a b, base =>
    let ca := emitE a base
    let cb := emitE b (base + ca.length + 1)
    let n := base + ca.length + 1 + cb.length
    ca ++ [iJm (n + 3)] ++ cb ++ [iJm (n + 3), iPushB false, iJmp (n + 4), iPushB true]
def emitEs : Es → Nat → List Instr
  | .nil, _ => []
  | .cons e es, base =>
    let ce := emitE e base
    ce ++ emitEs es (base + ce.length)
end

mutual
def emitS : S → Nat → List Instr
  | .expr e, base => emitE e base
  | .cond c t, base =>
    let cc := emitE c base
    let ct := emitSs t (base + cc.length + 2)
    cc ++ [iJnm (base + cc.length + 2 + ct.length + 1), iSetm false] ++ ct ++ [iSetm true]
  | .condElse c t e, base =>
    let cc := emitE c base
    let ct := emitSs t (base + cc.length + 2)
    let lElse := base + cc.length + 2 + ct.length + 2
    let ce := emitSs e lElse
    cc ++ [iJnm lElse, iSetm false] ++ ct ++ [iSetm true, iJmp (lElse + ce.length)] ++ ce
  | .otherwise t, base =>
    let ct := emitSs t (base + 3)
    [iOtherwise, iJnm (base + 3 + ct.length + 1), iSetm false] ++ ct ++ [iSetm true]
def emitSs : Ss → Nat → List Instr
  | .nil, _ => []
  | .cons s ss, base =>
    let cs := emitS s base
    cs ++ emitSs ss (base + cs.length)
end

/-! ### reference semantics -/

/-- the state a line's evaluation threads: the VM's registers other than the program counter and
    the matched flag (capture groups of the conditions matched so far, the time register, the
    operand stack, label values deleted on this line), the metric store and the strptime memo -/
structure Cfg where
  t : Thread
  st : MStore
  memo : Memo

def norm (t : Thread) : Thread := { t with pc := 0, matched := false }

inductive R
  | ok (c : Cfg)
  | halt (out : Outcome) (st : MStore) (memo : Memo)

def R.bind (r : R) (k : Cfg → R) : R :=
  match r with
  | .ok c => k c
  | .halt out st memo => .halt out st memo

/-- what one instruction's result means for the evaluation: go on (registers normalised) or end the line -/
def afterStep (r : Res × Memo) (k : Cfg → R) : R :=
  match r with
  | (.next t' st', memo') => k ⟨norm t', st', memo'⟩
  | (.stop st', memo') => .halt .stopped st' memo'
  | (.err e st', memo') => .halt (.err e) st' memo'
  | (.fault f st', memo') => .halt (.fault f) st' memo'

/-- a fixed sequence of non-branching instructions -/
def runPrim (o : Oracle) (p : Prog) (inp : Input) : List Instr → Cfg → R
  | [], c => .ok c
  | i :: is, c => afterStep (step o p inp i c.t c.st c.memo) (runPrim o p inp is)

/-- does `jm` (`jnm`) branch on this value? -/
def taken (jm : Bool) : Val → Bool
  | .bool b => if jm then b else !b
  | .i64 n => if jm then n != 0 else n == 0
  | .int n => if jm then n != 0 else n == 0      -- what `len()` pushes
  | _ => false

/-- pop the value a branch tests -/
def branch (jm : Bool) (c : Cfg) (k : Bool → Cfg → R) : R :=
  match c.t.stack with
  | [] => .halt (.fault .stackUnderflow) c.st c.memo
  | v :: rest => k (taken jm v) ⟨{ c.t with stack := rest }, c.st, c.memo⟩

def pushB (b : Bool) (c : Cfg) : Cfg := ⟨{ c.t with stack := .bool b :: c.t.stack }, c.st, c.memo⟩

mutual
def evalE (o : Oracle) (p : Prog) (inp : Input) : E → Cfg → R
  | .prim is args, c => (evalEs o p inp args c).bind (runPrim o p inp is)
  | .cmp ci jm a b, c =>
    (evalE o p inp a c).bind fun c1 =>
    (evalE o p inp b c1).bind fun c2 =>
    (runPrim o p inp [ci] c2).bind fun c3 =>
    branch jm c3 fun tk c4 => .ok (pushB (!tk) c4)
  | .and a b, c =>
    (evalE o p inp a c).bind fun c1 =>
    branch false c1 fun tk c2 =>
      if tk then .ok (pushB false c2)
      else (evalE o p inp b c2).bind fun c3 =>
        branch false c3 fun tk2 c4 => .ok (pushB (!tk2) c4)
  | .or a b, c =>
    (evalE o p inp a c).bind fun c1 =>
    branch true c1 fun tk c2 =>
      if tk then .ok (pushB true c2)
      else (evalE o p inp b c2).bind fun c3 =>
        branch true c3 fun tk2 c4 => .ok (pushB tk2 c4)
def evalEs (o : Oracle) (p : Prog) (inp : Input) : Es → Cfg → R
  | .nil, c => .ok c
  | .cons e es, c => (evalE o p inp e c).bind (evalEs o p inp es)
end

/-- statements: the result carries the block's flag -/
inductive SR
  | ok (c : Cfg) (flag : Bool)
  | halt (out : Outcome) (st : MStore) (memo : Memo)

def SR.andThen (r : SR) (k : Cfg → Bool → SR) : SR :=
  match r with
  | .ok c flag => k c flag
  | .halt out st memo => .halt out st memo

/-- a condition's value: does control skip the block? -/
def condSkips (r : R) (k : Bool → Cfg → SR) : SR :=
  match r with
  | .halt out st memo => .halt out st memo
  | .ok c =>
    match c.t.stack with
    | [] => .halt (.fault .stackUnderflow) c.st c.memo
    | v :: rest => k (taken false v) ⟨{ c.t with stack := rest }, c.st, c.memo⟩

/-- a block has run: its own flag is dropped, the enclosing block's flag becomes `flag` -/
def SR.withFlag (flag : Bool) : SR → SR
  | .ok c _ => .ok c flag
  | h => h

def liftE (flag : Bool) : R → SR
  | .ok c => .ok c flag
  | .halt out st memo => .halt out st memo

mutual
def execS (o : Oracle) (p : Prog) (inp : Input) : S → Cfg → Bool → SR
  | .expr e, c, flag => liftE flag (evalE o p inp e c)
  | .cond cnd t, c, flag =>
    condSkips (evalE o p inp cnd c) fun skip c1 =>
      if skip then .ok c1 flag
      else (execSs o p inp t c1 false).withFlag true
  | .condElse cnd t e, c, flag =>
    condSkips (evalE o p inp cnd c) fun skip c1 =>
      if skip then (execSs o p inp e c1 false).withFlag flag
      else (execSs o p inp t c1 false).withFlag true
  | .otherwise t, c, flag =>
    if flag then .ok c flag
    else (execSs o p inp t c false).withFlag true
def execSs (o : Oracle) (p : Prog) (inp : Input) : Ss → Cfg → Bool → SR
  | .nil, c, flag => .ok c flag
  | .cons s ss, c, flag => (execS o p inp s c flag).andThen (execSs o p inp ss)
end

/-- a line: fresh registers, the program's statements, flag false -/
def semLine (o : Oracle) (p : Prog) (prog : Ss) (inp : Input) (st : MStore) (memo : Memo) : LineResult :=
  match execSs o p inp prog ⟨norm {}, st, memo⟩ false with
  | .ok c _ => ⟨.done, c.st, c.memo⟩
  | .halt out st' memo' => ⟨out, st', memo'⟩

/-! ### the class the theorem covers -/

def straight (i : Instr) : Bool :=
  i.op != .jnm && i.op != .jm && i.op != .jmp && i.op != .setmatched && i.op != .otherwise

mutual
def okE : E → Bool
  | .prim is args => is.all straight && okEs args
  | .cmp ci _ a b => straight ci && okE a && okE b
  | .and a b => okE a && okE b
  | .or a b => okE a && okE b
def okEs : Es → Bool
  | .nil => true
  | .cons e es => okE e && okEs es
end

def isOtherwise : S → Bool
  | .otherwise _ => true
  | _ => false
def isCondElse : S → Bool
  | .condElse _ _ _ => true
  | _ => false
def hasOtherwiseTop : Ss → Bool
  | .nil => false
  | .cons s ss => isOtherwise s || hasOtherwiseTop ss

mutual
/-- well-formed, and outside the known deviation: no `otherwise` directly in an `else` block, and
    none after a conditional that has an `else` in the same block -/
def okS : S → Bool
  | .expr e => okE e
  | .cond c t => okE c && okSs t
  | .condElse c t e => okE c && okSs t && okSs e && !hasOtherwiseTop e
  | .otherwise t => okSs t
def okSs : Ss → Bool
  | .nil => true
  | .cons s ss => okS s && okSs ss && !(isCondElse s && hasOtherwiseTop ss)
end

end MtailVerif.IR
