import MtailVerif.Model.Bytes
/-! Go's `utf8.Valid` on a byte string (RFC 3629: no overlongs, no surrogates, ≤ U+10FFFF). -/
namespace MtailVerif.Utf8

def cont (b : UInt8) : Bool := 0x80 ≤ b && b ≤ 0xBF

def valid : Bytes → Bool
  | [] => true
  | b0 :: rest =>
    if b0 < 0x80 then valid rest
    else if 0xC2 ≤ b0 && b0 ≤ 0xDF then
      match rest with
      | b1 :: r => cont b1 && valid r
      | _ => false
    else if 0xE0 ≤ b0 && b0 ≤ 0xEF then
      match rest with
      | b1 :: b2 :: r =>
        let lo : UInt8 := if b0 = 0xE0 then 0xA0 else 0x80
        let hi : UInt8 := if b0 = 0xED then 0x9F else 0xBF
        lo ≤ b1 && b1 ≤ hi && cont b2 && valid r
      | _ => false
    else if 0xF0 ≤ b0 && b0 ≤ 0xF4 then
      match rest with
      | b1 :: b2 :: b3 :: r =>
        let lo : UInt8 := if b0 = 0xF0 then 0x90 else 0x80
        let hi : UInt8 := if b0 = 0xF4 then 0x8F else 0xBF
        lo ≤ b1 && b1 ≤ hi && cont b2 && cont b3 && valid r
      | _ => false
    else false

end MtailVerif.Utf8
