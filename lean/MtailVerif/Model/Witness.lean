import MtailVerif.Model.Pipeline
/-! The order-witness program used by the one-shot correspondence (go/harness/main/c19.go):

      counter lines_by_file by f ; gauge last by f ; counter ooo by f
      /^(?P<f>\w+) (?P<n>\d+)$/ { $n <= last[$f] { ooo[$f]++ }  last[$f] = $n  lines_by_file[$f]++ }

    as a function of the sequence of (file, number) lines a VM processes. -/
namespace MtailVerif.Witness

structure W where
  count : Nat := 0
  last : Nat := 0
  ooo : Nat := 0
deriving Repr, DecidableEq

def bumpW (w : W) (n : Nat) : W :=
  { count := w.count + 1, last := n, ooo := if n ≤ w.last then w.ooo + 1 else w.ooo }

/-- state: file index ↦ W (absent = untouched) -/
def get (st : List (Nat × W)) (i : Nat) : W :=
  match st.find? (·.1 = i) with
  | some p => p.2
  | none => {}

def put (st : List (Nat × W)) (i : Nat) (w : W) : List (Nat × W) :=
  if st.any (·.1 = i) then st.map (fun p => if p.1 = i then (i, w) else p) else st ++ [(i, w)]

def stepW (st : List (Nat × W)) (line : Nat × Nat) : List (Nat × W) :=
  put st line.1 (bumpW (get st line.1) line.2)

def runW (g : List (Nat × Nat)) : List (Nat × W) := g.foldl stepW []

/-- the same program on one file's numbers alone -/
def runOne (ns : List Nat) : W := ns.foldl bumpW {}

end MtailVerif.Witness
