import MtailVerif.Model.Key
/-! Model of `metrics.Metric` (internal/metrics/metric.go): the label-value slice
    (`LabelValues`) and the encoded-key index (`labelValuesMap`) are both kept, because the
    Go code keeps both and the property is that together they behave as one map.

    `V` is the datum payload (value and timestamp); the map structure is parametric in it.
    Pointers are modelled by identities: every `LabelValue` allocated gets a fresh `id`.
    The Go map is an association list; the only operations used are lookup, insert-or-replace
    and delete, whose results do not depend on Go's iteration order. -/
namespace MtailVerif.Metric
open MtailVerif

structure LV (V : Type) where
  id : Nat
  labels : List Bytes
  value : V
  expiry : Int := 0          -- nanoseconds; `LabelValue.Expiry`
deriving Repr

structure Metric (V : Type) where
  nkeys : Nat
  lvs : List (LV V) := []                 -- `LabelValues`
  index : List (Bytes × Nat) := []        -- `labelValuesMap`: key ↦ identity of a LabelValue
  next : Nat := 0                         -- allocation counter for identities
deriving Repr

inductive Err | arity | noDatum
deriving Repr, DecidableEq

variable {V : Type}

def lookup (k : Bytes) : List (Bytes × Nat) → Option Nat
  | [] => none
  | (k', v) :: rest => if k' = k then some v else lookup k rest

/-- Go `m[k] = v`: replace in place or add -/
def insert (k : Bytes) (v : Nat) : List (Bytes × Nat) → List (Bytes × Nat)
  | [] => [(k, v)]
  | (k', v') :: rest => if k' = k then (k, v) :: rest else (k', v') :: insert k v rest

def erase (k : Bytes) : List (Bytes × Nat) → List (Bytes × Nat)
  | [] => []
  | (k', v') :: rest => if k' = k then rest else (k', v') :: erase k rest

def byId (id : Nat) : List (LV V) → Option (LV V)
  | [] => none
  | lv :: rest => if lv.id = id then some lv else byId id rest

/-- `AppendLabelValue` -/
def append (m : Metric V) (labels : List Bytes) (v : V) (expiry : Int := 0) : Except Err (Metric V) :=
  if labels.length ≠ m.nkeys then .error .arity
  else
    let lv : LV V := { id := m.next, labels := labels, value := v, expiry := expiry }
    .ok { m with lvs := m.lvs ++ [lv], index := insert (Key.encode labels) m.next m.index, next := m.next + 1 }

/-- `FindLabelValueOrNil` -/
def find (m : Metric V) (labels : List Bytes) : Option (LV V) :=
  match lookup (Key.encode labels) m.index with
  | none => none
  | some id => byId id m.lvs

/-- `GetDatum`: returns the (possibly new) metric and the identity of the label value whose
    datum is returned; `mk` is the zero datum of the metric's type -/
def getDatum (m : Metric V) (mk : V) (labels : List Bytes) : Except Err (Metric V × Nat) :=
  if labels.length ≠ m.nkeys then .error .arity
  else match find m labels with
    | some lv => .ok (m, lv.id)
    | none =>
      match append m labels mk with
      | .ok m' => .ok (m', m.next)
      | .error e => .error e

/-- remove the first slice entry with this identity (the `append(s[:i], s[i+1:]...)` splice) -/
def spliceOut (id : Nat) : List (LV V) → Option (List (LV V))
  | [] => none
  | lv :: rest => if lv.id = id then some rest else (spliceOut id rest).map (lv :: ·)

/-- `RemoveDatum` -/
def removeDatum (m : Metric V) (labels : List Bytes) : Except Err (Metric V) :=
  if labels.length ≠ m.nkeys then .error .arity
  else
    let k := Key.encode labels
    match lookup k m.index with
    | none => .ok m
    | some id =>
      match spliceOut id m.lvs with
      | none => .ok m
      | some lvs' => .ok { m with lvs := lvs', index := erase k m.index }

def mapId (id : Nat) (f : LV V → LV V) : List (LV V) → List (LV V)
  | [] => []
  | lv :: rest => if lv.id = id then f lv :: rest else lv :: mapId id f rest

/-- `ExpireDatum` -/
def expireDatum (m : Metric V) (expiry : Int) (labels : List Bytes) : Except Err (Metric V) :=
  if labels.length ≠ m.nkeys then .error .arity
  else match find m labels with
    | some lv => .ok { m with lvs := mapId lv.id (fun l => { l with expiry := expiry }) m.lvs }
    | none => .error .noDatum

/-- a write through a datum pointer obtained earlier -/
def updateDatum (m : Metric V) (id : Nat) (f : V → V) : Metric V :=
  { m with lvs := mapId id (fun l => { l with value := f l.value }) m.lvs }

/-- `EmitLabelSets` (labels zipped with keys by position; keys are fixed) -/
def emit (m : Metric V) : List (List Bytes × V) := m.lvs.map (fun lv => (lv.labels, lv.value))

end MtailVerif.Metric
