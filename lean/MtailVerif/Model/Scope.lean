import MtailVerif.Model.Ast
/-! Model of the checker's symbol handling (internal/runtime/compiler/checker/checker.go,
    symbol/symtab.go): scopes per block and per condition, metric / constant / decorator
    declarations, capture groups inserted by the patterns of a condition, decorator scope zygotes
    handed over at `next`, use marking, and the unused-declaration sweep at scope exit.  Type
    inference is not modelled.  Regular-expression syntax is an oracle: `groups pat` is the list of
    capture-group names of a valid pattern (index 0 is the whole match) or `none` when the pattern
    does not parse. -/
namespace MtailVerif.Scope
open MtailVerif MtailVerif.Ast

inductive Kind | var | capref | deco | pattern
deriving DecidableEq, Repr, Inhabited

/-- error classes (the texts of checker.go, by the clause that reports them) -/
inductive Cls
  | undeclared | undefCapref | undefDeco | decoIncomplete | nextOutside | nextTwice | decoNoSymbols
  | redeclMetric | redeclDeco | redeclConst | redeclCapref | unused (k : Kind)
  | regexTooLong | regexInvalid | tooDeep | bucketsOnNonHistogram | constNotYet | notAConst
deriving DecidableEq, Repr, Inhabited

structure Err where
  cls : Cls
  pos : Option Pos
deriving DecidableEq, Repr, Inhabited

structure Sym where
  id : Nat
  name : String
  kind : Kind
  pos : Option Pos
  addr : Nat := 0
deriving Repr, Inhabited

/-- one `symbol.Scope`: Go map from name to symbol (by identity) -/
abbrev Frame := List (String × Nat)

structure Cfg where
  groups : Bytes → Option (List String)   -- capture-group names of a valid pattern
  fmtFloat : UInt64 → Bytes := fun _ => []  -- fmt.Sprintf("%g") of a float literal inside a pattern
  maxRegexLen : Nat := 1024
  maxDepth : Nat := 100

structure St where
  frames : List Frame := []            -- innermost first
  syms : List Sym := []                -- every symbol created; a symbol's id is its index
  used : List Nat := []
  patterns : List (Nat × Bytes) := []  -- evaluated text of pattern constants
  zygotes : List (Nat × Frame) := []   -- decorator symbol ↦ the scope captured at its `next`
  decoScopes : List Frame := []
  errors : List Err := []
  noRegexSymbols : Bool := false
  depth : Nat := 0
  tooDeep : Bool := false
deriving Inhabited

def St.err (s : St) (c : Cls) (p : Option Pos) : St := { s with errors := s.errors ++ [⟨c, p⟩] }

def frameGet (f : Frame) (name : String) : Option Nat :=
  match f with
  | [] => none
  | (n, i) :: rest => if n = name then some i else frameGet rest name

def St.sym (s : St) (i : Nat) : Option Sym := s.syms[i]?

/-- `Scope.Lookup`: innermost frame that has the name with the wanted kind -/
def lookup (s : St) (name : String) (k : Kind) : Option Sym :=
  go s.frames
where
  go : List Frame → Option Sym
    | [] => none
    | f :: rest =>
      match (frameGet f name).bind s.sym with
      | some sy => if sy.kind = k then some sy else go rest
      | none => go rest

def St.newSym (s : St) (name : String) (k : Kind) (p : Option Pos) (addr : Nat := 0) : St × Sym :=
  let sy : Sym := { id := s.syms.length, name := name, kind := k, pos := p, addr := addr }
  ({ s with syms := s.syms ++ [sy] }, sy)

/-- `Scope.Insert` into the innermost frame: `some alt` when the name is taken -/
def insertTop (s : St) (key : String) (id : Nat) : St × Option Nat :=
  match s.frames with
  | [] => (s, none)
  | f :: rest =>
    match frameGet f key with
    | some alt => (s, some alt)
    | none => ({ s with frames := (f ++ [(key, id)]) :: rest }, none)

def push (s : St) (f : Frame := []) : St := { s with frames := f :: s.frames }
def pop (s : St) : St := { s with frames := s.frames.tail }

def markUsed (s : St) (i : Nat) : St := if s.used.contains i then s else { s with used := i :: s.used }

/-- `Scope.CopyFrom` of a scope chain into one frame: every symbol under its *current name*, inner
    scopes first, first insertion wins -/
def flatten (s : St) (frames : List Frame) (into : Frame) : Frame :=
  frames.foldl (fun acc f =>
    f.foldl (fun acc e =>
      match s.sym e.2 with
      | some sy => if (frameGet acc sy.name).isSome then acc else acc ++ [(sy.name, sy.id)]
      | none => acc) acc) into

/-- `checkSymbolTable` for the innermost frame -/
def sweep (s : St) : St :=
  match s.frames with
  | [] => s
  | f :: _ =>
    -- a symbol may be reachable under two keys (numbered and named capture group): report it once per key as Go does
    f.foldl (fun s e =>
      match s.sym e.2 with
      | some sy =>
        if s.used.contains sy.id then s
        else if sy.kind = .capref then s
        else s.err (.unused sy.kind) sy.pos
      | none => s) s

/-! ### positions (`Pos()` of each node type) -/

def merge (a b : Option Pos) : Option Pos :=
  match a, b with
  | none, b => b
  | a, none => a
  | some a, some b =>
    if a.line ≠ b.line then some a
    else some { a with startcol := min a.startcol b.startcol, endcol := max a.endcol b.endcol }

mutual
def posOf : Node → Option Pos
  | .stmts cs => posOfList cs
  | .exprs cs => posOfList cs
  | .cond c t e => merge (posOf c) (merge (posOf t) (posOf e))
  | .nil => none
  | .id _ p _ => some p
  | .cap _ _ p _ => some p
  | .builtin _ _ p _ => some p
  | .bin _ l r _ => merge (posOf l) (posOf r)
  | .un _ e p _ => merge (some p) (posOf e)
  | .idx l i _ => merge (posOf l) (posOf i)
  | .decl _ p => some p
  | .str _ p => some p
  | .int _ p => some p
  | .float _ p => some p
  | .patexpr e _ => posOf e
  | .patlit _ p => some p
  | .const i _ _ => posOf i
  | .decodecl _ b p => merge (some p) (posOf b)
  | .deco _ b p => merge (some p) (posOf b)
  | .next p => some p
  | .otherwise p => some p
  | .stop p => some p
  | .del _ _ p => some p
  | .conv n _ => posOf n
  | .error _ p => some p
def posOfList : Nodes → Option Pos
  | .nil => none
  | .cons n ns => merge (posOf n) (posOfList ns)
end

/-! ### evaluation of pattern expressions (`patternEvaluator`) -/

def itoaS (n : Int) : Bytes := (toString n).toUTF8.toList

/-- concatenated pattern text of an expression, with the errors the evaluator reports -/
def evalPattern (fmtFloat : UInt64 → Bytes) (s : St) : Node → (Bytes × List Err)
  | .bin .plus l r _ =>
    let (a, e1) := evalPattern fmtFloat s l
    let (b, e2) := evalPattern fmtFloat s r
    (a ++ b, e1 ++ e2)
  | .bin _ _ _ _ => ([], [])                       -- "Invalid operator in concatenation" (internal)
  | .patlit p _ => (p, [])
  | .id name p _ =>
    -- the checker resolved the identifier when it visited it; an unresolved one contributes nothing
    match (lookup s name .var), (lookup s name .pattern) with
    | some _, _ => ([], [⟨.notAConst, some p⟩])
    | none, some sy =>
      (match s.patterns.find? (·.1 = sy.id) with
       | some (_, pat) => if pat.isEmpty then ([], [⟨.constNotYet, some p⟩]) else (pat, [])
       | none => ([], [⟨.constNotYet, some p⟩]))
    | none, none => ([], [])
  | .idx l _ _ => evalPattern fmtFloat s l
  | .int i _ => (itoaS i, [])
  | .float b _ => (fmtFloat b, [])
  | .str t _ => (t, [])
  | .patexpr e _ => evalPattern fmtFloat s e
  | _ => ([], [])

/-- `Insert`/`InsertAlias` of a capture-group symbol; a taken name is a redeclaration -/
def insertOrErr (s : St) (key : String) (id : Nat) (p : Option Pos) : St :=
  if (insertTop s key id).2.isSome then (insertTop s key id).1.err .redeclCapref p else (insertTop s key id).1

def renameSym (s : St) (id : Nat) (name : String) : St :=
  { s with syms := s.syms.modify id (fun sy => { sy with name := name }) }

/-- one capture group of a valid pattern: a symbol under its number, renamed and also entered under
    its name when it has one -/
def addGroup (p : Option Pos) (s : St) (e : String × Nat) : St :=
  let s2 := insertOrErr (s.newSym (toString e.2) .capref p e.2).1 (toString e.2) (s.newSym (toString e.2) .capref p e.2).2.id p
  if e.1 ≠ "" then insertOrErr (renameSym s2 (s.newSym (toString e.2) .capref p e.2).2.id e.1) e.1
      (s.newSym (toString e.2) .capref p e.2).2.id p
  else s2

/-- `checkRegex`: length limit, validity, and the capture-group symbols of the condition's scope -/
def checkRegex (cfg : Cfg) (s : St) (pat : Bytes) (p : Option Pos) : St :=
  if pat.length > cfg.maxRegexLen then s.err .regexTooLong p
  else
    match cfg.groups pat with
    | none => s.err .regexInvalid p
    | some names => if s.noRegexSymbols then s else (names.zipIdx).foldl (addGroup p) s

/-! ### the walk (`ast.Walk` with the checker as visitor) -/

/-- what `VisitBefore` leaves when it reports an error and returns a nil visitor -/
def cut (s : St) : St := { s with depth := s.depth - 1 }

/-- `VisitAfter`: skipped entirely once the depth limit was hit, otherwise `depth--` after the clause -/
def leave (s : St) (k : St → St) : St :=
  if s.tooDeep then s else let s := k s; { s with depth := s.depth - 1 }

def depthCut (cfg : Cfg) (n : Node) (s : St) : St :=
  let s := { s with depth := s.depth + 1 }
  let s := if s.tooDeep then s else { (s.err .tooDeep (posOf n)) with tooDeep := true }
  { s with depth := s.depth - 1 }

def tooDeepNow (cfg : Cfg) (s : St) : Bool := s.depth + 1 > cfg.maxDepth

/-- a pattern-valued right operand of `=~` that the checker wraps in a PatternExpr -/
def isLiteralish : Node → Bool
  | .str _ _ => true | .int _ _ => true | .float _ _ => true
  | .bin .plus l r _ => isLiteralish l && isLiteralish r
  | _ => false

/-- `VisitBefore`'s depth guard around a node: beyond the limit the node is cut off (one error,
    the first time); otherwise `k` runs with the depth counted -/
def guarded (cfg : Cfg) (n : Node) (k : St → St) (s : St) : St :=
  if tooDeepNow cfg s then depthCut cfg n s else k { s with depth := s.depth + 1 }

/-- evaluate a pattern-valued expression and, if it yields text, check it as a regular expression -/
def evalCheck (cfg : Cfg) (e : Node) (p : Option Pos) (s : St) : St :=
  let r := evalPattern cfg.fmtFloat s e
  let s' := { s with errors := s.errors ++ r.2 }
  if r.1.isEmpty then s' else checkRegex cfg s' r.1 p

def setNoRegexSymbols (b : Bool) (s : St) : St := { s with noRegexSymbols := b }

/-- is the identifier a pattern constant (and not a metric)? -/
def isPatternConst (s : St) : Node → Bool
  | .id name _ _ => (lookup s name .var).isNone && (lookup s name .pattern).isSome
  | _ => false

/-- declare a symbol in the innermost scope; `onDup` when the name is taken there -/
def declare (name : String) (k : Kind) (p : Option Pos) (dupCls : Cls) (dupPos : Option Pos)
    (ok : Sym → St → St) (s : St) : St :=
  let r := s.newSym name k p
  let r2 := insertTop r.1 name r.2.id
  if r2.2.isSome then cut (r2.1.err dupCls dupPos) else ok r.2 r2.1

def recordPattern (cfg : Cfg) (sy : Sym) (e : Node) (s : St) : St :=
  let r := evalPattern cfg.fmtFloat s e
  let s' := { s with errors := s.errors ++ r.2 }
  if r.1.isEmpty then s'
  -- a fragment over the length limit is reported where it is defined, and its text is not kept
  else if r.1.length > cfg.maxRegexLen then s'.err .regexTooLong sy.pos
  else { s' with patterns := (sy.id, r.1) :: s'.patterns }

def closeDeco (sy : Sym) (whole : Option Pos) (s : St) : St :=
  match s.decoScopes with
  | [] => s
  | ds :: rest =>
    let s := if ds.isEmpty then s.err .decoNoSymbols whole else s
    { s with decoScopes := rest, zygotes := (sy.id, ds) :: s.zygotes }

def doNext (p : Pos) (s : St) : St :=
  match s.decoScopes with
  | [] => s.err .nextOutside (some p)
  | ds :: rest =>
    if !ds.isEmpty then s.err .nextTwice (some p)
    else { s with decoScopes := flatten s s.frames [] :: rest }

def openDecoScope (s : St) : St := { s with decoScopes := [] :: s.decoScopes }

def idK (name : String) (p : Pos) (s : St) : St :=
  match lookup s name .var with
  | some sy => leave (markUsed s sy.id) id
  | none =>
    match lookup s name .pattern with
    | some sy => leave (markUsed s sy.id) id
    | none => cut (s.err .undeclared (some p))

def capK (name : String) (p : Pos) (s : St) : St :=
  match lookup s name .capref with
  | some sy => leave (markUsed s sy.id) id
  | none => cut (s.err .undefCapref (some p))

def declK (d : Decl) (p : Pos) : St → St :=
  declare d.name .var (some p) .redeclMetric (some p) fun _ s =>
    if !d.buckets.isEmpty ∧ d.kind ≠ 5 then cut (s.err .bucketsOnNonHistogram (some p)) else leave s id

/-- `DecoStmt`: the decorated block is walked in a scope that holds what the definition saw at `next` -/
def decoK (name : String) (whole : Option Pos) (walkBlock : St → St) (s : St) : St :=
  match lookup s name .deco with
  | none => cut (s.err .undefDeco whole)
  | some sy =>
    match (markUsed s sy.id).zygotes.find? (·.1 = sy.id) with
    | none => cut ((markUsed s sy.id).err .decoIncomplete whole)
    | some z => leave (walkBlock (push (markUsed s sy.id) (flatten (markUsed s sy.id) [z.2] []))) pop

def constK (cfg : Cfg) (i e : Node) (walkE : St → St) (s : St) : St :=
  match i with
  | .id name p _ =>
    declare name .pattern (some p) .redeclConst (some p) (fun sy s => leave (walkE s) (recordPattern cfg sy e)) s
  | _ => cut s

def matchK (cfg : Cfg) (op : Op) (r : Node) (s : St) : St :=
  -- a literal right operand of `=~` becomes a PatternExpr, which is walked
  if (op = .match ∨ op = .notMatch) ∧ isLiteralish r then guarded cfg r (evalCheck cfg r (posOf r)) s else s

def idxK (cfg : Cfg) (lhs : Node) (s : St) : St :=
  -- a pattern constant used as an expression is rewritten to a PatternExpr and walked
  if isPatternConst s lhs then evalCheck cfg lhs (posOf lhs) s else s

def substK (name : String) (b : Bool) (s : St) : St := if name = "subst" then setNoRegexSymbols b s else s

mutual
def walk (cfg : Cfg) : Node → St → St
  | .nil, s => s
  | .error _ _, s => s
  | .stmts cs, s =>
    guarded cfg (.stmts cs) (fun s => leave (walkList cfg cs (push s)) fun s => pop (sweep s)) s
  | .exprs cs, s =>
    guarded cfg (.exprs cs) (fun s => leave (walkList cfg cs s) id) s
  | .cond c t e, s =>
    guarded cfg (.cond c t e)
      (fun s => leave (walk cfg e (walk cfg t (walk cfg c (push s)))) fun s => pop (sweep s)) s
  | .id name p ty, s => guarded cfg (.id name p ty) (idK name p) s
  | .cap name nd p ty, s => guarded cfg (.cap name nd p ty) (capK name p) s
  | .builtin name args p ty, s =>
    guarded cfg (.builtin name args p ty) (fun s => leave (walk cfg args (substK name true s)) (substK name false)) s
  | .bin op l r ty, s =>
    guarded cfg (.bin op l r ty) (fun s => leave (walk cfg r (walk cfg l s)) (matchK cfg op r)) s
  | .un op e p ty, s => guarded cfg (.un op e p ty) (fun s => leave (walk cfg e s) id) s
  | .idx lhs index ty, s =>
    guarded cfg (.idx lhs index ty) (fun s => leave (walk cfg lhs (walk cfg index s)) (idxK cfg lhs)) s
  | .decl d p, s => guarded cfg (.decl d p) (declK d p) s
  | .str t p, s => guarded cfg (.str t p) (fun s => leave s id) s
  | .int i p, s => guarded cfg (.int i p) (fun s => leave s id) s
  | .float b p, s => guarded cfg (.float b p) (fun s => leave s id) s
  | .patlit t p, s => guarded cfg (.patlit t p) (fun s => leave s id) s
  | .patexpr e pt, s =>
    guarded cfg (.patexpr e pt) (fun s => leave (walk cfg e s) (evalCheck cfg e (posOf e))) s
  | .const i e pt, s => guarded cfg (.const i e pt) (constK cfg i e (walk cfg e)) s
  | .decodecl name block p, s =>
    guarded cfg (.decodecl name block p)
      (declare name .deco (some p) .redeclDeco (merge (some p) (posOf block)) fun sy s =>
        leave (walk cfg block (openDecoScope s)) (closeDeco sy (merge (some p) (posOf block)))) s
  | .deco name block p, s =>
    guarded cfg (.deco name block p) (decoK name (merge (some p) (posOf block)) (walk cfg block)) s
  | .next p, s => guarded cfg (.next p) (fun s => leave s (doNext p)) s
  | .otherwise p, s => guarded cfg (.otherwise p) (fun s => leave s id) s
  | .stop p, s => guarded cfg (.stop p) (fun s => leave s id) s
  | .del n ex p, s => guarded cfg (.del n ex p) (fun s => leave (walk cfg n s) id) s
  | .conv n ty, s => guarded cfg (.conv n ty) (fun s => leave (walk cfg n s) id) s
def walkList (cfg : Cfg) : Nodes → St → St
  | .nil, s => s
  | .cons n ns, s => walkList cfg ns (walk cfg n s)
end

/-- `checker.Check`: the errors of the scope discipline, in the order they are reported -/
def check (cfg : Cfg) (prog : Node) : List Err := (walk cfg prog {}).errors

end MtailVerif.Scope
