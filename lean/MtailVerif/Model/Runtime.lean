import MtailVerif.Model.Bytes
/-! Sequential model of `metrics.Store.Add` (internal/metrics/store.go) and of
    `Runtime.LoadAllPrograms` / `LoadProgram` / `CompileAndRun` / `UnloadProgram` and the line
    fan-out (internal/runtime/runtime.go).

    The compiler is an oracle: a program *version* comes with its compile outcome and, when it
    compiles, its metric declarations and what it does to them on a line.  Data are plain
    (labels ↦ value, expiry); the datum pointer sharing between an old and a new metric across a
    reload is invisible in a sequential history because the old VM is stopped at the swap. -/
namespace MtailVerif.Runtime
open MtailVerif

structure LVal where
  labels : List Bytes
  value : Int
  expiry : Int := 0
deriving Repr, DecidableEq

/-- a `metrics.Metric` as `Store.Add` sees it -/
structure SMetric where
  name : Bytes
  prog : Bytes
  kind : Nat
  typ : Nat
  keys : List Bytes
  source : Bytes
  hidden : Bool := false
  lvs : List LVal := []
  /-- the declared bucket boundaries of a histogram, as the source spells them (`Metric.Buckets`) -/
  buckets : Bytes := []
deriving Repr, DecidableEq

/-- `Store.Metrics`: name ↦ metrics, as an association list in first-insertion order -/
abbrev Store := List (Bytes × List SMetric)

def Store.get (s : Store) (name : Bytes) : List SMetric :=
  match s.find? (·.1 = name) with
  | some p => p.2
  | none => []

def Store.set (s : Store) (name : Bytes) (ms : List SMetric) : Store :=
  if s.any (·.1 = name) then s.map (fun p => if p.1 = name then (name, ms) else p) else s ++ [(name, ms)]

/-- `RemoveDatum` then `AppendLabelValue(&LabelValue{Labels, Value})` for one old label value:
    the value moves to the end of the new metric; the expiry is NOT copied -/
def copyOne (copyExpiry : Bool) (m : SMetric) (old : LVal) : SMetric :=
  { m with lvs := (m.lvs.filter (fun l => l.labels ≠ old.labels)) ++
      [{ labels := old.labels, value := old.value, expiry := if copyExpiry then old.expiry else 0 }] }

/-- the scan over existing metrics of that name in `Store.Add`; returns the new metric (with
    copied data) and `dupeIndex` -/
def addScan (copyExpiry : Bool) (m : SMetric) : List SMetric → Nat → Option Nat → SMetric × Option Nat
  | [], _, dupe => (m, dupe)
  | v :: rest, i, dupe =>
    if v.prog ≠ m.prog then addScan copyExpiry m rest (i + 1) dupe
    else if v.typ ≠ m.typ then addScan copyExpiry m rest (i + 1) dupe
    else if v.source ≠ m.source then addScan copyExpiry m rest (i + 1) dupe
    else if v.keys ≠ m.keys ∨ v.buckets ≠ m.buckets then (m, some i)   -- the two `break`s: other keys, or other bucket boundaries (other counts)
    else addScan copyExpiry (v.lvs.foldl (copyOne copyExpiry) m) rest (i + 1) (some i)

inductive AddErr | kind
deriving Repr, DecidableEq

/-- `Store.Add` -/
def Store.add (copyExpiry : Bool) (s : Store) (m : SMetric) : Except AddErr Store :=
  let existing := s.get m.name
  match existing with
  | first :: _ =>
    if m.kind ≠ first.kind then .error .kind
    else
      let (m', dupe) := addScan copyExpiry m existing 0 none
      let appended := existing ++ [m']
      let final := match dupe with
        | some i => appended.eraseIdx i
        | none => appended
      .ok (s.set m.name final)
  | [] => .ok (s.set m.name [m])

/-! ### programs and the loader -/

/-- what a compiled version does on a line: for each of its metrics (by position), whether it
    increments the datum at labels derived from the line -/
structure Version where
  hash : Nat                       -- stands for the SHA-256 of the source
  compiles : Bool
  decls : List SMetric             -- declarations, in program order (hidden ones included)
  /-- per declaration: 0 = untouched, 1 = `m[$1,…]++` on a line matching the program's pattern -/
  effect : List Nat
  runtimeError : Bool := false     -- the version raises a runtime error on every matching line
deriving Repr

structure Handle where
  hash : Nat
  version : Version
deriving Repr

structure RT where
  store : Store := []
  handles : List (Bytes × Handle) := []
  loads : List (Bytes × Nat) := []
  unloads : List (Bytes × Nat) := []
  loadErrors : List (Bytes × Nat) := []
  runtimeErrors : List (Bytes × Nat) := []
  lineCount : Nat := 0
deriving Repr

def bump (k : Bytes) : List (Bytes × Nat) → List (Bytes × Nat)
  | [] => [(k, 1)]
  | p :: rest => if p.1 = k then (p.1, p.2 + 1) :: rest else p :: bump k rest

def registerAll (copyExpiry : Bool) (s : Store) : List SMetric → Except AddErr Store
  | [] => .ok s
  | m :: rest =>
    if m.hidden then registerAll copyExpiry s rest
    else match s.add copyExpiry m with
      | .ok s' => registerAll copyExpiry s' rest
      | .error e => .error e

/-- how far registration got before a refusal (the store keeps what was registered) -/
def registerPartial (copyExpiry : Bool) (s : Store) : List SMetric → Store
  | [] => s
  | m :: rest =>
    if m.hidden then registerPartial copyExpiry s rest
    else match s.add copyExpiry m with
      | .ok s' => registerPartial copyExpiry s' rest
      | .error _ => s

structure Cfg where
  copyExpiry : Bool               -- regenerated: does `Store.Add` copy `Expiry`?
  countRegistrationError : Bool   -- regenerated: is `ProgLoadErrors` bumped when `ms.Add` fails?

/-- what `CompileAndRun` decides to do, as a function of its inputs -/
inductive Decision
  | unchanged                       -- same content hash as the running version: nothing happens
  | compileError
  | refused (partialStore : Store)  -- the store refused one of the metrics
  | loaded (s' : Store)

def sameHash (r : RT) (name : Bytes) (v : Version) : Bool :=
  match r.handles.find? (·.1 = name) with
  | some p => p.2.hash == v.hash
  | none => false

def decision (cfg : Cfg) (r : RT) (name : Bytes) (v : Version) : Decision :=
  if sameHash r name v then .unchanged
  else if !v.compiles then .compileError
  else
    let decls := v.decls.map (fun d => { d with prog := name })
    match registerAll cfg.copyExpiry r.store decls with
    | .ok s' => .loaded s'
    | .error _ => .refused (registerPartial cfg.copyExpiry r.store decls)

/-- `r.handles[name] = h` -/
def setHandle (hs : List (Bytes × Handle)) (name : Bytes) (h : Handle) : List (Bytes × Handle) :=
  if hs.any (·.1 = name) then hs.map (fun p => if p.1 = name then (name, h) else p) else hs ++ [(name, h)]

/-- `CompileAndRun(name, source)` -/
def compileAndRun (cfg : Cfg) (r : RT) (name : Bytes) (v : Version) : RT :=
  match decision cfg r name v with
  | .unchanged => r
  | .compileError => { r with loadErrors := bump name r.loadErrors }
  | .refused ps =>
    { r with store := ps,
             loadErrors := if cfg.countRegistrationError then bump name r.loadErrors else r.loadErrors }
  | .loaded s' =>
    { r with store := s', loads := bump name r.loads, handles := setHandle r.handles name ⟨v.hash, v⟩ }

inductive Entry
  | dir (name : Bytes)
  | file (name : Bytes) (v : Version)
  | unreadable (name : Bytes)
deriving Repr

def hasPrefixDot (n : Bytes) : Bool := n.head? = some 46
def extIsMtail (n : Bytes) : Bool :=
  -- filepath.Ext: from the last '.', must equal ".mtail"
  let rev := n.reverse
  let ext := (rev.takeWhile (· ≠ 46)).reverse
  rev.contains 46 && ext = [109, 116, 97, 105, 108]

/-- `LoadProgram` -/
def loadProgram (cfg : Cfg) (r : RT) : Entry → RT
  | .dir _ => r
  | .file name v =>
    if hasPrefixDot name then r
    else if !extIsMtail name then r
    else compileAndRun cfg r name v
  | .unreadable name =>
    if hasPrefixDot name then r
    else if !extIsMtail name then r
    else { r with loadErrors := bump name r.loadErrors }

def entryName : Entry → Bytes
  | .dir n => n | .file n _ => n | .unreadable n => n

/-- `UnloadProgram` -/
def unload (r : RT) (name : Bytes) : RT :=
  { r with handles := r.handles.filter (·.1 ≠ name), unloads := bump name r.unloads }

/-- `LoadAllPrograms` on a directory listing -/
def loadAll (cfg : Cfg) (r : RT) (listing : List Entry) : RT :=
  let marked := r.handles.map (·.1)
  let r1 := listing.foldl (fun r e => match e with | .dir _ => r | e => loadProgram cfg r e) r
  let unmarked := (listing.filter (fun e => match e with | .dir _ => false | _ => true)).map entryName
  (marked.filter (fun n => !unmarked.contains n)).foldl unload r1

/-- find-or-create then add 1, as `m[$1]++` does through GetDatum -/
def incAt (m : SMetric) (labels : List Bytes) : SMetric :=
  if m.lvs.any (·.labels = labels) then
    { m with lvs := m.lvs.map (fun l => if l.labels = labels then { l with value := l.value + 1 } else l) }
  else { m with lvs := m.lvs ++ [{ labels := labels, value := 1 }] }

/-- the metric object a running version updates: the one in the store with its program, name,
    type and source (a hidden metric is not in the store and not modelled) -/
def applyEffect (prog : Bytes) (d : SMetric) (labels : List Bytes) (s : Store) : Store :=
  s.map (fun p => if p.1 = d.name then
    (p.1, p.2.map (fun m => if m.prog = prog ∧ m.typ = d.typ ∧ m.source = d.source ∧ m.keys = d.keys ∧ m.kind = d.kind
      then incAt m labels else m)) else p)

/-- one log line handed to every loaded program (`isMatch` = the line matches the catalogue's
    pattern; the key is the line itself).  Effect 1 = `m[$1,…]++` inside the pattern block,
    effect 2 = a scalar `m++` at the end of the program (reached unless a runtime error ended
    the line early). -/
def applyDecl (prog key : Bytes) (isMatch : Bool) (r : RT) (de : SMetric × Nat) : RT :=
  if de.1.hidden then r
  else if de.2 = 1 ∧ isMatch then
    { r with store := applyEffect prog de.1 (de.1.keys.map (fun _ => key)) r.store }
  else if de.2 = 2 then
    { r with store := applyEffect prog de.1 [] r.store }
  else r

/-- one program's VM processing the line -/
def lineProg (key : Bytes) (isMatch : Bool) (r : RT) (h : Bytes × Handle) : RT :=
  let v := h.2.version
  if isMatch ∧ v.runtimeError then { r with runtimeErrors := bump h.1 r.runtimeErrors }
  else (v.decls.zip v.effect).foldl (applyDecl h.1 key isMatch) r

def line (r : RT) (key : Bytes) (isMatch : Bool) : RT :=
  r.handles.foldl (lineProg key isMatch) { r with lineCount := r.lineCount + 1 }

end MtailVerif.Runtime
