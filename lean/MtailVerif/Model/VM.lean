import MtailVerif.Model.MetricSpec
import MtailVerif.Model.Buckets
/-! Model of the bytecode VM (internal/runtime/vm/vm.go): one `step` clause per opcode with the
    same pops, the same type switches (`PopInt`, `PopFloat`, `PopString`), the same checked
    runtime errors and the same *faults* (what Go turns into a panic, or reports as an
    "unexpected type" error: stack underflow, an operand of a representation the instruction
    does not accept, a jump or constant index out of range).

    Library behaviour is a parameter (`Oracle`): regexp matching, number parsing and formatting,
    `math.Mod`/`math.Pow`, float arithmetic and comparison, `strings.ToLower`/`ReplaceAll`,
    `time.Parse`, the wall clock.  Everything mtail itself decides is in the model. -/
namespace MtailVerif.VM
open MtailVerif

/-- an instant: nanoseconds since the Unix epoch; `zeroT` is Go's zero `time.Time` (year 1) -/
abbrev T := Int
def zeroT : T := -62135596800000000000

/-- datum payloads -/
inductive DVal
  | int (v : Int)
  | float (bits : UInt64)
  | str (s : Bytes)
  | buckets (b : Buckets.B UInt64)

/-- a datum: payload and timestamp (`none` = stamped with the wall clock) -/
structure Datum where
  val : DVal
  time : Option T

/-- what sits on the VM's stack (`interface{}` in Go) -/
inductive Val
  | bool (b : Bool)
  | i64 (n : Int)                 -- Go int64
  | int (n : Int)                 -- Go int (operands of Push, results of Length, regexp indices)
  | f64 (bits : UInt64)
  | str (s : Bytes)
  | dur (ns : Int)                -- time.Duration
  | datum (m : Nat) (lv : Nat)    -- a datum pointer: metric index, label-value identity
  | metric (m : Nat)
deriving DecidableEq

inductive Opcode
  | bad | stop | «match» | smatch | cmp | jnm | jm | jmp | inc | dec | strptime | timestamp | settime
  | push | capref | str | sset | iset | iadd | isub | imul | idiv | imod | ipow | and | or | xor | neg
  | not | shl | shr | mload | dload | iget | fget | sget | tolower | length | cat | setmatched
  | otherwise | del | expire | fadd | fsub | fmul | fdiv | fmod | fpow | fset | getfilename | i2f | s2i
  | s2f | i2s | f2s | icmp | fcmp | scmp | subst | rsubst
deriving DecidableEq, Repr

/-- operands: nil, Go int, bool, int64, float64, Duration -/
inductive Operand
  | none | int (n : Int) | bool (b : Bool) | i64 (n : Int) | f64 (bits : UInt64) | dur (ns : Int)
deriving DecidableEq

structure Instr where
  op : Opcode
  arg : Operand
deriving DecidableEq

structure MetricInfo where
  typ : Nat                       -- 0 int, 1 float, 2 string, 3 buckets
  nkeys : Nat
  ranges : List Buckets.Range     -- for histograms

structure Prog where
  code : List Instr
  strs : List Bytes
  nre : Nat                       -- number of regular expressions
  metrics : List MetricInfo

/-- results of the standard library, as far as this program run consults it -/
structure Oracle where
  reMatch : Nat → Bytes → Option (List Bytes)          -- FindStringSubmatch
  parseInt : Bytes → Int → Option Int                   -- strconv.ParseInt(s, base, 64)
  parseFloat : Bytes → Option UInt64
  fadd : UInt64 → UInt64 → UInt64
  fsub : UInt64 → UInt64 → UInt64
  fmul : UInt64 → UInt64 → UInt64
  fdiv : UInt64 → UInt64 → UInt64
  fmod : UInt64 → UInt64 → UInt64
  fpow : UInt64 → UInt64 → UInt64
  fcmp : UInt64 → UInt64 → Int → Bool                   -- a < b (−1), a == b (0), a > b (1)
  i2f : Int → UInt64
  f2i : UInt64 → Int                                    -- Go's int64(f)
  fmtG : UInt64 → Bytes                                 -- strconv.FormatFloat(f, 'G', -1, 64)
  fmtg : UInt64 → Bytes                                 -- fmt.Sprintf("%g", f)
  toLower : Bytes → Bytes
  replaceAll : Bytes → Bytes → Bytes → Bytes            -- strings.ReplaceAll(val, old, new)
  reReplace : Nat → Bytes → Bytes → Bytes               -- re.ReplaceAllLiteralString(val, repl)
  timeParse : Bytes → Bytes → Option T                  -- layout, value (location and current-year rule applied)
  nowSec : Int

/-- the checked runtime errors -/
inductive RtErr
  | convFailed | timeParseFailed | divByZero | shiftOutOfRange | baseOutOfRange | captureOfUnmatched
  | expireMissingDatum | arity
deriving DecidableEq, Repr

/-- internal faults -/
inductive Fault
  | stackUnderflow | badOperandType | badOperand | badJump | badIndex | badInstr | cmpTypes
deriving DecidableEq, Repr

abbrev MStore := List (Metric.Metric Datum)

structure Thread where
  pc : Nat := 0
  matched : Bool := false
  caps : List (Nat × List Bytes) := []     -- regexp index ↦ submatches of its last match
  time : T := zeroT
  stack : List Val := []

/-- what survives between lines -/
structure State where
  store : MStore
  memo : List ((Bytes × Bytes) × T)           -- strptime memo: (layout, value) ↦ instant, most recent first

inductive Res
  | next (t : Thread) (s : State)
  | stop (s : State)                          -- `stop`: the line ends normally
  | err (e : RtErr) (s : State)               -- checked runtime error: effects so far are kept
  | fault (f : Fault) (s : State)

def wrap (x : Int) : Int := ((x + 9223372036854775808) % 18446744073709551616) - 9223372036854775808

def itoa (n : Int) : Bytes := (toString n).toUTF8.toList

/-- `PopInt` on a value -/
inductive Conv (α : Type) | ok (a : α) | convErr | typeErr

def asInt (o : Oracle) (st : MStore) : Val → Conv Int
  | .i64 n => .ok n
  | .int n => .ok n
  | .str s => match o.parseInt s 10 with | some n => .ok n | none => .convErr
  | .datum m lv =>
    match (st[m]?).bind (fun mm => Metric.byId lv mm.lvs) with
    | some l => match l.value.val with | .int v => .ok v | _ => .typeErr     -- datum.GetInt panics otherwise
    | none => .typeErr
  | _ => .typeErr

def asFloat (o : Oracle) (st : MStore) : Val → Conv UInt64
  | .f64 b => .ok b
  | .int n => .ok (o.i2f n)
  | .str s => match o.parseFloat s with | some b => .ok b | none => .convErr
  | .datum m lv =>
    match (st[m]?).bind (fun mm => Metric.byId lv mm.lvs) with
    | some l => match l.value.val with | .float v => .ok v | _ => .typeErr
    | none => .typeErr
  | _ => .typeErr                               -- note: no int64 case in `PopFloat`

def asString (o : Oracle) (st : MStore) : Val → Conv Bytes
  | .str s => .ok s
  | .f64 b => .ok (o.fmtG b)
  | .int n => .ok (itoa n)
  | .i64 n => .ok (itoa n)
  | .datum m lv =>
    match (st[m]?).bind (fun mm => Metric.byId lv mm.lvs) with
    | some l => match l.value.val with | .str v => .ok v | _ => .typeErr
    | none => .typeErr
  | _ => .typeErr

def cmpInt (a b : Int) (opnd : Int) : Option Bool :=
  if opnd = -1 then some (a < b) else if opnd = 0 then some (a = b) else if opnd = 1 then some (a > b) else none

def cmpStr (a b : Bytes) (opnd : Int) : Option Bool :=
  if opnd = -1 then some (a < b) else if opnd = 0 then some (a = b) else if opnd = 1 then some (b < a) else none

def cmpFloat (o : Oracle) (a b : UInt64) (opnd : Int) : Option Bool :=
  if opnd = -1 ∨ opnd = 0 ∨ opnd = 1 then some (o.fcmp a b opnd) else none

/-- the zero datum of a metric's type (`GetDatum`'s switch) -/
def zeroDatum (mi : MetricInfo) : Datum :=
  match mi.typ with
  | 0 => ⟨.int 0, none⟩
  | 1 => ⟨.float 0, none⟩
  | 2 => ⟨.str [], none⟩
  | _ => ⟨.buckets (Buckets.make 0 mi.ranges), some zeroT⟩   -- MakeBuckets does not stamp

/-- the stamp a datum update receives: the thread's time register, or the wall clock when unset -/
def stampOf (t : Thread) : Option T := if t.time = zeroT then none else some t.time

def updDatum (st : MStore) (m lv : Nat) (f : Datum → Datum) : MStore :=
  match st[m]? with
  | some mm => st.set m (Metric.updateDatum mm lv f)
  | none => st

def lookupMatch (ms : List (Nat × List Bytes)) (re : Nat) : Option (List Bytes) :=
  match ms.find? (·.1 = re) with
  | some p => some p.2
  | none => none

/-- pop `n` keys (strings) below the metric, last key on top: returns keys in order -/
def popKeys (o : Oracle) (st : MStore) : Nat → List Val → List Bytes → Option (Except Bool (List Bytes × List Val))
  | 0, stack, acc => some (.ok (acc, stack))
  | n+1, v :: rest, acc =>
    match asString o st v with
    | .ok s => popKeys o st n rest (s :: acc)
    | .convErr => some (.error false)
    | .typeErr => some (.error true)
  | _+1, [], _ => none

def binInt (op : Opcode) (a b : Int) (o : Oracle) : Except RtErr Int :=
  match op with
  | .iadd => .ok (wrap (a + b))
  | .isub => .ok (wrap (a - b))
  | .imul => .ok (wrap (a * b))
  | .idiv => if b = 0 then .error .divByZero else .ok (wrap (Int.tdiv a b))
  | .imod => if b = 0 then .error .divByZero else .ok (Int.tmod a b)
  | .ipow => .ok (o.f2i (o.fpow (o.i2f a) (o.i2f b)))
  | .shl => if b < 0 ∨ b ≥ 2147483647 then .error .shiftOutOfRange
            else .ok (if b ≥ 64 then 0 else wrap (a * 2 ^ b.toNat))
  | .shr => if b < 0 ∨ b ≥ 2147483647 then .error .shiftOutOfRange
            else .ok (if b ≥ 64 then (if a < 0 then -1 else 0) else a / 2 ^ b.toNat)
  | .and => .ok (BitVec.ofInt 64 a &&& BitVec.ofInt 64 b).toInt
  | .or => .ok (BitVec.ofInt 64 a ||| BitVec.ofInt 64 b).toInt
  | .xor => .ok (BitVec.ofInt 64 a ^^^ BitVec.ofInt 64 b).toInt
  | _ => .ok 0

def binFloat (o : Oracle) (op : Opcode) (a b : UInt64) : UInt64 :=
  match op with
  | .fadd => o.fadd a b | .fsub => o.fsub a b | .fmul => o.fmul a b
  | .fdiv => o.fdiv a b | .fmod => o.fmod a b | _ => o.fpow a b

/-- the generic `compare(a, b, opnd)` used by `Cmp` -/
def compareVals (o : Oracle) (a b : Val) (opnd : Int) : Option Bool :=
  let isF := fun (v : Val) => match v with | .f64 x => some x | _ => none
  let isI := fun (v : Val) => match v with | .i64 x => some x | .int x => some x | _ => none
  let isS := fun (v : Val) => match v with | .str x => some x | _ => none
  match isF a with
  | some x =>
    (match isF b, isI b, isS b with
     | some y, _, _ => cmpFloat o x y opnd
     | _, some y, _ => cmpFloat o x (o.i2f y) opnd
     | _, _, some s => (o.parseFloat s).bind (fun y => cmpFloat o x y opnd)
     | _, _, _ => none)
  | none =>
    match isI a with
    | some x =>
      (match isF b, isI b, isS b with
       | some y, _, _ => cmpFloat o (o.i2f x) y opnd
       | _, some y, _ => cmpInt x y opnd
       | _, _, some s => (o.parseFloat s).bind (fun y => cmpFloat o 0 y opnd)   -- sic: compares lxF (= 0) in the Go code
       | _, _, _ => none)
    | none =>
      match isS a with
      | some s =>
        (match o.parseFloat s with
         | some x =>
           (match isF b, isI b, isS b with
            | some y, _, _ => cmpFloat o x y opnd
            | _, some y, _ => cmpFloat o x (o.i2f y) opnd
            | _, _, some s2 => (o.parseFloat s2).bind (fun y => cmpFloat o x y opnd)
            | _, _, _ => none)
         | none =>
           match isS b with
           | some s2 => cmpStr s s2 opnd
           | none => none)
      | none => none

/-- `Inc`/`Dec`/`Iset`/`Fset`/`Sset` target: the value under the operand must be a datum -/
def withDatum (v : Val) : Option (Nat × Nat) :=
  match v with
  | .datum m lv => some (m, lv)
  | _ => none

/-- order key of a float bit pattern (see Model/Buckets.lean) -/
def fvKey (b : UInt64) : Buckets.FV :=
  let n := b.toNat
  let mag := n % 9223372036854775808
  if mag > 9218868437227405312 then .nan
  else if n ≥ 9223372036854775808 then .num (-(mag : Int)) else .num (mag : Int)

/-- `Buckets.Observe` -/
def observeB (o : Oracle) (b : Buckets.B UInt64) (v : UInt64) : Buckets.B UInt64 :=
  { buckets := Buckets.bump (fvKey v) b.buckets, count := b.count + 1, sum := o.fadd b.sum v }

/-- `datum.SetInt` / `SetFloat` / `SetString` / `IncIntBy`: `none` = the Go code panics -/
def setIntD (o : Oracle) (d : Datum) (v : Int) (ts : Option T) : Option Datum :=
  match d.val with
  | .int _ => some ⟨.int v, ts⟩
  | .buckets b => some ⟨.buckets (observeB o b (o.i2f v)), ts⟩
  | _ => none

def setFloatD (o : Oracle) (d : Datum) (v : UInt64) (ts : Option T) : Option Datum :=
  match d.val with
  | .float _ => some ⟨.float v, ts⟩
  | .buckets b => some ⟨.buckets (observeB o b v), ts⟩
  | _ => none

def setStringD (d : Datum) (v : Bytes) (ts : Option T) : Option Datum :=
  match d.val with
  | .str _ => some ⟨.str v, ts⟩
  | _ => none

def incIntD (d : Datum) (delta : Int) (ts : Option T) : Option Datum :=
  match d.val with
  | .int x => some ⟨.int (wrap (x + delta)), ts⟩
  | _ => none

def getDatumOf (st : MStore) (m lv : Nat) : Option Datum :=
  ((st[m]?).bind (fun mm => Metric.byId lv mm.lvs)).map (·.value)

end MtailVerif.VM
