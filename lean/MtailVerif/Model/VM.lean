import MtailVerif.Model.Metric
import MtailVerif.Model.Buckets
/-! Model of the bytecode VM (internal/runtime/vm/vm.go): one `step` clause per opcode with the
    same pops, the same type switches (`PopInt`, `PopFloat`, `PopString`), the same checked
    runtime errors and the same *faults* (what Go turns into a panic, or reports as an
    "unexpected type" error: stack underflow, an operand of a representation the instruction
    does not accept, a jump or constant index out of range).

    Library behaviour is a parameter (`Oracle`): regexp matching, number parsing and formatting,
    `math.Mod`/`math.Pow`, float arithmetic and comparison, `strings.ToLower`/`ReplaceAll`,
    `time.Parse`, the wall clock.  Everything mtail itself decides is in the model. -/
namespace MtailVerif.VM
open MtailVerif

/-- an instant: nanoseconds since the Unix epoch (unbounded); `zeroT` is Go's zero `time.Time` -/
abbrev T := Int
def zeroT : T := -62135596800000000000

/-- datum payloads -/
inductive DVal
  | int (v : Int)
  | float (bits : UInt64)
  | str (s : Bytes)
  | buckets (b : Buckets.B UInt64)

/-- `metrics.Type` of a payload: 0 Int, 1 Float, 2 String, 3 Buckets -/
def DVal.ty : DVal → Nat
  | .int _ => 0 | .float _ => 1 | .str _ => 2 | .buckets _ => 3

/-- a datum: payload and timestamp in int64 nanoseconds (`none` = stamped with the wall clock
    during this run) -/
structure Datum where
  val : DVal
  time : Option Int

/-- what sits on the VM's stack (`interface{}` in Go) -/
inductive Val
  | nil
  | bool (b : Bool)
  | i64 (n : Int)                 -- Go int64
  | int (n : Int)                 -- Go int (operands of Push, results of Length, regexp indices)
  | f64 (bits : UInt64)
  | str (s : Bytes)
  | dur (ns : Int)                -- time.Duration
  | datum (m : Nat) (lv : Nat)    -- a datum pointer: metric index, label-value identity
  | metric (m : Nat)
deriving DecidableEq

inductive Opcode
  | bad | stop | «match» | smatch | cmp | jnm | jm | jmp | inc | dec | strptime | timestamp | settime
  | push | capref | str | sset | iset | iadd | isub | imul | idiv | imod | ipow | and | or | xor | neg
  | not | shl | shr | mload | dload | iget | fget | sget | tolower | length | cat | setmatched
  | otherwise | del | expire | fadd | fsub | fmul | fdiv | fmod | fpow | fset | getfilename | i2f | s2i
  | s2f | i2s | f2s | icmp | fcmp | scmp | subst | rsubst
deriving DecidableEq, Repr

/-- operands: nil, Go int, bool, int64, float64, Duration -/
inductive Operand
  | none | int (n : Int) | bool (b : Bool) | i64 (n : Int) | f64 (bits : UInt64) | dur (ns : Int)
deriving DecidableEq

structure Instr where
  op : Opcode
  arg : Operand
deriving DecidableEq

structure MetricInfo where
  typ : Nat                       -- 0 int, 1 float, 2 string, 3 buckets
  nkeys : Nat
  ranges : List Buckets.Range     -- for histograms

structure Prog where
  code : List Instr
  strs : List Bytes
  nre : Nat                       -- number of regular expressions
  metrics : List MetricInfo

structure Input where
  filename : Bytes
  line : Bytes

/-- results of the standard library, as far as this program run consults it -/
structure Oracle where
  reMatch : Nat → Bytes → Option (List Bytes)          -- re[i].FindStringSubmatch(s)
  parseInt : Bytes → Int → Option Int                   -- strconv.ParseInt(s, base, 64)
  parseFloat : Bytes → Option UInt64
  fadd : UInt64 → UInt64 → UInt64
  fsub : UInt64 → UInt64 → UInt64
  fmul : UInt64 → UInt64 → UInt64
  fdiv : UInt64 → UInt64 → UInt64
  fmod : UInt64 → UInt64 → UInt64
  fpow : UInt64 → UInt64 → UInt64
  fcmp : UInt64 → UInt64 → Int → Bool                   -- a < b (−1), a == b (0), a > b (1)
  i2f : Int → UInt64
  f2i : UInt64 → Int                                    -- Go's int64(f)
  fmtG : UInt64 → Bytes                                 -- strconv.FormatFloat(f, 'G', -1, 64)
  fmtg : UInt64 → Bytes                                 -- fmt.Sprintf("%g", f)
  toLower : Bytes → Bytes
  replaceAll : Bytes → Bytes → Bytes → Bytes            -- strings.ReplaceAll(val, old, new)
  reReplace : Nat → Bytes → Bytes → Bytes               -- re[i].ReplaceAllLiteralString(val, repl)
  timeParse : Bytes → Bytes → Option T                  -- layout, value (location and current-year rule applied)
  nowSec : Int                                          -- time.Now().Unix()

/-- the checked runtime errors -/
inductive RtErr
  | convFailed | timeParseFailed | divByZero | shiftOutOfRange | baseOutOfRange | captureOfUnmatched
  | expireMissingDatum | arity
deriving DecidableEq, Repr

/-- internal faults -/
inductive Fault
  | stackUnderflow | badOperandType | badOperand | badJump | badIndex | badInstr | cmpTypes
deriving DecidableEq, Repr

abbrev MStore := List (Metric.Metric Datum)
abbrev Memo := List ((Bytes × Bytes) × T)     -- strptime memo: (layout, value) ↦ instant, most recent first

structure Thread where
  pc : Nat := 0
  matched : Bool := false
  caps : List (Nat × Option (List Bytes)) := []   -- `matches`: regexp index ↦ result of its last match (nil = no match)
  time : T := zeroT
  stack : List Val := []
  /-- label values removed by `del` on this line: datum pointers to them may still be on the stack -/
  dead : List (Nat × Metric.LV Datum) := []

inductive Res
  | next (t : Thread) (st : MStore)
  | stop (st : MStore)                          -- `stop`: the line ends normally
  | err (e : RtErr) (st : MStore)               -- checked runtime error: effects so far are kept
  | fault (f : Fault) (st : MStore)

def wrap (x : Int) : Int := ((x + 9223372036854775808) % 18446744073709551616) - 9223372036854775808

def itoa (n : Int) : Bytes := (toString n).toUTF8.toList

/-! ### datum access through a pointer -/

def deadLookup (m lv : Nat) : List (Nat × Metric.LV Datum) → Option Datum
  | [] => none
  | (m', l) :: rest => if m' = m ∧ l.id = lv then some l.value else deadLookup m lv rest

/-- the datum a pointer refers to: a live label value of the metric, or one removed on this line -/
def getD (st : MStore) (dead : List (Nat × Metric.LV Datum)) (m lv : Nat) : Option Datum :=
  match (st[m]?).bind (fun mm => Metric.byId lv mm.lvs) with
  | some l => some l.value
  | none => deadLookup m lv dead

def deadUpdate (m lv : Nat) (f : Datum → Datum) : List (Nat × Metric.LV Datum) → List (Nat × Metric.LV Datum)
  | [] => []
  | (m', l) :: rest =>
    if m' = m ∧ l.id = lv then (m', { l with value := f l.value }) :: rest
    else (m', l) :: deadUpdate m lv f rest

/-- a write through a datum pointer -/
def updD (st : MStore) (dead : List (Nat × Metric.LV Datum)) (m lv : Nat) (f : Datum → Datum) :
    MStore × List (Nat × Metric.LV Datum) :=
  match st[m]? with
  | some mm =>
    (match Metric.byId lv mm.lvs with
     | some _ => (st.set m (Metric.updateDatum mm lv f), dead)
     | none => (st, deadUpdate m lv f dead))
  | none => (st, deadUpdate m lv f dead)

/-! ### typed pops (`PopInt`, `PopFloat`, `PopString`) -/

inductive P (α : Type)
  | ok (a : α) (rest : List Val)
  | bad (f : Fault)
  | conv                          -- "conversion of %q to int/float failed"

def popInt (o : Oracle) (st : MStore) (dead : List (Nat × Metric.LV Datum)) : List Val → P Int
  | [] => .bad .stackUnderflow
  | v :: rest =>
    match v with
    | .i64 n => .ok n rest
    | .int n => .ok n rest
    | .f64 b => .ok (o.f2i b) rest
    | .bool b => .ok (if b then 1 else 0) rest
    | .str s => (match o.parseInt s 10 with | some n => .ok n rest | none => .conv)
    | .datum m lv =>
      (match getD st dead m lv with
       | some ⟨.int x, _⟩ => .ok x rest
       | _ => .bad .badOperandType)               -- datum.GetInt panics
    | _ => .bad .badOperandType

def popFloat (o : Oracle) (st : MStore) (dead : List (Nat × Metric.LV Datum)) : List Val → P UInt64
  | [] => .bad .stackUnderflow
  | v :: rest =>
    match v with
    | .f64 b => .ok b rest
    | .int n => .ok (o.i2f n) rest
    | .i64 n => .ok (o.i2f n) rest
    | .bool b => .ok (o.i2f (if b then 1 else 0)) rest
    | .str s => (match o.parseFloat s with | some b => .ok b rest | none => .conv)
    | .datum m lv =>
      (match getD st dead m lv with
       | some ⟨.float x, _⟩ => .ok x rest
       | _ => .bad .badOperandType)
    | _ => .bad .badOperandType

def popString (o : Oracle) (st : MStore) (dead : List (Nat × Metric.LV Datum)) : List Val → P Bytes
  | [] => .bad .stackUnderflow
  | v :: rest =>
    match v with
    | .str s => .ok s rest
    | .f64 b => .ok (o.fmtG b) rest
    | .int n => .ok (itoa n) rest
    | .i64 n => .ok (itoa n) rest
    | .bool b => .ok (if b then "true" else "false").toUTF8.toList rest
    | .datum m lv =>
      (match getD st dead m lv with
       | some ⟨.str x, _⟩ => .ok x rest
       | _ => .bad .badOperandType)
    | _ => .bad .badOperandType

/-- continue with a popped value, or end the line the way `errorf` does -/
def P.andThen {α : Type} (p : P α) (st : MStore) (k : α → List Val → Res) : Res :=
  match p with
  | .ok a rest => k a rest
  | .bad f => .fault f st
  | .conv => .err .convFailed st

/-- pop `n` key strings (last key on top); keys come back in declaration order -/
def popKeys (o : Oracle) (st : MStore) (dead : List (Nat × Metric.LV Datum)) :
    Nat → List Val → List Bytes → P (List Bytes)
  | 0, stack, acc => .ok acc stack
  | n+1, stack, acc =>
    match popString o st dead stack with
    | .ok s rest => popKeys o st dead n rest (s :: acc)
    | .bad f => .bad f
    | .conv => .conv

/-! ### comparison -/

def cmpInt (a b : Int) (opnd : Int) : Option Bool :=
  if opnd = -1 then some (decide (a < b)) else if opnd = 0 then some (decide (a = b))
  else if opnd = 1 then some (decide (a > b)) else none

def cmpStr (a b : Bytes) (opnd : Int) : Option Bool :=
  if opnd = -1 then some (decide (a < b)) else if opnd = 0 then some (decide (a = b))
  else if opnd = 1 then some (decide (b < a)) else none

def cmpFloat (o : Oracle) (a b : UInt64) (opnd : Int) : Option Bool :=
  if opnd = -1 ∨ opnd = 0 ∨ opnd = 1 then some (o.fcmp a b opnd) else none

inductive CmpRes | ok (b : Bool) | conv | types | operand

def ofOpt : Option Bool → CmpRes
  | some b => .ok b
  | none => .operand

/-- `compare(a, b, opnd)` with a float left operand -/
def compareF (o : Oracle) (x : UInt64) (b : Val) (opnd : Int) : CmpRes :=
  match b with
  | .f64 y => ofOpt (cmpFloat o x y opnd)
  | .i64 y => ofOpt (cmpFloat o x (o.i2f y) opnd)
  | .int y => ofOpt (cmpFloat o x (o.i2f y) opnd)
  | .str s => (match o.parseFloat s with | some y => ofOpt (cmpFloat o x y opnd) | none => .conv)
  | _ => .types

/-- booleans are compared as 0 and 1 -/
def unbool : Val → Val
  | .bool b => .i64 (if b then 1 else 0)
  | v => v

/-- the generic `compare(a, b, opnd)` used by `Cmp` -/
def compareVals (o : Oracle) (a0 b0 : Val) (opnd : Int) : CmpRes :=
  let a := unbool a0
  let b := unbool b0
  let intLeft := fun (x : Int) =>
    match b with
    | .f64 y => ofOpt (cmpFloat o (o.i2f x) y opnd)
    | .i64 y => ofOpt (cmpInt x y opnd)
    | .int y => ofOpt (cmpInt x y opnd)
    | .str s => (match o.parseFloat s with
                 | some y => ofOpt (cmpFloat o 0 y opnd)      -- sic: the Go code compares lxF, which is 0 here
                 | none => .conv)
    | _ => .types
  match a with
  | .f64 x => compareF o x b opnd
  | .i64 x => intLeft x
  | .int x => intLeft x
  | .str s =>
    (match o.parseFloat s with
     | some x => compareF o x b opnd
     | none =>
       match b with
       | .str s2 => ofOpt (cmpStr s s2 opnd)
       | _ => .types)
  | _ => .types

/-! ### arithmetic -/

def binInt (op : Opcode) (a b : Int) (o : Oracle) : Except RtErr Int :=
  match op with
  | .iadd => .ok (wrap (a + b))
  | .isub => .ok (wrap (a - b))
  | .imul => .ok (wrap (a * b))
  | .idiv => if b = 0 then .error .divByZero else .ok (wrap (Int.tdiv a b))
  | .imod => if b = 0 then .error .divByZero else .ok (Int.tmod a b)
  | .ipow => .ok (o.f2i (o.fpow (o.i2f a) (o.i2f b)))
  | .shl => if b < 0 ∨ b ≥ 2147483647 then .error .shiftOutOfRange
            else .ok (if b ≥ 64 then 0 else wrap (a * 2 ^ b.toNat))
  | .shr => if b < 0 ∨ b ≥ 2147483647 then .error .shiftOutOfRange
            else .ok (if b ≥ 64 then (if a < 0 then -1 else 0) else a / 2 ^ b.toNat)
  | .and => .ok (BitVec.ofInt 64 a &&& BitVec.ofInt 64 b).toInt
  | .or => .ok (BitVec.ofInt 64 a ||| BitVec.ofInt 64 b).toInt
  | _ => .ok (BitVec.ofInt 64 a ^^^ BitVec.ofInt 64 b).toInt

def binFloat (o : Oracle) (op : Opcode) (a b : UInt64) : UInt64 :=
  match op with
  | .fadd => o.fadd a b | .fsub => o.fsub a b | .fmul => o.fmul a b
  | .fdiv => o.fdiv a b | .fmod => o.fmod a b | _ => o.fpow a b

/-! ### datum updates -/

/-- the zero datum of a metric's type (`GetDatum`'s switch; `MakeInt(0, zeroTime)` stamps with the
    wall clock, `MakeBuckets` leaves the time at 0) -/
def zeroDatum (mi : MetricInfo) : Datum :=
  match mi.typ with
  | 0 => ⟨.int 0, none⟩
  | 1 => ⟨.float 0, none⟩
  | 2 => ⟨.str [], none⟩
  | _ => ⟨.buckets (Buckets.make 0 mi.ranges), some 0⟩

/-- `BaseDatum.stamp` applied to the thread's time register -/
def stampOf (time : T) : Option Int := if time = zeroT then none else some (wrap time)

/-- order key of a float bit pattern (see Model/Buckets.lean) -/
def fvKey (b : UInt64) : Buckets.FV :=
  let n := b.toNat
  let mag := n % 9223372036854775808
  if mag > 9218868437227405312 then .nan
  else if n ≥ 9223372036854775808 then .num (-(mag : Int)) else .num (mag : Int)

/-- `Buckets.Observe` -/
def observeB (o : Oracle) (b : Buckets.B UInt64) (v : UInt64) : Buckets.B UInt64 :=
  { buckets := Buckets.bump (fvKey v) b.buckets, count := b.count + 1, sum := o.fadd b.sum v }

/-- `datum.SetInt` / `SetFloat` / `SetString` / `IncIntBy`: `none` = the Go code panics -/
def setIntD (o : Oracle) (d : Datum) (v : Int) (ts : Option Int) : Option Datum :=
  match d.val with
  | .int _ => some ⟨.int v, ts⟩
  | .buckets b => some ⟨.buckets (observeB o b (o.i2f v)), ts⟩
  | _ => none

def setFloatD (o : Oracle) (d : Datum) (v : UInt64) (ts : Option Int) : Option Datum :=
  match d.val with
  | .float _ => some ⟨.float v, ts⟩
  | .buckets b => some ⟨.buckets (observeB o b v), ts⟩
  | _ => none

def setStringD (d : Datum) (v : Bytes) (ts : Option Int) : Option Datum :=
  match d.val with
  | .str _ => some ⟨.str v, ts⟩
  | _ => none

def incIntD (d : Datum) (delta : Int) (ts : Option Int) : Option Datum :=
  match d.val with
  | .int x => some ⟨.int (wrap (x + delta)), ts⟩
  | _ => none

/-- pop a datum pointer and apply an update that may panic; the continuation sees the new datum -/
def writeDatum (t : Thread) (st : MStore) (stack : List Val) (f : Datum → Option Datum)
    (k : Thread → MStore → Datum → Res) : Res :=
  match stack with
  | [] => .fault .stackUnderflow st
  | .datum m lv :: rest =>
    (match getD st t.dead m lv with
     | some d =>
       (match f d with
        | some d' =>
          let r := updD st t.dead m lv (fun _ => d')
          k { t with stack := rest, dead := r.2 } r.1 d'
        | none => .fault .badOperandType st)
     | none => .fault .badOperandType st)
  | _ :: _ => .fault .badOperandType st

/-- does the top of the stack point at a histogram datum? -/
def isBucketsPtr (st : MStore) (dead : List (Nat × Metric.LV Datum)) : List Val → Bool
  | .datum m lv :: _ => (match getD st dead m lv with | some ⟨.buckets _, _⟩ => true | _ => false)
  | _ => false

/-- `Inc`/`Dec` push the new value (`datum.GetInt`) -/
def afterInc (t' : Thread) (st' : MStore) (d' : Datum) : Res :=
  match d'.val with
  | .int x => .next { t' with stack := .i64 x :: t'.stack } st'
  | _ => .fault .badOperandType st'

def incBy (t : Thread) (st : MStore) (d : Int) (rest : List Val) : Res :=
  writeDatum t st rest (fun x => incIntD x d (stampOf t.time)) afterInc

def lookupCaps (cs : List (Nat × Option (List Bytes))) (re : Nat) : Option (List Bytes) :=
  match cs with
  | [] => none
  | (r, v) :: rest => if r = re then v else lookupCaps rest re

def setCaps (cs : List (Nat × Option (List Bytes))) (re : Nat) (v : Option (List Bytes)) :
    List (Nat × Option (List Bytes)) := (re, v) :: cs

/-! ### the strptime memo (`groupcache/lru`, 64 entries) -/

def memoCap : Nat := 64

def memoGet (k : Bytes × Bytes) : Memo → Option T
  | [] => none
  | (k', v) :: rest => if k' = k then some v else memoGet k rest

def memoErase (k : Bytes × Bytes) : Memo → Memo
  | [] => []
  | (k', v) :: rest => if k' = k then rest else (k', v) :: memoErase k rest

/-- `Get` on a hit moves the entry to the front -/
def memoTouch (k : Bytes × Bytes) (v : T) (m : Memo) : Memo := (k, v) :: memoErase k m

/-- `Add`: to the front; beyond the capacity the oldest entry is dropped -/
def memoAdd (k : Bytes × Bytes) (v : T) (m : Memo) : Memo :=
  ((k, v) :: memoErase k m).take memoCap

/-! ### one instruction -/

def argInt (i : Instr) : Option Int := match i.arg with | .int n => some n | _ => none

/-- where a jump lands; a negative target crashes the fetch in `ProcessLogLine` -/
def jumpTo (t : Thread) (st : MStore) (stack : List Val) (i : Instr) : Res :=
  match argInt i with
  | some n => if n < 0 then .fault .badJump st else .next { t with pc := n.toNat, stack := stack } st
  | none => .fault .badOperand st

/-- `Strptime`: the only instruction that consults the memo -/
def stepStrptime (o : Oracle) (t : Thread) (st : MStore) (memo : Memo) : Res × Memo :=
  match popString o st t.dead t.stack with
  | .bad f => (.fault f st, memo)
  | .conv => (.err .convFailed st, memo)
  | .ok layout rest =>
    let withTs := fun (ts : Bytes) (rest' : List Val) =>
      match memoGet (layout, ts) memo with
      | some tm => (Res.next { t with stack := rest', time := tm } st, memoTouch (layout, ts) tm memo)
      | none =>
        match o.timeParse layout ts with
        | some tm => (Res.next { t with stack := rest', time := tm } st, memoAdd (layout, ts) tm memo)
        | none => (Res.err .timeParseFailed st, memo)
    -- the time string is popped like any string operand (`PopString`): an integer, float or
    -- boolean value is rendered as text first
    match popString o st t.dead rest with
    | .bad f => (.fault f st, memo)
    | .conv => (.err .convFailed st, memo)
    | .ok ts rest' => withTs ts rest'

/-- every instruction except `Strptime` (`pc` has already been advanced) -/
def stepCore (o : Oracle) (p : Prog) (inp : Input) (i : Instr) (t : Thread) (st : MStore) : Res :=
  let stack := t.stack
  let dead := t.dead
  let push := fun (v : Val) (rest : List Val) => Res.next { t with stack := v :: rest } st
  match i.op with
  | .bad => .fault .badInstr st
  | .strptime => .fault .badInstr st          -- handled by `stepStrptime`
  | .stop => .stop st
  | .match =>
    (match argInt i with
     | some n =>
       if n < 0 ∨ n.toNat ≥ p.nre then .fault .badIndex st
       else
         let r := o.reMatch n.toNat inp.line
         .next { t with caps := setCaps t.caps n.toNat r, stack := .bool r.isSome :: stack } st
     | none => .fault .badOperand st)
  | .smatch =>
    (match argInt i with
     | some n =>
       (popString o st dead stack).andThen st fun s rest =>
         if n < 0 ∨ n.toNat ≥ p.nre then .fault .badIndex st
         else
           let r := o.reMatch n.toNat s
           .next { t with caps := setCaps t.caps n.toNat r, stack := .bool r.isSome :: rest } st
     | none => .fault .badOperand st)
  | .cmp =>
    (match stack with
     | b :: a :: rest =>
       (match argInt i with
        | some n =>
          (match compareVals o a b n with
           | .ok r => push (.bool r) rest
           | .conv => .err .convFailed st
           | .types => .fault .cmpTypes st
           | .operand => .fault .badOperand st)
        | none => .fault .badOperand st)
     | _ => .fault .stackUnderflow st)
  | .icmp =>
    (popInt o st dead stack).andThen st fun b r1 =>
    (popInt o st dead r1).andThen st fun a r2 =>
      match (argInt i).bind (cmpInt a b) with
      | some r => push (.bool r) r2
      | none => .fault .badOperand st
  | .fcmp =>
    (popFloat o st dead stack).andThen st fun b r1 =>
    (popFloat o st dead r1).andThen st fun a r2 =>
      match (argInt i).bind (cmpFloat o a b) with
      | some r => push (.bool r) r2
      | none => .fault .badOperand st
  | .scmp =>
    (popString o st dead stack).andThen st fun b r1 =>
    (popString o st dead r1).andThen st fun a r2 =>
      match (argInt i).bind (cmpStr a b) with
      | some r => push (.bool r) r2
      | none => .fault .badOperand st
  | .jnm =>
    (match stack with
     | [] => .fault .stackUnderflow st
     | v :: rest =>
       let jump := match v with | .bool b => !b | .i64 n => n == 0 | .int n => n == 0 | _ => false
       if jump then jumpTo t st rest i else .next { t with stack := rest } st)
  | .jm =>
    (match stack with
     | [] => .fault .stackUnderflow st
     | v :: rest =>
       let jump := match v with | .bool b => b | .i64 n => n != 0 | .int n => n != 0 | _ => false
       if jump then jumpTo t st rest i else .next { t with stack := rest } st)
  | .jmp => jumpTo t st stack i
  | .inc | .dec =>
    let withDelta := fun (delta : Int) (rest : List Val) =>
      incBy t st (if i.op = .inc then delta else -delta) rest
    (match i.arg with
     | .none => withDelta 1 stack
     | _ => (popInt o st dead stack).andThen st withDelta)
  | .iset =>
    (popInt o st dead stack).andThen st fun v rest =>
      writeDatum t st rest (fun x => setIntD o x v (stampOf t.time)) fun t' st' _ => .next t' st'
  | .fset =>
    (popFloat o st dead stack).andThen st fun v rest =>
      writeDatum t st rest (fun x => setFloatD o x v (stampOf t.time)) fun t' st' _ => .next t' st'
  | .sset =>
    (popString o st dead stack).andThen st fun v rest =>
      -- a histogram observes the numeric value of the string
      if isBucketsPtr st dead rest then
        match o.parseFloat v with
        | some f => writeDatum t st rest (fun x => setFloatD o x f (stampOf t.time)) fun t' st' _ => .next t' st'
        | none => .err .convFailed st
      else
        writeDatum t st rest (fun x => setStringD x v (stampOf t.time)) fun t' st' _ => .next t' st'
  | .timestamp =>
    if t.time = zeroT then push (.i64 o.nowSec) stack else push (.i64 (t.time / 1000000000)) stack
  | .settime =>
    (popInt o st dead stack).andThen st fun n rest =>
      .next { t with stack := rest, time := n * 1000000000 } st
  | .push =>
    (match i.arg with
     | .none => push .nil stack
     | .int n => push (.int n) stack
     | .bool b => push (.bool b) stack
     | .i64 n => push (.i64 n) stack
     | .f64 b => push (.f64 b) stack
     | .dur n => push (.dur n) stack)
  | .capref =>
    (match stack with
     | [] => .fault .stackUnderflow st
     | .int re :: rest =>
       (match argInt i with
        | some g =>
          if re < 0 then .err .captureOfUnmatched st       -- a map lookup that misses
          else
            (match (lookupCaps t.caps re.toNat).getD [] with
             | groups =>
               if (groups.length : Int) ≤ g then .err .captureOfUnmatched st
               else if g < 0 then .fault .badIndex st
               else match groups[g.toNat]? with
                    | some s => push (.str s) rest
                    | none => .fault .badIndex st)
        | none => .fault .badOperand st)
     | _ :: _ => .fault .badOperandType st)
  | .str =>
    (match argInt i with
     | some n =>
       if n < 0 then .fault .badIndex st
       else (match p.strs[n.toNat]? with
             | some s => push (.str s) stack
             | none => .fault .badIndex st)
     | none => .fault .badOperand st)
  | .fadd | .fsub | .fmul | .fdiv | .fmod | .fpow =>
    (popFloat o st dead stack).andThen st fun b r1 =>
    (popFloat o st dead r1).andThen st fun a r2 =>
      push (.f64 (binFloat o i.op a b)) r2
  | .iadd | .isub | .imul | .idiv | .imod | .ipow | .shl | .shr | .and | .or | .xor =>
    (popInt o st dead stack).andThen st fun b r1 =>
    (popInt o st dead r1).andThen st fun a r2 =>
      match binInt i.op a b o with
      | .ok r => push (.i64 r) r2
      | .error e => .err e st
  | .neg =>
    (popInt o st dead stack).andThen st fun a rest => push (.i64 (-a - 1)) rest
  | .not =>
    (match stack with
     | [] => .fault .stackUnderflow st
     | .bool b :: rest => push (.bool (!b)) rest
     | _ :: _ => .fault .badOperandType st)
  | .mload =>
    (match argInt i with
     | some n =>
       if n < 0 ∨ n.toNat ≥ p.metrics.length then .fault .badIndex st
       else push (.metric n.toNat) stack
     | none => .fault .badOperand st)
  | .dload =>
    (match stack with
     | [] => .fault .stackUnderflow st
     | .metric m :: rest =>
       (match argInt i with
        | some n =>
          if n < 0 then .fault .badOperand st
          else
            (popKeys o st dead n.toNat rest []).andThen st fun keys rest' =>
              match st[m]?, p.metrics[m]? with
              | some mm, some mi =>
                (match Metric.getDatum mm (zeroDatum mi) keys with
                 | .ok (mm', id) => .next { t with stack := .datum m id :: rest' } (st.set m mm')
                 | .error _ => .err .arity st)
              | _, _ => .fault .badIndex st
        | none => .fault .badOperand st)
     | _ :: _ => .fault .badOperandType st)
  | .iget =>
    (match stack with
     | [] => .fault .stackUnderflow st
     | .datum m lv :: rest =>
       (match getD st dead m lv with
        | some ⟨.int x, _⟩ => push (.i64 x) rest
        | _ => .fault .badOperandType st)
     | _ :: _ => .fault .badOperandType st)
  | .fget =>
    (match stack with
     | [] => .fault .stackUnderflow st
     | .datum m lv :: rest =>
       (match getD st dead m lv with
        | some ⟨.float x, _⟩ => push (.f64 x) rest
        | _ => .fault .badOperandType st)
     | _ :: _ => .fault .badOperandType st)
  | .sget =>
    (match stack with
     | [] => .fault .stackUnderflow st
     | .datum m lv :: rest =>
       (match getD st dead m lv with
        | some ⟨.str x, _⟩ => push (.str x) rest
        | _ => .fault .badOperandType st)
     | _ :: _ => .fault .badOperandType st)
  | .del =>
    (match stack with
     | [] => .fault .stackUnderflow st
     | .metric m :: rest =>
       (match argInt i with
        | some n =>
          if n < 0 then .fault .badOperand st
          else
            (popKeys o st dead n.toNat rest []).andThen st fun keys rest' =>
              match st[m]? with
              | some mm =>
                (match Metric.removeDatum mm keys with
                 | .ok mm' =>
                   let gone := match Metric.find mm keys with
                               | some l => [(m, l)]
                               | none => []
                   .next { t with stack := rest', dead := gone ++ dead } (st.set m mm')
                 | .error _ => .err .arity st)
              | none => .fault .badIndex st
        | none => .fault .badOperand st)
     | _ :: _ => .fault .badOperandType st)
  | .expire =>
    (match stack with
     | [] => .fault .stackUnderflow st
     | .metric m :: rest =>
       (match argInt i with
        | some n =>
          if n < 0 then .fault .badOperand st
          else
            (popKeys o st dead n.toNat rest []).andThen st fun keys rest' =>
              match rest' with
              | [] => .fault .stackUnderflow st
              | .dur e :: rest'' =>
                (match st[m]? with
                 | some mm =>
                   (match Metric.expireDatum mm e keys with
                    | .ok mm' => .next { t with stack := rest'' } (st.set m mm')
                    | .error .arity => .err .arity st
                    | .error .noDatum => .err .expireMissingDatum st)
                 | none => .fault .badIndex st)
              | _ :: _ => .fault .badOperandType st
        | none => .fault .badOperand st)
     | _ :: _ => .fault .badOperandType st)
  | .tolower =>
    (popString o st dead stack).andThen st fun s rest => push (.str (o.toLower s)) rest
  | .length =>
    (popString o st dead stack).andThen st fun s rest => push (.int s.length) rest
  | .s2i =>
    let conv := fun (base : Int) (stk : List Val) =>
      (popString o st dead stk).andThen st fun s rest =>
        match o.parseInt s base with
        | some n => push (.i64 n) rest
        | none => .err .convFailed st
    (match i.arg with
     | .none => conv 10 stack
     | _ =>
       (popInt o st dead stack).andThen st fun b rest =>
         if b ≤ 0 ∨ b ≥ 2147483647 then .err .baseOutOfRange st else conv b rest)
  | .s2f =>
    (popString o st dead stack).andThen st fun s rest =>
      match o.parseFloat s with
      | some b => push (.f64 b) rest
      | none => .err .convFailed st
  | .i2f => (popInt o st dead stack).andThen st fun n rest => push (.f64 (o.i2f n)) rest
  | .i2s => (popInt o st dead stack).andThen st fun n rest => push (.str (itoa n)) rest
  | .f2s => (popFloat o st dead stack).andThen st fun b rest => push (.str (o.fmtg b)) rest
  | .setmatched =>
    (match i.arg with
     | .bool b => .next { t with matched := b } st
     | _ => .fault .badOperand st)
  | .otherwise => push (.bool (!t.matched)) stack
  | .getfilename => push (.str inp.filename) stack
  | .cat =>
    (popString o st dead stack).andThen st fun b r1 =>
    (popString o st dead r1).andThen st fun a r2 => push (.str (a ++ b)) r2
  | .subst =>
    (popString o st dead stack).andThen st fun v r1 =>
    (popString o st dead r1).andThen st fun repl r2 =>
    (popString o st dead r2).andThen st fun old r3 => push (.str (o.replaceAll v old repl)) r3
  | .rsubst =>
    (popInt o st dead stack).andThen st fun pat r1 =>
    (popString o st dead r1).andThen st fun v r2 =>
    (popString o st dead r2).andThen st fun repl r3 =>
      if pat < 0 ∨ pat.toNat ≥ p.nre then .fault .badIndex st
      else push (.str (o.reReplace pat.toNat v repl)) r3

/-- one fetch-execute cycle body: `pc` is advanced, then the instruction runs -/
def step (o : Oracle) (p : Prog) (inp : Input) (i : Instr) (t : Thread) (st : MStore) (memo : Memo) :
    Res × Memo :=
  let t1 := { t with pc := t.pc + 1 }
  if i.op = .strptime then stepStrptime o t1 st memo
  else (stepCore o p inp i t1 st, memo)

/-- how a line ends -/
inductive Outcome
  | done | stopped | err (e : RtErr) | fault (f : Fault) | fuel
deriving DecidableEq, Repr

structure LineResult where
  out : Outcome
  store : MStore
  memo : Memo

/-- `ProcessLogLine`'s loop (fuel bounds the number of instructions; programs whose jumps all go
    forward need at most `code.length` of it) -/
def run (o : Oracle) (p : Prog) (inp : Input) : Nat → Thread → MStore → Memo → LineResult
  | 0, _, st, memo => ⟨.fuel, st, memo⟩
  | fuel+1, t, st, memo =>
    match p.code[t.pc]? with
    | none => ⟨.done, st, memo⟩
    | some i =>
      match step o p inp i t st memo with
      | (.next t' st', memo') => run o p inp fuel t' st' memo'
      | (.stop st', memo') => ⟨.stopped, st', memo'⟩
      | (.err e st', memo') => ⟨.err e, st', memo'⟩
      | (.fault f st', memo') => ⟨.fault f, st', memo'⟩

/-- a fresh thread per line -/
def runLine (o : Oracle) (p : Prog) (fuel : Nat) (inp : Input) (st : MStore) (memo : Memo) : LineResult :=
  run o p inp fuel {} st memo

end MtailVerif.VM
