/-! Byte strings and the line-protocol helpers shared by every model.
    Go strings are byte sequences; all models use `List UInt8`. Core Lean only. -/
namespace MtailVerif

abbrev Bytes := List UInt8

namespace Hex

def digit (n : Nat) : Char :=
  if n < 10 then Char.ofNat (48 + n) else Char.ofNat (87 + n)

def ofByte (b : UInt8) : String :=
  String.ofList [digit (b.toNat / 16), digit (b.toNat % 16)]

/-- hex of a byte string; the empty string is written `-` so that fields never vanish -/
def encode (b : Bytes) : String :=
  if b.isEmpty then "-" else String.join (b.map ofByte)

def val (c : Char) : Option Nat :=
  if '0' ≤ c ∧ c ≤ '9' then some (c.toNat - 48)
  else if 'a' ≤ c ∧ c ≤ 'f' then some (c.toNat - 87)
  else none

def decodeChars : List Char → Option Bytes
  | [] => some []
  | [_] => none
  | a :: b :: rest => do
    let x ← val a
    let y ← val b
    let r ← decodeChars rest
    pure (UInt8.ofNat (x * 16 + y) :: r)

def decode (s : String) : Option Bytes :=
  if s = "-" then some [] else decodeChars s.toList

end Hex

/-- split on single spaces, dropping empty fields -/
def fields (s : String) : List String :=
  (s.splitOn " ").filter (· ≠ "")

end MtailVerif
