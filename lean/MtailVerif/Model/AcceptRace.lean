/-! Model of the shutdown protocol of the stream-socket source
    (internal/tailer/logstream/socketstream.go, `socketStream.stream` and `handleConn`): an accept
    loop, any number of connection handlers, and the closer, which on cancellation closes the
    listener, waits for the handlers' wait group and then closes the lines channel.  The one
    parameter is *when* the accept loop counts a connection: before it calls `Accept` (the source
    since 5065e9bc) or after `Accept` has returned (before). -/
namespace MtailVerif.AcceptRace

inductive APc | top | inAccept | accepted | done
deriving DecidableEq, Repr
inductive CPc | waiting | listenerClosed | linesClosed
deriving DecidableEq, Repr

structure S where
  listening : Bool := true
  cancelled : Bool := false
  count : Nat := 0             -- connWg
  apc : APc := .top
  cpc : CPc := .waiting
  handlers : Nat := 0          -- running handlers; each holds one count
  bad : Bool := false          -- a handler sent on the closed lines channel
deriving DecidableEq, Repr

inductive Act
  | cancel                     -- ctx is cancelled
  | closeListener              -- closer: l.Close()
  | closeLines                 -- closer: connWg.Wait() returned; close(ss.lines)
  | loopAdd                    -- accept loop: connWg.Add(1)
  | acceptOk                   -- Accept returns a connection (a client was waiting)
  | acceptFail                 -- Accept returns an error (the listener is closed)
  | spawn                      -- go handleConn(...)
  | send                       -- a handler sends a line
  | finish                     -- a handler returns: wg.Done()
deriving DecidableEq, Repr

/-- one step; `none` when the action is not enabled -/
def step (addFirst : Bool) (s : S) : Act → Option S
  | .cancel => some { s with cancelled := true }
  | .closeListener =>
    if s.cancelled ∧ s.cpc = .waiting then some { s with listening := false, cpc := .listenerClosed } else none
  | .closeLines =>
    if s.cpc = .listenerClosed ∧ s.count = 0 then some { s with cpc := .linesClosed } else none
  | .loopAdd =>
    if addFirst then
      (if s.apc = .top then some { s with count := s.count + 1, apc := .inAccept } else none)
    else
      (if s.apc = .accepted then some { s with count := s.count + 1, apc := .inAccept } else none)
  | .acceptOk =>
    if addFirst then
      (if s.apc = .inAccept ∧ s.listening then some { s with apc := .accepted } else none)
    else
      (if s.apc = .top ∧ s.listening then some { s with apc := .accepted } else none)
  | .acceptFail =>
    if addFirst then
      (if s.apc = .inAccept ∧ ¬ s.listening then some { s with count := s.count - 1, apc := .done } else none)
    else
      (if s.apc = .top ∧ ¬ s.listening then some { s with apc := .done } else none)
  | .spawn =>
    if addFirst then
      (if s.apc = .accepted then some { s with handlers := s.handlers + 1, apc := .top } else none)
    else
      (if s.apc = .inAccept then some { s with handlers := s.handlers + 1, apc := .top } else none)
  | .send =>
    if s.handlers > 0 then some { s with bad := s.bad || (s.cpc == .linesClosed) } else none
  | .finish =>
    if s.handlers > 0 then some { s with handlers := s.handlers - 1, count := s.count - 1 } else none

def run (addFirst : Bool) (s : S) : List Act → Option S
  | [] => some s
  | a :: rest => (step addFirst s a).bind (fun s' => run addFirst s' rest)

end MtailVerif.AcceptRace
