import MtailVerif.Model.Unparse
/-! The expression grammar of parser.y (logical > bitwise > relational > shift > additive >
    multiplicative > unary > postOps > primary, every binary level left associative) as a
    recursive-descent parser over tokens, and the token stream the formatter writes for an
    expression (the parenthesisation rule of unparser.go).  `Proofs/ExprGrammar.lean` proves that
    parsing what the formatter writes gives the expression back. -/
namespace MtailVerif.Grammar
open MtailVerif MtailVerif.Ast MtailVerif.Unparse

inductive Tok
  | lp | rp | lsq | rsq | comma
  | op (o : Op)
  | int (i : Int) | float (b : UInt64) | str (t : Bytes)
  | cap (n : String) (named : Bool) | id (n : String) | bi (n : String)
deriving DecidableEq, Repr

/-- the level of a binary operator: 1 logical … 6 multiplicative -/
def binLevel : Op → Option Nat
  | .and | .or => some 1
  | .bitand | .bitor | .xor => some 2
  | .lt | .gt | .le | .ge | .eq | .ne => some 3
  | .shl | .shr => some 4
  | .plus | .minus => some 5
  | .mul | .div | .mod | .pow => some 6
  | _ => none

def dp : Pos := ⟨0, 0, 0⟩

/-- the lexer's token name of an operator (tokens.go / parser.y) -/
def opTokenName : Op → String
  | .inc => "INC" | .dec => "DEC" | .div => "DIV" | .mod => "MOD" | .mul => "MUL"
  | .minus => "MINUS" | .plus => "PLUS" | .pow => "POW" | .shl => "SHL" | .shr => "SHR"
  | .lt => "LT" | .gt => "GT" | .le => "LE" | .ge => "GE" | .eq => "EQ" | .ne => "NE"
  | .bitand => "BITAND" | .xor => "XOR" | .bitor => "BITOR" | .not => "NOT" | .and => "AND" | .or => "OR"
  | .addAssign => "ADD_ASSIGN" | .assign => "ASSIGN" | .match => "MATCH" | .notMatch => "NOT_MATCH"

/-- postfix operators after a primary expression -/
def postOps : Node → List Tok → Node × List Tok
  | e, .op .inc :: r => postOps (.un .inc e dp .unk) r
  | e, .op .dec :: r => postOps (.un .dec e dp .unk) r
  | e, r => (e, r)

mutual
/-- `parseAt fuel level tokens`: levels 1–6 are the binary levels, 7 unary, 8 postOps, 9 primary -/
def parseAt : Nat → Nat → List Tok → Option (Node × List Tok)
  | 0, _, _ => none
  | f+1, l, ts =>
    if l ≤ 6 then
      match parseAt f (l + 1) ts with
      | some (lhs, rest) => chain f l lhs rest
      | none => none
    else if l = 7 then
      match ts with
      | .op .not :: rest =>
        (match parseAt f 7 rest with
         | some (e, r) => some (.un .not e dp .unk, r)
         | none => none)
      | _ => parseAt f 8 ts
    else if l = 8 then
      match parseAt f 9 ts with
      | some (e, rest) => some (postOps e rest)
      | none => none
    else
      match ts with
      | .int i :: r => some (.int i dp, r)
      | .float b :: r => some (.float b dp, r)
      | .str t :: r => some (.str t dp, r)
      | .cap n nd :: r => some (.cap n nd dp .unk, r)
      | .id n :: .lsq :: r =>
        (match parseArgs f r with
         | some (as, .rsq :: r') => some (.idx (.id n dp .unk) (.exprs as) .unk, r')
         | _ => none)
      | .id n :: r => some (.idx (.id n dp .unk) (.exprs .nil) .unk, r)
      | .bi n :: .lp :: .rp :: r => some (.builtin n .nil dp .unk, r)
      | .bi n :: .lp :: r =>
        (match parseArgs f r with
         | some (as, .rp :: r') => some (.builtin n (.exprs as) dp .unk, r')
         | _ => none)
      | .lp :: r =>
        (match parseAt f 1 r with
         | some (e, .rp :: r') => some (e, r')
         | _ => none)
      | _ => none
/-- the left-associative loop of a binary level -/
def chain : Nat → Nat → Node → List Tok → Option (Node × List Tok)
  | 0, _, _, _ => none
  | f+1, l, lhs, .op o :: rest =>
    if binLevel o = some l then
      match parseAt f (l + 1) rest with
      | some (rhs, rest') => chain f l (.bin o lhs rhs .unk) rest'
      | none => none
    else some (lhs, .op o :: rest)
  | _+1, _, lhs, ts => some (lhs, ts)
/-- a non-empty comma-separated argument list -/
def parseArgs : Nat → List Tok → Option (Nodes × List Tok)
  | 0, _ => none
  | f+1, ts =>
    match parseAt f 1 ts with
    | some (a, .comma :: rest) =>
      (match parseArgs f rest with
       | some (as, r) => some (.cons a as, r)
       | none => none)
    | some (a, rest) => some (.cons a .nil, rest)
    | none => none
end

/-! ### what the formatter writes -/

def parens (b : Bool) (ts : List Tok) : List Tok := if b then .lp :: ts ++ [.rp] else ts

mutual
def toks : Node → List Tok
  | .int i _ => [.int i]
  | .float b _ => [.float b]
  | .str t _ => [.str t]
  | .cap n nd _ _ => [.cap n nd]
  | .idx (.id n _ _) (.exprs .nil) _ => [.id n]
  | .idx (.id n _ _) (.exprs as) _ => .id n :: .lsq :: toksArgs as ++ [.rsq]
  | .builtin n .nil _ _ => [.bi n, .lp, .rp]
  | .builtin n (.exprs as) _ _ => .bi n :: .lp :: toksArgs as ++ [.rp]
  | .bin op l r _ => parens (lhsNeedsParens op l) (toks l) ++ .op op :: parens (rhsNeedsParens op r) (toks r)
  | .un .not e _ _ => .op .not :: parens (precedence e < precUnary) (toks e)
  | .un .inc e _ _ => parens (precedence e < precPostfix) (toks e) ++ [.op .inc]
  | .un .dec e _ _ => parens (precedence e < precPostfix) (toks e) ++ [.op .dec]
  | _ => []
def toksArgs : Nodes → List Tok
  | .nil => []
  | .cons a .nil => toks a
  | .cons a as => toks a ++ .comma :: toksArgs as
end

/-! ### the expressions the theorem is about: what the parser builds from this token language,
    positions and types forgotten -/

mutual
def wf : Node → Bool
  | .int _ p => p == dp
  | .float _ p => p == dp
  | .str _ p => p == dp
  | .cap _ _ p ty => p == dp && ty == .unk
  | .idx (.id _ p ty) (.exprs as) ty2 => p == dp && ty == .unk && ty2 == .unk && wfArgs as
  | .builtin _ .nil p ty => p == dp && ty == .unk
  | .builtin _ (.exprs (.cons a as)) p ty => p == dp && ty == .unk && wf a && wfArgs as
  | .bin op l r ty => (binLevel op).isSome && ty == .unk && wf l && wf r
  | .un .not e p ty => p == dp && ty == .unk && wf e
  | .un .inc e p ty => p == dp && ty == .unk && wf e
  | .un .dec e p ty => p == dp && ty == .unk && wf e
  | _ => false
def wfArgs : Nodes → Bool
  | .nil => true
  | .cons a as => wf a && wfArgs as
end


/-- `expr : assign_expr | postfix_expr`, `assign_expr : unary_expr (ASSIGN | ADD_ASSIGN) logical_expr` -/
def parseExprStmt (f : Nat) (ts : List Tok) : Option (Node × List Tok) :=
  match parseAt f 7 ts with
  | some (lhs, .op .assign :: rest) =>
    (match parseAt f 1 rest with
     | some (rhs, r) => some (.bin .assign lhs rhs .unk, r)
     | none => none)
  | some (lhs, .op .addAssign :: rest) =>
    (match parseAt f 1 rest with
     | some (rhs, r) => some (.bin .addAssign lhs rhs .unk, r)
     | none => none)
  | some (e, rest) => some (e, rest)
  | none => none

/-- what the formatter writes for an assignment -/
def toksAssign (op : Op) (l r : Node) : List Tok :=
  parens (lhsNeedsParens op l) (toks l) ++ .op op :: parens (rhsNeedsParens op r) (toks r)


/-- forget positions and types -/
def eraseNode : Node → Node
  | .int i _ => .int i dp
  | .float b _ => .float b dp
  | .str t _ => .str t dp
  | .cap n nd _ _ => .cap n nd dp .unk
  | .id n _ _ => .id n dp .unk
  | .idx l i _ => .idx (eraseNode l) (eraseNode i) .unk
  | .exprs cs => .exprs (eraseNodes cs)
  | .builtin n a _ _ => .builtin n (eraseNode a) dp .unk
  | .bin op l r _ => .bin op (eraseNode l) (eraseNode r) .unk
  | .un op e _ _ => .un op (eraseNode e) dp .unk
  | n => n
where eraseNodes : Nodes → Nodes
  | .nil => .nil
  | .cons a as => .cons (eraseNode a) (eraseNodes as)

end MtailVerif.Grammar
