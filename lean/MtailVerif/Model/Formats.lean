import MtailVerif.Model.Bytes
/-! Model of the text export formats (internal/exporter/{export,graphite,statsd,collectd,varz}.go).

    Number formatting (`%d`, `%g`, `%v`) is an oracle: a datum carries the strings Go's fmt
    produces for its value; the model decides *which* datum's strings go *where*. -/
namespace MtailVerif.Formats
open MtailVerif

/-- ASCII string literal as bytes (kernel-reducible) -/
def str (s : String) : Bytes := s.toList.map (fun c => c.toNat.toUInt8)

structure FDatum where
  valueStr : Bytes                          -- Datum.ValueString()
  timeStr : Bytes                           -- Datum.TimeString(): seconds since the epoch
  /-- Buckets data: GetCount() and (bin name, count) per bucket (bin name = `%v` of Max, or "inf") -/
  hist : Option (Bytes × List (Bytes × Bytes)) := none
deriving Repr, DecidableEq

structure FLabelSet where
  labels : List (Bytes × Bytes)             -- the LabelSet.Labels map (distinct keys)
  datum : FDatum
deriving Repr, DecidableEq

structure FMetric where
  name : Bytes
  prog : Bytes
  kind : Nat                                 -- 1 counter 2 gauge 3 timer 4 text 5 histogram
  histBuckets : Bool                         -- Kind == Histogram && Type == Buckets
  lsets : List FLabelSet
deriving Repr, DecidableEq

/-- byte-wise lexicographic order (Go's string `<`) -/
def bytesLt : Bytes → Bytes → Bool
  | [], [] => false
  | [], _ :: _ => true
  | _ :: _, [] => false
  | a :: as, b :: bs => if a < b then true else if b < a then false else bytesLt as bs

def insertSorted (p : Bytes × Bytes) : List (Bytes × Bytes) → List (Bytes × Bytes)
  | [] => [p]
  | q :: rest => if bytesLt q.1 p.1 then q :: insertSorted p rest else p :: q :: rest

def sortByKey (l : List (Bytes × Bytes)) : List (Bytes × Bytes) := l.foldr insertSorted []

/-- `strings.ReplaceAll(s, old, new)` for a one-byte `old` -/
def replace1 (old : UInt8) (new : Bytes) (s : Bytes) : Bytes :=
  s.flatMap (fun b => if b = old then new else [b])

def intercalate (sep : Bytes) : List Bytes → Bytes
  | [] => []
  | [x] => x
  | x :: rest => x ++ sep ++ intercalate sep rest

/-- `formatLabels(name, m, ksep, sep, rep)` with one-byte separators -/
def formatLabels (name : Bytes) (m : List (Bytes × Bytes)) (ksep sep : UInt8) (rep : Bytes) : Bytes :=
  if m.isEmpty then name else
    let parts := (sortByKey m).map (fun kv =>
      replace1 sep rep (replace1 ksep rep kv.1) ++ [ksep] ++ replace1 sep rep (replace1 ksep rep kv.2))
    name ++ [sep] ++ intercalate [sep] parts

def dot : UInt8 := 46
def dash : UInt8 := 45
def us : Bytes := [95]

/-- `metricToGraphite`: for a histogram one line per bucket, a count line, then the value line;
    every number comes from the label set's own datum -/
def graphiteLines (prefix_ : Bytes) (m : FMetric) (l : FLabelSet) : List Bytes :=
  let path := prefix_ ++ m.prog ++ [dot] ++ formatLabels m.name l.labels dot dot us
  let hist : List Bytes :=
    if m.histBuckets then
      match l.datum.hist with
      | some (count, bins) =>
        bins.map (fun b => path ++ str ".bin_" ++ b.1 ++ [32] ++ b.2 ++ [32] ++ l.datum.timeStr ++ [10]) ++
        [path ++ str ".count " ++ count ++ [32] ++ l.datum.timeStr ++ [10]]
      | none => []
    else []
  hist ++ [path ++ [32] ++ l.datum.valueStr ++ [32] ++ l.datum.timeStr ++ [10]]

def statsdType : Nat → Bytes
  | 1 => str "c" | 2 => str "g" | 3 => str "ms" | _ => []

/-- `metricToStatsd` -/
def statsdRecord (prefix_ : Bytes) (m : FMetric) (l : FLabelSet) : Bytes :=
  prefix_ ++ m.prog ++ [dot] ++ formatLabels m.name l.labels dot dot us ++ str ":" ++ l.datum.valueStr ++
    str "|" ++ statsdType m.kind

/-- `kindToCollectdType` -/
def collectdType : Nat → Bytes
  | 1 => str "counter" | 2 => str "gauge" | 3 => str "gauge" | 4 => str "text" | 5 => str "histogram"
  | _ => str "unknown"

/-- `metricToCollectd` -/
def collectdRecord (host prefix_ interval : Bytes) (m : FMetric) (l : FLabelSet) : Bytes :=
  str "PUTVAL \"" ++ host ++ str "/" ++ prefix_ ++ str "mtail-" ++ m.prog ++ str "/" ++ collectdType m.kind ++
    str "-" ++ formatLabels m.name l.labels dash dash us ++ str "\" interval=" ++ interval ++ str " " ++
    l.datum.timeStr ++ str ":" ++ l.datum.valueStr ++ [10]

/-- `metricToVarz` -/
def varzRecord (host : Bytes) (omitProg : Bool) (m : FMetric) (l : FLabelSet) : Bytes :=
  let kvs := (sortByKey (l.labels.map (fun kv => (kv.1 ++ str "=" ++ kv.2, [])))).map (·.1)
  let all := kvs ++ (if omitProg then [] else [str "prog=" ++ m.prog]) ++ [str "instance=" ++ host]
  m.name ++ str "{" ++ intercalate (str ",") all ++ str "} " ++ l.datum.valueStr ++ [10]

/-- the push loop (`writeSocketMetrics`): text metrics are skipped, every label set of every other
    metric yields one call of the formatter -/
def pushAll (f : FMetric → FLabelSet → List Bytes) (ms : List FMetric) : List Bytes :=
  ms.flatMap (fun m => if m.kind = 4 then [] else m.lsets.flatMap (f m))

/-- the handler loops (`HandleVarz`, `HandleGraphite`): every metric -/
def handleAll (f : FMetric → FLabelSet → List Bytes) (ms : List FMetric) : List Bytes :=
  ms.flatMap (fun m => m.lsets.flatMap (f m))

end MtailVerif.Formats
