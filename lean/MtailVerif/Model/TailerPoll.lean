import MtailVerif.Model.Bytes
/-! Model of the tailer's pattern polling (internal/tailer/tail.go: `pollLogPattern`,
    `doPatternGlob`, `Ignore`, `TailPath`) together with the end of a file stream whose path
    disappears.  Glob matching and the ignore test are parameters (`Cfg.globMatch`, `Cfg.ignore`);
    the executable driver instantiates them with a `*`/`?` matcher and a suffix test, which the
    correspondence checks against `filepath.Glob` and the compiled regexp. -/
namespace MtailVerif.TailerPoll
open MtailVerif

/-- `device`, `socket`: things that are neither a regular file nor a directory.  `Ignore` lets them
    through, `TailPath` fails on them (`logstream.New` takes regular files and pipes only) and
    `doPatternGlob` goes on to the next match: no stream is ever *started* on one.  A stream that is
    already tailing the path when such a thing takes the log's place follows it if it can be opened
    (a device: a symlink to /dev/null, say) and ends if it cannot (a socket file) -/
inductive Kind | file | dir | device | socket
deriving DecidableEq, Repr

/-- can a stream that finds this at its path go on (re-open it)? -/
def Kind.reopens : Kind → Bool
  | .file => true
  | .device => true
  | _ => false

structure T where
  nodes : List (Bytes × Kind) := []      -- existing absolute paths
  streams : List Bytes := []             -- `Tailer.logstreams`: paths with a live stream
  delivered : List (Bytes × Bytes) := [] -- (path, line) in delivery order
  /-- tailed paths at which a *new* file has appeared since the stream last looked (created or
      renamed there while the stream still holds the previous file): what is appended to it is
      seen only when the stream next wakes, and only if the file is still at the path then -/
  fresh : List Bytes := []
  pending : List (Bytes × Bytes) := []   -- lines appended to such files, not yet seen
deriving Repr

structure Cfg where
  patterns : List Bytes
  globMatch : Bytes → Bytes → Bool        -- pattern, path (filepath.Glob restricted to one path)
  ignore : Bytes → Bool                   -- the ignore regexp applied to the base name

inductive Op
  | createFile (p : Bytes)
  | mkdir (p : Bytes)
  | createOther (p : Bytes) (k : Kind)
  | remove (p : Bytes)
  | rename (p q : Bytes)
  | appendLine (p l : Bytes)
  | poll
  | patternPoll      -- the pattern pollers run, the streams have not woken yet
deriving Repr

def kindOf (t : T) (p : Bytes) : Option Kind := (t.nodes.find? (·.1 = p)).map (·.2)

def baseName (p : Bytes) : Bytes := (p.reverse.takeWhile (· ≠ 47)).reverse

/-- is the path, right now, something the tailer would start a stream for? -/
def eligible (cfg : Cfg) (t : T) (p : Bytes) : Bool :=
  kindOf t p = some .file && !cfg.ignore (baseName p) && cfg.patterns.any (fun pat => cfg.globMatch pat p)

/-- `TailPath`: one stream per path -/
def tailPath (t : T) (p : Bytes) : T :=
  if t.streams.contains p then t else { t with streams := t.streams ++ [p] }

/-- `doPatternGlob` for one pattern: every match that is not ignored is handed to `TailPath` -/
def globOne (cfg : Cfg) (t : T) (pat : Bytes) : T :=
  (t.nodes.map (·.1)).foldl (fun t p =>
    if cfg.globMatch pat p && kindOf t p = some .file && !cfg.ignore (baseName p) then tailPath t p else t) t

/-- a woken stream whose path no longer names a file ends and is dropped from the map; one whose
    path names a new file reopens it and reads it from the start -/
def streamWake (t : T) : T :=
  { t with streams := t.streams.filter (fun p => ((kindOf t p).map Kind.reopens).getD false),
           delivered := t.delivered ++ t.pending.filter (fun d => kindOf t d.1 = some .file && t.streams.contains d.1),
           pending := [], fresh := [] }

def poll (cfg : Cfg) (t : T) : T :=
  cfg.patterns.foldl (globOne cfg) (streamWake t)

def step (cfg : Cfg) (t : T) : Op → T
  | .createFile p =>
    if (kindOf t p).isSome then t
    else { t with nodes := t.nodes ++ [(p, .file)], fresh := if t.streams.contains p then p :: t.fresh else t.fresh }
  | .mkdir p => if (kindOf t p).isSome then t else { t with nodes := t.nodes ++ [(p, .dir)] }
  | .createOther p k => if (kindOf t p).isSome then t else { t with nodes := t.nodes ++ [(p, k)] }
  | .remove p => { t with nodes := t.nodes.filter (·.1 ≠ p), pending := t.pending.filter (·.1 ≠ p) }
  | .rename p q =>
    match kindOf t p, kindOf t q with
    | some k, none =>
      { t with nodes := t.nodes.filter (·.1 ≠ p) ++ [(q, k)], pending := t.pending.filter (·.1 ≠ p),
               fresh := if t.streams.contains q then q :: t.fresh else t.fresh }
    | _, _ => t
  | .appendLine p l =>
    if kindOf t p = some .file ∧ t.streams.contains p then
      if t.fresh.contains p then { t with pending := t.pending ++ [(p, l)] }
      else { t with delivered := t.delivered ++ [(p, l)] }
    else t
  | .poll => poll cfg t
  | .patternPoll => cfg.patterns.foldl (globOne cfg) t

def run (cfg : Cfg) (t : T) (ops : List Op) : T := ops.foldl (step cfg) t

end MtailVerif.TailerPoll
