import MtailVerif.Model.Bytes
import MtailVerif.Generated.Reader
/-! Model of `logstream.LineReader` (internal/tailer/logstream/reader.go).

    State = the Go fields `buf` and `off`.  One `Read` call that returned `count > 0` bytes is
    `readAndSend chunk`; `send` keeps the Go code's *absolute index* test
    `end > 0 && buf[end-1] == '\r'` exactly as written.  Constants (`'\n'`, `'\r'`, the two
    skip widths) are regenerated from the source.  The Go slice's capacity management is not
    modelled (content-level model); the harness exercises it with tiny buffer sizes. -/
namespace MtailVerif.Reader
open MtailVerif

def nl : UInt8 := Generated.Reader.delim
def cr : UInt8 := Generated.Reader.crByte

structure LR where
  buf : Bytes
  off : Nat
deriving Repr

/-- `bytes.IndexByte(s, '\n')` -/
def idxNl : Bytes → Option Nat
  | [] => none
  | c :: cs => if c = nl then some 0 else (idxNl cs).map (· + 1)

/-- one `send`: the delivered line and the new state, or `none` when there is no newline -/
def send (lr : LR) : Option (Bytes × LR) :=
  match idxNl (lr.buf.drop lr.off) with
  | none => none
  | some i =>
    let e := lr.off + i
    if e > 0 ∧ lr.buf[e-1]? = some cr then
      some ((lr.buf.take (e - Generated.Reader.endDecCR)).drop lr.off,
            { lr with off := e - Generated.Reader.endDecCR + Generated.Reader.skipCR })
    else
      some ((lr.buf.take e).drop lr.off, { lr with off := e + Generated.Reader.skipPlain })

/-- `for ok { ok = lr.send() }` with fuel -/
def sendAll : Nat → LR → List Bytes × LR
  | 0, lr => ([], lr)
  | n+1, lr => match send lr with
    | none => ([], lr)
    | some (l, lr') => let r := sendAll n lr'; (l :: r.1, r.2)

/-- `ReadAndSend` for a read that returned `chunk` (`count = chunk.length`) -/
def readAndSend (lr : LR) (chunk : Bytes) : List Bytes × LR :=
  if chunk.isEmpty then ([], lr) else
  let lr1 : LR := { lr with buf := lr.buf ++ chunk }
  let r := sendAll (lr1.buf.length + 1) lr1
  (r.1, { buf := r.2.buf.drop r.2.off, off := 0 })

/-- `Finish` -/
def finish (lr : LR) : List Bytes :=
  let line := lr.buf.drop lr.off
  if line.isEmpty && Generated.Reader.finishSkipsEmpty then [] else [line]

def init : LR := { buf := [], off := 0 }

/-- all reads of a source, in order -/
def run : LR → List Bytes → List Bytes × LR
  | lr, [] => ([], lr)
  | lr, c :: cs =>
    let r := readAndSend lr c
    let r2 := run r.2 cs
    (r.1 ++ r2.1, r2.2)

/-- everything delivered for a source that ends after these reads -/
def delivered (chunks : List Bytes) : List Bytes :=
  let r := run init chunks
  r.1 ++ finish r.2

/-! ### specification: split at newlines, strip one trailing CR -/

def stripCR (l : Bytes) : Bytes := if l.getLast? = some cr then l.dropLast else l

/-- `cur` is the partial line accumulated so far -/
def spec (cur : Bytes) : Bytes → List Bytes × Bytes
  | [] => ([], cur)
  | c :: cs =>
    if c = nl then ((stripCR cur) :: (spec [] cs).1, (spec [] cs).2)
    else spec (cur ++ [c]) cs

/-- the lines the property prescribes for a whole stream that has ended -/
def specLines (stream : Bytes) : List Bytes :=
  let r := spec [] stream
  r.1 ++ (if r.2.isEmpty then [] else [r.2])

end MtailVerif.Reader
