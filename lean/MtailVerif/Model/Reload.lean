import MtailVerif.Generated.Reload
/-! Transition system of one program's line delivery across reloads (internal/runtime/runtime.go):
    the fan-out loop takes a line from the tailer and hands it, under the handle read lock, to the
    program's current VM over an unbuffered channel; a VM holds one line at a time (`VM.Run`);
    `CompileAndRun` takes the write lock, closes the previous VM's channel — and, when
    `wait` is set (regenerated: `<-handle.done` after the close), blocks until that VM has finished
    the line it holds — then installs a new VM.  Every interleaving the Go scheduler can produce is
    a sequence of these actions. -/
namespace MtailVerif.Reload

structure VM where
  inst : Nat
  cur : Option Nat := none      -- the line received and not yet finished
deriving DecidableEq, Repr

structure St where
  vms : List VM := []           -- every VM instance started, newest first; the head is the handle
  swapping : Bool := false      -- CompileAndRun holds the write lock (old channel closed)
  pending : Option Nat := none  -- line taken by the fan-out, not yet handed to a VM
  taken : List Nat := []        -- lines taken from the tailer, in arrival order
  started : List (Nat × Nat) := []   -- (line, instance) in the order VMs started lines
  applied : List Nat := []      -- lines whose effects have been applied, in application order
  next : Nat := 1
deriving Repr

inductive Act
  | take (l : Nat)     -- the fan-out receives the next line
  | hand               -- the fan-out hands its line to the current VM
  | finish (i : Nat)   -- VM instance i finishes the line it holds
  | beginSwap          -- CompileAndRun takes the write lock and closes the old channel
  | endSwap            -- ... and installs the new VM
deriving DecidableEq, Repr

def setCur (i : Nat) (c : Option Nat) : List VM → List VM
  | [] => []
  | v :: vs => if v.inst = i then { v with cur := c } :: vs else v :: setCur i c vs

def curOf (i : Nat) : List VM → Option Nat
  | [] => none
  | v :: vs => if v.inst = i then v.cur else curOf i vs

/-- is the current handle's VM still holding a line? -/
def oldBusy (s : St) : Bool :=
  match s.vms with
  | v :: _ => v.cur.isSome
  | [] => false

/-- `wait`: does the swap wait for the old VM to drain? -/
def step (wait : Bool) (s : St) : Act → Option St
  | .take l =>
    match s.pending with
    | none => some { s with pending := some l, taken := s.taken ++ [l] }
    | some _ => none
  | .hand =>
    if s.swapping then none else
    match s.pending, s.vms with
    | some l, v :: vs =>
      (match v.cur with
       | none => some { s with pending := none, vms := { v with cur := some l } :: vs, started := s.started ++ [(l, v.inst)] }
       | some _ => none)
    | _, _ => none
  | .finish i =>
    match curOf i s.vms with
    | some l => some { s with vms := setCur i none s.vms, applied := s.applied ++ [l] }
    | none => none
  | .beginSwap => if s.swapping then none else some { s with swapping := true }
  | .endSwap =>
    if !s.swapping then none
    else if wait && oldBusy s then none
    else some { s with swapping := false, vms := { inst := s.next } :: s.vms, next := s.next + 1 }

def run (wait : Bool) : St → List Act → Option St
  | s, [] => some s
  | s, a :: as => (step wait s a).bind (fun s' => run wait s' as)

/-- the protocol of the current source -/
def current : Bool := Generated.Reload.swapWaitsForOldVM

end MtailVerif.Reload
