import MtailVerif.Generated.Reader
/-! Model of `LineReader`'s buffer *accounting* (internal/tailer/logstream/reader.go,
    `NewLineReader`, `ReadAndSend`, `Finish`): the length and capacity of `lr.buf` as Go's slice
    operations change them.  What the bytes are is the business of `Model/Reader.lean` (C15); this
    file is about whether a `Read` is ever handed a buffer with no room in it.

    * `make([]byte, 0, n)` has length 0 and capacity exactly `n`;
    * `append(make([]byte, 0, n), b...)` with `len b ≤ n` has length `len b` and capacity `n`;
    * `b[:len b + k]` (with `len b + k ≤ cap b`) has length `len b + k` and the same capacity;
    * `b[o:len b]` has length `len b - o` and capacity `cap b - o`: bytes sliced off the front take
      their capacity with them;
    * `b[:0]` has length 0 and the same capacity.

    The regrowth test and the new capacity are the regenerated `Generated.Reader.needGrow` and
    `growCap`, translated from the source expressions. -/
namespace MtailVerif.ReaderBuf
open MtailVerif

structure Buf where
  len : Nat
  cap : Nat
deriving Repr, DecidableEq

/-- when the buffer is regrown, and to which capacity (arguments: length, capacity, read size) -/
structure Mgmt where
  needGrow : Nat → Nat → Nat → Bool
  growCap : Nat → Nat → Nat → Nat

/-- the management `ReadAndSend` has in the source, regenerated on every run -/
def src : Mgmt := ⟨Generated.Reader.needGrow, Generated.Reader.growCap⟩

/-- `NewLineReader`: `buf: make([]byte, 0, size)` -/
def new (size : Nat) : Buf := ⟨0, size⟩

/-- the first statement of `ReadAndSend` -/
def prepare (m : Mgmt) (size : Nat) (b : Buf) : Buf :=
  if m.needGrow b.len b.cap size then ⟨b.len, m.growCap b.len b.cap size⟩ else b

/-- what `lr.f.Read(lr.buf[len(lr.buf):cap(lr.buf)])` is offered -/
def offered (m : Mgmt) (size : Nat) (b : Buf) : Nat := (prepare m size b).cap - (prepare m size b).len

/-- one `ReadAndSend`: the source returns `count` bytes (at most what it was offered), the send
    loop consumes the first `consumed` bytes of the buffer (whole lines; at most everything) -/
def readAndSend (m : Mgmt) (size : Nat) (b : Buf) (count consumed : Nat) : Buf :=
  let p := prepare m size b
  let count := min count (p.cap - p.len)
  let l := p.len + count
  if count = 0 then ⟨l, p.cap⟩
  else
    let o := min consumed l
    ⟨l - o, p.cap - o⟩

/-- `Finish` when something is left: `lr.buf = lr.buf[:0]` -/
def finish (b : Buf) : Buf := ⟨0, b.cap⟩

inductive Op
  | read (count consumed : Nat)
  | finish
deriving Repr

def step (m : Mgmt) (size : Nat) (b : Buf) : Op → Buf
  | .read c k => readAndSend m size b c k
  | .finish => finish b

def run (m : Mgmt) (size : Nat) (b : Buf) (ops : List Op) : Buf := ops.foldl (step m size) b

/-- the room offered to each `Read` of a history, in order -/
def offers (m : Mgmt) (size : Nat) : Buf → List Op → List Nat
  | _, [] => []
  | b, .read c k :: rest => offered m size b :: offers m size (readAndSend m size b c k) rest
  | b, .finish :: rest => offers m size (finish b) rest

end MtailVerif.ReaderBuf
