import MtailVerif.Model.Bytes
/-! The mtail abstract syntax tree (internal/runtime/compiler/ast/ast.go) as a Lean type, one
    constructor per Go node type, shared by the front-end models (scoping, formatting, semantics). -/
namespace MtailVerif.Ast
open MtailVerif

structure Pos where
  line : Int
  startcol : Int
  endcol : Int
deriving DecidableEq, Repr, Inhabited

/-- types as the checker leaves them on expression nodes (`unk` before checking) -/
inductive Ty
  | unk | int | float | str | bool | pattern | none | buckets | undef | dim | var | error | other
  | via (t : Ty)        -- reached through a type variable (the node's type is not the global type object itself)
deriving DecidableEq, Repr, Inhabited

def Ty.root : Ty → Ty
  | .via t => t.root
  | t => t

/-- operator tokens of parser.y -/
inductive Op
  | inc | dec | div | mod | mul | minus | plus | pow | shl | shr | lt | gt | le | ge | eq | ne
  | bitand | xor | bitor | not | and | or | addAssign | assign | «match» | notMatch
deriving DecidableEq, Repr, Inhabited

structure Decl where
  kind : Nat                 -- metrics.Kind: 1 counter 2 gauge 3 timer 4 text 5 histogram
  name : String
  hidden : Bool
  exported : String
  keys : List String
  limit : Int
  buckets : List UInt64      -- float64 bit patterns
deriving DecidableEq, Repr, Inhabited

mutual
inductive Node
  | stmts (cs : Nodes)
  | exprs (cs : Nodes)
  | cond (c : Node) (t : Node) (e : Node)       -- absent parts are `nil`
  | nil
  | id (name : String) (pos : Pos) (ty : Ty)
  | cap (name : String) (named : Bool) (pos : Pos) (ty : Ty)
  | builtin (name : String) (args : Node) (pos : Pos) (ty : Ty)
  | bin (op : Op) (l r : Node) (ty : Ty)
  | un (op : Op) (e : Node) (pos : Pos) (ty : Ty)
  | idx (lhs index : Node) (ty : Ty)
  | decl (d : Decl) (pos : Pos)
  | str (s : Bytes) (pos : Pos)
  | int (i : Int) (pos : Pos)
  | float (bits : UInt64) (pos : Pos)
  | patexpr (e : Node) (pattern : Bytes)
  | patlit (p : Bytes) (pos : Pos)
  | const (id : Node) (e : Node) (pattern : Bytes)
  | decodecl (name : String) (block : Node) (pos : Pos)
  | deco (name : String) (block : Node) (pos : Pos)
  | next (pos : Pos)
  | otherwise (pos : Pos)
  | stop (pos : Pos)
  | del (n : Node) (expiry : Int) (pos : Pos)
  | conv (n : Node) (ty : Ty)
  | error (spelling : Bytes) (pos : Pos)
inductive Nodes
  | nil
  | cons (n : Node) (ns : Nodes)
end

instance : Inhabited Node := ⟨.nil⟩

def Nodes.toList : Nodes → List Node
  | .nil => []
  | .cons n ns => n :: ns.toList

def Nodes.ofList : List Node → Nodes
  | [] => .nil
  | n :: ns => .cons n (Nodes.ofList ns)

def Nodes.length : Nodes → Nat
  | .nil => 0
  | .cons _ ns => ns.length + 1

end MtailVerif.Ast
