import MtailVerif.Model.Metric
/-! The abstract specification C09 refines to: an insertion-ordered map from label tuples to
    (value, expiry), and the operation alphabet of the property. -/
namespace MtailVerif.Metric

structure Entry (V : Type) where
  labels : List Bytes
  value : V
  expiry : Int
deriving Repr

abbrev Spec (V : Type) := List (Entry V)

variable {V : Type}

def findS (l : List Bytes) : Spec V → Option (Entry V)
  | [] => none
  | e :: es => if e.labels = l then some e else findS l es

def eraseS (l : List Bytes) : Spec V → Spec V
  | [] => []
  | e :: es => if e.labels = l then es else e :: eraseS l es

def modS (l : List Bytes) (f : Entry V → Entry V) : Spec V → Spec V
  | [] => []
  | e :: es => if e.labels = l then f e :: es else e :: modS l f es

/-- operations of the property's alphabet; `set` is the VM's "look up or create, then write
    through the returned datum" -/
inductive Op (V : Type)
  | get (labels : List Bytes)
  | set (labels : List Bytes) (f : V → V)
  | remove (labels : List Bytes)
  | expire (e : Int) (labels : List Bytes)
  | find (labels : List Bytes)
  | emit

inductive Out (V : Type)
  | ok
  | err (e : Err)
  | found (r : Option (V × Int))
  | list (l : List (List Bytes × V))

/-- the specification: `n` = the metric's arity, `mk` = zero value of its type -/
def Spec.step (n : Nat) (mk : V) (s : Spec V) : Op V → Spec V × Out V
  | .get l =>
    if l.length ≠ n then (s, .err .arity)
    else match findS l s with
      | some _ => (s, .ok)
      | none => (s ++ [⟨l, mk, 0⟩], .ok)
  | .set l f =>
    if l.length ≠ n then (s, .err .arity)
    else match findS l s with
      | some _ => (modS l (fun e => { e with value := f e.value }) s, .ok)
      | none => (s ++ [⟨l, f mk, 0⟩], .ok)
  | .remove l =>
    if l.length ≠ n then (s, .err .arity) else (eraseS l s, .ok)
  | .expire x l =>
    if l.length ≠ n then (s, .err .arity)
    else match findS l s with
      | some _ => (modS l (fun e => { e with expiry := x }) s, .ok)
      | none => (s, .err .noDatum)
  | .find l => (s, .found ((findS l s).map (fun e => (e.value, e.expiry))))
  | .emit => (s, .list (s.map (fun e => (e.labels, e.value))))

/-- the same alphabet on the model of the Go code -/
def step (mk : V) (m : Metric V) : Op V → Metric V × Out V
  | .get l => match getDatum m mk l with
    | .ok (m', _) => (m', .ok)
    | .error e => (m, .err e)
  | .set l f => match getDatum m mk l with
    | .ok (m', id) => (updateDatum m' id f, .ok)
    | .error e => (m, .err e)
  | .remove l => match removeDatum m l with
    | .ok m' => (m', .ok)
    | .error e => (m, .err e)
  | .expire x l => match expireDatum m x l with
    | .ok m' => (m', .ok)
    | .error e => (m, .err e)
  | .find l => (m, .found ((find m l).map (fun lv => (lv.value, lv.expiry))))
  | .emit => (m, .list (emit m))

def abs (m : Metric V) : Spec V := m.lvs.map (fun lv => ⟨lv.labels, lv.value, lv.expiry⟩)

def runOps (mk : V) (m : Metric V) : List (Op V) → Metric V
  | [] => m
  | op :: ops => runOps mk (step mk m op).1 ops

def Spec.runOps (n : Nat) (mk : V) (s : Spec V) : List (Op V) → Spec V
  | [] => s
  | op :: ops => Spec.runOps n mk (Spec.step n mk s op).1 ops

end MtailVerif.Metric
