import MtailVerif.Model.Ast
import MtailVerif.Model.IR
/-! From the checked, typed AST to the core language, as codegen.go walks it (Walk order,
    VisitBefore / VisitAfter): the string, regular-expression and metric tables are filled in the
    order the code generator fills them, names are resolved with the checker's resolution (Refs),
    decorators are expanded in place (`@d { B }` is d's body with `next` replaced by `B`), the typed
    operator table picks the opcode, conversions and the typed getters follow the node types.
    A construct codegen.go reports as an internal error makes `lower` fail (`unsupported`). -/
namespace MtailVerif.Lower
open MtailVerif MtailVerif.Ast MtailVerif.IR MtailVerif.VM

structure IdRef where
  kind : Char              -- 'v' metric, 'p' pattern constant, 'o' other
  decl : Option Pos
  lvalue : Bool
  elt : Ty

structure Refs where
  ids : List (Pos × IdRef) := []
  caps : List (Pos × (Option Pos × Int)) := []     -- pattern key, group
  decos : List (Pos × Option Pos) := []
  vars : List (Pos × Ty) := []
  groups : List (Pos × List String) := []         -- pattern key ↦ names of its capture groups (index 0 first)

def find {α : Type} (l : List (Pos × α)) (p : Pos) : Option α :=
  match l.find? (fun e => e.1 == p) with
  | some e => some e.2
  | none => none

structure MDecl where
  typ : Nat
  nkeys : Nat
  rbits : List (UInt64 × UInt64)          -- bucket ranges, as float64 bit patterns

structure LEnv where
  strs : List Bytes := []
  res : List Bytes := []
  metrics : List MDecl := []
  symAddr : List (Pos × Nat) := []
  patIdx : List (Pos × Nat) := []
  decos : List Node := []                  -- blocks waiting for `next`
  declNodes : List (Pos × Node) := []      -- decorator definitions
  /-- capture groups in scope, innermost block first: name ↦ (pattern key, group) -/
  scopes : List (List (String × Pos × Nat)) := [[]]
  noSyms : Bool := false                   -- inside `subst(...)`: patterns declare no capture groups

abbrev LM := StateT LEnv (Except String)

def fail {α : Type} (msg : String) : LM α := throw msg

/-- `n.Type()` -/
def tyOf : Node → Ty
  | .id _ _ ty => ty | .cap _ _ _ ty => ty | .builtin _ _ _ ty => ty | .bin _ _ _ ty => ty
  | .un _ _ _ ty => ty | .idx _ _ ty => ty | .conv _ ty => ty
  | .str _ _ => .str | .int _ _ => .int | .float _ _ => .float | .patexpr _ _ => .pattern
  | _ => .none

/-- the first leaf's position: the key of a pattern expression -/
def leafPos : Node → Option Pos
  | .bin _ l _ _ => leafPos l
  | .patexpr e _ => leafPos e
  | .conv n _ => leafPos n
  | .idx l _ _ => leafPos l
  | .un _ e _ _ => leafPos e
  | .patlit _ p => some p
  | .id _ p _ => some p
  | .str _ p => some p
  | .int _ p => some p
  | .float _ p => some p
  | .cap _ _ p _ => some p
  | .builtin _ _ p _ => some p
  | _ => none

def i0 (op : Opcode) : Instr := ⟨op, .none⟩
def iN (op : Opcode) (n : Int) : Instr := ⟨op, .int n⟩

/-- codegen.go `typedOperators` -/
def typedOp (op : Op) (ty : Ty) : Option Opcode :=
  match op, ty.root with
  | .plus, .int => some .iadd | .plus, .float => some .fadd | .plus, .str => some .cat | .plus, .pattern => some .cat
  | .minus, .int => some .isub | .minus, .float => some .fsub
  | .mul, .int => some .imul | .mul, .float => some .fmul
  | .div, .int => some .idiv | .div, .float => some .fdiv
  | .mod, .int => some .imod | .mod, .float => some .fmod
  | .pow, .int => some .ipow | .pow, .float => some .fpow
  | .assign, .int => some .iset | .assign, .float => some .fset | .assign, .str => some .sset
  | _, _ => none

/-- `emitConversion` -/
def conversion (inT outT : Ty) : Option (List Instr) :=
  match inT.root, outT.root with
  | .int, .float => some [i0 .i2f]
  | .str, .float => some [i0 .s2f]
  | .str, .int => some [i0 .s2i]
  | .float, .str => some [i0 .f2s]
  | .int, .str => some [i0 .i2s]
  | .pattern, .bool => some []
  | a, b => if a == b then some [] else none

/-- the comparison operators: the operand of the compare instruction and whether the branch to
    the "false" arm is `jm` (codegen.go's switch in the comparison case) -/
def cmpCode : Op → Option (Int × Bool)
  | .lt => some (-1, false) | .gt => some (1, false) | .le => some (1, true) | .ge => some (-1, true)
  | .eq => some (0, false) | .ne => some (0, true)
  | _ => none

/-- the bitwise operators and shifts -/
def bitOpcode : Op → Option Opcode
  | .bitand => some .and | .bitor => some .or | .xor => some .xor | .shl => some .shl | .shr => some .shr
  | _ => none

def builtinOp (name : String) : Option Opcode :=
  match name with
  | "getfilename" => some .getfilename | "len" => some .length | "settime" => some .settime
  | "strptime" => some .strptime | "strtol" => some .s2i | "subst" => some .subst
  | "timestamp" => some .timestamp | "tolower" => some .tolower
  | _ => none

def nodesToList : Nodes → List Node
  | .nil => []
  | .cons n ns => n :: nodesToList ns

def esOfList : List E → Es
  | [] => .nil
  | e :: es => .cons e (esOfList es)

def ssOfList : List S → Ss
  | [] => .nil
  | s :: ss => .cons s (ssOfList ss)

def childrenOf : Node → List Node
  | .exprs cs => nodesToList cs
  | .stmts cs => nodesToList cs
  | .nil => []
  | n => [n]

def addGroups (frame : List (String × Pos × Nat)) (key : Pos) : Nat → List String → List (String × Pos × Nat)
  | _, [] => frame
  | i, nm :: rest =>
    let f1 := if frame.any (fun e => e.1 == toString i) then frame else frame ++ [(toString i, key, i)]
    let f2 := if nm == "" || f1.any (fun e => e.1 == nm) then f1 else f1 ++ [(nm, key, i)]
    addGroups f2 key (i + 1) rest

/-- `case *ast.PatternExpr` of VisitBefore: the pattern gets the next index; by the language's
    scoping its capture groups become visible in the innermost open scope -/
def registerPattern (refs : Refs) (n : Node) : LM Nat := do
  match n with
  | .patexpr _ pat =>
    let env ← get
    let k := env.res.length
    let key := leafPos n
    match key with
    | some kp =>
      let scopes := if env.noSyms then env.scopes else
        match env.scopes with
        | top :: rest => addGroups top kp 0 ((find refs.groups kp).getD []) :: rest
        | [] => [addGroups [] kp 0 ((find refs.groups kp).getD [])]
      set { env with res := env.res ++ [pat], patIdx := (kp, k) :: env.patIdx.filter (fun e => e.1 != kp),
                     scopes := scopes }
      pure k
    | none => fail "pattern expression without a key"
  | _ => fail "not a pattern expression"

def resolveCap (scopes : List (List (String × Pos × Nat))) (name : String) : Option (Pos × Nat) :=
  scopes.findSome? fun frame => (frame.find? (fun e => e.1 == name)).map (·.2)

def pushScope : LM Unit := modify fun env => { env with scopes := [] :: env.scopes }
def popScope : LM Unit := modify fun env => { env with scopes := env.scopes.drop 1 }

def rangesFrom (mn : UInt64) : List UInt64 → List (UInt64 × UInt64)
  | [] => [(mn, 0x7FF0000000000000)]
  | mx :: more => (mn, mx) :: rangesFrom mx more

def rangesOf (bs : List UInt64) : List (UInt64 × UInt64) :=
  match bs with
  | [] => []
  | b0 :: rest =>
    let pos := b0 != 0 && b0 < 0x8000000000000000      -- n.Buckets[0] > 0
    let first := if pos then [((0 : UInt64), b0)] else []
    first ++ rangesFrom b0 rest

def declareMetric (refs : Refs) (d : Decl) (p : Pos) : LM Unit := do
  let env ← get
  let t := ((find refs.vars p).getD .none).root
  let typ : Nat := match t with | .float => 1 | .str => 2 | .buckets => 3 | _ => 0
  -- a scalar counter is initialised to zero: only Int and Float can be
  if d.keys.isEmpty && d.kind == 1 && (typ == 2 || typ == 3) then fail "cannot initialise this counter to zero"
  if d.kind == 5 && d.buckets.length < 2 then fail "a histogram needs at least two boundaries"
  let ranges := if d.kind == 5 then rangesOf d.buckets else []
  set { env with metrics := env.metrics ++ [(⟨typ, d.keys.length, ranges⟩ : MDecl)],
                 symAddr := (p, env.metrics.length) :: env.symAddr.filter (fun e => e.1 != p) }

mutual
/-- an expression, in the order codegen.go emits its code -/
def lowerE (refs : Refs) : Nat → Node → LM E
  | 0, _ => fail "fuel"
  | fuel + 1, n =>
    match n with
    | .str s _ => do
      let env ← get
      set { env with strs := env.strs ++ [s] }
      pure (.prim [iN .str env.strs.length] .nil)
    | .int i _ => pure (.prim [⟨.push, .i64 i⟩] .nil)
    | .float b _ => pure (.prim [⟨.push, .f64 b⟩] .nil)
    | .stop _ => pure (.prim [i0 .stop] .nil)
    | .cap name _ p ty => do
      match find refs.caps p with
      | some (some key, addr) =>
        let env ← get
        -- the language's rule: the nearest enclosing scope that defines the group
        match resolveCap env.scopes name with
        | some (k2, a2) =>
          if k2 != key || (a2 : Int) != addr then
            fail s!"RESOLUTION ${name} at {p.line}:{p.startcol}: checker binds pattern at {key.line}:{key.startcol} group {addr}, scoping rule gives pattern at {k2.line}:{k2.startcol} group {a2}"
        | none => fail s!"RESOLUTION ${name} at {p.line}:{p.startcol}: no enclosing condition defines it"
        match find env.patIdx key with
        | some idx =>
          let conv := match ty.root with | .float => [i0 .s2f] | .int => [i0 .s2i] | _ => []
          pure (.prim ([iN .push idx, iN .capref addr] ++ conv) .nil)
        | none => fail "capture reference to a pattern that has no index yet"
      | _ => fail "unbound capture reference"
    | .idx lhs index _ => do
      let args := childrenOf index
      let keys ← args.mapM fun a => do
        let e ← lowerE refs fuel a
        match (tyOf a).root with
        | .float => pure (E.prim [i0 .f2s] (.cons e .nil))
        | .int => pure (E.prim [i0 .i2s] (.cons e .nil))
        | _ => pure e
      let tail ← lowerId refs lhs
      pure (.prim tail (esOfList keys))
    | .id _ _ _ => do
      let tail ← lowerId refs n
      pure (.prim tail .nil)
    | .builtin name args _ ty => do
      let as := childrenOf args
      let wasNoSyms := (← get).noSyms
      if name == "subst" then modify fun env => { env with noSyms := true }
      let es ← as.mapM (lowerE refs fuel)
      if name == "subst" then modify fun env => { env with noSyms := wasNoSyms }
      let arglen : Int := as.length
      match name with
      | "bool" => pure (.prim [] (esOfList es))
      | "int" | "float" | "string" =>
        if as.length > 1 then fail "too many arguments to a conversion builtin" else
        match as with
        | a :: _ =>
          (match conversion (tyOf a) ty with
           | some is => pure (.prim is (esOfList es))
           | none => fail "cannot convert")
        | [] => fail "conversion builtin without argument"
      | "subst" =>
        (match as with
         | a :: _ =>
           if (tyOf a).root == .pattern then do
             let env ← get
             match (leafPos a).bind (find env.patIdx) with
             | some idx => pure (.prim [iN .push idx, iN .rsubst arglen] (esOfList es))
             | none => fail "subst pattern without index"
           else pure (.prim [iN .subst arglen] (esOfList es))
         | [] => fail "subst without arguments")
      | _ =>
        (match builtinOp name with
         | some op => pure (.prim [iN op arglen] (esOfList es))
         | none => fail ("unknown builtin " ++ name))
    | .bin op l r ty =>
      match op with
      | .and => do
        let a ← lowerE refs fuel l
        let b ← lowerE refs fuel r
        pure (.and a b)
      | .or => do
        let a ← lowerE refs fuel l
        let b ← lowerE refs fuel r
        pure (.or a b)
      | .addAssign => do
        if ty.root == .int then
          let a ← lowerE refs fuel l
          let b ← lowerE refs fuel r
          pure (.prim [iN .inc 0] (.cons a (.cons b .nil)))
        else if ty.root == .float || ty.root == .str then
          let a0 ← lowerE refs fuel l
          let a ← lowerE refs fuel l
          let b ← lowerE refs fuel r
          match typedOp .plus ty, typedOp .assign ty with
          | some o1, some o2 => pure (.prim [i0 o1, i0 o2] (.cons a0 (.cons a (.cons b .nil))))
          | _, _ => fail "no opcode for add-assignment"
        else fail "invalid type for add-assignment"
      | .lt | .gt | .le | .ge | .eq | .ne => do
        let a ← lowerE refs fuel l
        let b ← lowerE refs fuel r
        let (arg, jm) : Int × Bool := (cmpCode op).getD (0, true)
        let lt := tyOf l
        let cmpOp : Opcode :=
          if lt.root == (tyOf r).root then
            match lt with
            | .float => .fcmp | .int => .icmp | .str => .scmp
            -- a variable the checker has bound to String: still a string comparison
            | _ => if lt.root == .str then .scmp else .cmp
          else .cmp
        pure (.cmp (iN cmpOp arg) jm a b)
      | .plus | .minus | .mul | .div | .mod | .pow | .assign => do
        let a ← lowerE refs fuel l
        let b ← lowerE refs fuel r
        match typedOp op ty with
        | some oc => pure (.prim [i0 oc] (.cons a (.cons b .nil)))
        | none => fail "no opcode for this operator at this type"
      | .bitand | .bitor | .xor | .shl | .shr => do
        let a ← lowerE refs fuel l
        let b ← lowerE refs fuel r
        let oc : Opcode := (bitOpcode op).getD .xor
        pure (.prim [i0 oc] (.cons a (.cons b .nil)))
      | .match | .notMatch => do
        let a ← lowerE refs fuel l
        match r with
        | .patexpr _ _ =>
          let idx ← registerPattern refs r
          pure (.prim ([iN .smatch idx] ++ (if op == .notMatch then [i0 .not] else [])) (.cons a .nil))
        | _ => fail "match against something that is not a pattern expression"
      | _ => fail "unexpected binary operator"
    | .un op e _ _ =>
      match op with
      | .inc => do let a ← lowerE refs fuel e; pure (.prim [i0 .inc] (.cons a .nil))
      | .dec => do let a ← lowerE refs fuel e; pure (.prim [i0 .dec] (.cons a .nil))
      | .not => do let a ← lowerE refs fuel e; pure (.prim [i0 .neg] (.cons a .nil))
      | .match =>
        (match e with
         | .patexpr _ _ => do
           let idx ← registerPattern refs e
           pure (.prim [iN .match idx] .nil)
         | _ => fail "implicit match of something that is not a pattern expression")
      | _ => do let a ← lowerE refs fuel e; pure a
    | .conv inner ty => do
      let a ← lowerE refs fuel inner
      match conversion (tyOf inner) ty with
      | some is => pure (.prim is (.cons a .nil))
      | none => fail "cannot convert"
    | .patexpr _ _ => do
      let _ ← registerPattern refs n
      pure (.prim [] .nil)
    | .del target expiry _ => do
      match target with
      | .idx lhs index _ =>
        let args := childrenOf index
        let keys ← args.mapM fun a => do
          let e ← lowerE refs fuel a
          match (tyOf a).root with
          | .float => pure (E.prim [i0 .f2s] (.cons e .nil))
          | .int => pure (E.prim [i0 .i2s] (.cons e .nil))
          | _ => pure e
        let tail ← lowerId refs lhs
        -- the Dload that ends the reference is overwritten
        (match tail.reverse with
         | ⟨.dload, arg⟩ :: revInit =>
           let opc : Opcode := if expiry > 0 then .expire else .del
           let pre : List E := if expiry > 0 then [E.prim [⟨.push, .dur expiry⟩] .nil] else []
           pure (.prim (revInit.reverse ++ [⟨opc, arg⟩]) (esOfList (pre ++ keys)))
         | _ => fail "del of something that is not an lvalue")
      | _ => fail "del of something that is not indexed"
    | _ => fail "not an expression"
/-- `case *ast.IDTerm`: the instructions after the index expressions -/
def lowerId (refs : Refs) : Node → LM (List Instr)
  | .id _ p ty => do
    match find refs.ids p with
    | some r =>
      if r.kind != 'v' then pure [] else
      match r.decl with
      | none => fail "no metric bound to identifier"
      | some dp =>
        let env ← get
        match find env.symAddr dp with
        | none => fail "identifier before its declaration was generated"
        | some addr =>
          let nkeys := match env.metrics[addr]? with | some m => m.nkeys | none => 0
          let base := [iN .mload addr, iN .dload nkeys]
          if r.lvalue then pure base
          else
            let t := if ty.root == .dim then r.elt.root else ty.root
            (match t with
             | .float => pure (base ++ [i0 .fget])
             | .int => pure (base ++ [i0 .iget])
             | .str => pure (base ++ [i0 .sget])
             | _ => fail "invalid type for get")
    | none => fail "unresolved identifier"
  | _ => fail "indexed expression over something that is not an identifier"
end

mutual
def lowerS (refs : Refs) : Nat → Node → LM (List S)
  | 0, _ => fail "fuel"
  | fuel + 1, n =>
    match n with
    | .stmts cs => do
      pushScope
      let r ← lowerL refs fuel (nodesToList cs)
      popScope
      pure r
    | .cond c t e => do
      pushScope
      let r ← lowerCond refs fuel c t e
      popScope
      pure r
    | .decl d p => do declareMetric refs d p; pure []
    | .const _ _ _ => pure []
    | .decodecl _ _ _ => pure []
    | .deco _ _ p => do
      match find refs.decos p with
      | some (some dp) =>
        let env ← get
        (match find env.declNodes dp with
         | some (.decodecl _ body _) => do
           set { env with decos := n :: env.decos }
           lowerS refs fuel body
         | _ => fail "decorator definition not found")
      | _ => fail "no definition found for decorator"
    | .next _ => do
      let env ← get
      match env.decos with
      | (.deco _ block _) :: rest => do
        set { env with decos := rest }
        lowerS refs fuel block
      | _ => fail "next without a decorated block"
    | .error _ _ => fail "error node"
    | .nil => pure []
    | _ => do
      let e ← lowerE refs fuel n
      pure [S.expr e]
def lowerCond (refs : Refs) : Nat → Node → Node → Node → LM (List S)
  | 0, _, _, _ => fail "fuel"
  | fuel + 1, c, t, e => do
    match c with
    | .otherwise _ =>
      let ts ← lowerS refs fuel t
      (match e with
       | .nil => pure [S.otherwise (ssOfList ts)]
       | _ => fail "otherwise with else")
    | .nil => fail "conditional without condition"
    | _ =>
      let ce ← lowerE refs fuel c
      let ts ← lowerS refs fuel t
      (match e with
       | .nil => pure [S.cond ce (ssOfList ts)]
       | _ => do
         let es ← lowerS refs fuel e
         pure [S.condElse ce (ssOfList ts) (ssOfList es)])
def lowerL (refs : Refs) : Nat → List Node → LM (List S)
  | 0, _ => fail "fuel"
  | _, [] => pure []
  | fuel + 1, n :: ns => do
    let a ← lowerS refs fuel n
    let b ← lowerL refs fuel ns
    pure (a ++ b)
end

def collectDecos : Nat → Node → List (Pos × Node)
  | 0, _ => []
  | fuel + 1, n =>
    match n with
    | .stmts cs => (nodesToList cs).flatMap (collectDecos fuel)
    | .cond _ t e => collectDecos fuel t ++ collectDecos fuel e
    | .decodecl _ body p => (p, n) :: collectDecos fuel body
    | .deco _ body _ => collectDecos fuel body
    | _ => []

structure Lowered where
  prog : Ss
  vm : Prog
  patterns : List Bytes
  decls : List MDecl

def lower (refs : Refs) (root : Node) : Except String Lowered :=
  let env0 : LEnv := { declNodes := collectDecos 10000 root }
  match (lowerS refs 100000 root).run env0 with
  | .ok (ss, env) =>
    let prog := ssOfList ss
    .ok ⟨prog, ⟨emitSs prog 0, env.strs, env.res.length,
      env.metrics.map fun m => ⟨m.typ, m.nkeys, m.rbits.map fun r => ⟨fvKey r.1, fvKey r.2⟩⟩⟩, env.res, env.metrics⟩
  | .error e => .error e

end MtailVerif.Lower
