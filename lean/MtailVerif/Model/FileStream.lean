import MtailVerif.Model.Reader
/-! Model of `logstream.fileStream` (filestream.go) under the tailer's pattern poll (tail.go),
    for histories in which every filesystem step is observed before the next one.

    Filesystem: the tailed path names at most one file (an inode with its bytes).  The stream
    holds an open descriptor on the inode it opened, an offset, and a `LineReader`.  One
    *observation* = the stream is woken, reads everything its descriptor offers, meets EOF and
    takes the decision of the EOF branch (gone / another file / shrunk / nothing), then the
    pattern poll runs.  Switches (`finishOnRotate`, `finishClears`) are regenerated from the
    source. -/
namespace MtailVerif.FileStream
open MtailVerif MtailVerif.Reader

structure File where
  inode : Nat
  data : Bytes
deriving Repr, DecidableEq

structure Stream where
  inode : Nat
  offset : Nat
  lr : LR
deriving Repr

structure St where
  path : Option File := none          -- what the tailed path names now
  others : List File := []            -- files no longer reachable by the path but possibly still open
  stream : Option Stream := none
  nextInode : Nat := 1
  delivered : List Bytes := []
deriving Repr

structure Cfg where
  finishOnRotate : Bool     -- does the `!SameFile` branch flush the old reader before switching?
  finishClears : Bool       -- does `Finish` empty the buffer after sending the remainder?

inductive Op
  | append (b : Bytes)
  | truncate
  | rotate                  -- rename the file away and create a new empty one
  | copyTruncate            -- copy elsewhere, then truncate in place
  | delete
  | create                  -- (re)create an empty file
  | poll
deriving Repr

def fileOf (s : St) (ino : Nat) : Option File :=
  match s.path with
  | some f => if f.inode = ino then some f else s.others.find? (·.inode = ino)
  | none => s.others.find? (·.inode = ino)

/-- the filesystem mutation -/
def mutate (s : St) : Op → St
  | .append b => match s.path with
    | some f => { s with path := some { f with data := f.data ++ b } }
    | none => s
  | .truncate => match s.path with
    | some f => { s with path := some { f with data := [] } }
    | none => s
  | .copyTruncate => match s.path with
    | some f => { s with path := some { f with data := [] } }
    | none => s
  | .rotate => match s.path with
    | some f => { s with path := some ⟨s.nextInode, []⟩, others := f :: s.others, nextInode := s.nextInode + 1 }
    | none => s
  | .delete => match s.path with
    | some f => { s with path := none, others := f :: s.others }
    | none => s
  | .create => match s.path with
    | some _ => s
    | none => { s with path := some ⟨s.nextInode, []⟩, nextInode := s.nextInode + 1 }
  | .poll => s

/-- `Finish`: send the unterminated remainder; the repaired code also empties the buffer -/
def finishLR (cfg : Cfg) (lr : LR) : List Bytes × LR :=
  (finish lr, if cfg.finishClears then { buf := [], off := 0 } else lr)

/-- read everything the descriptor offers from `offset` (as one chunk; by C15 the chunking is
    irrelevant) -/
def readAvail (st : Stream) (f : File) : List Bytes × Stream :=
  let chunk := f.data.drop st.offset
  let r := readAndSend st.lr chunk
  (r.1, { st with offset := st.offset + chunk.length, lr := r.2 })

/-- the stream goroutine from a wake-up until it waits again; `fuel` bounds the EOF-branch
    iterations (truncate → re-read, rotate → new stream) -/
def streamWake (cfg : Cfg) : Nat → St → St
  | 0, s => s
  | fuel+1, s =>
    match s.stream with
    | none => s
    | some st =>
      match fileOf s st.inode with
      | none => s
      | some f =>
        let (ls, st1) := readAvail st f
        let s1 := { s with delivered := s.delivered ++ ls, stream := some st1 }
        -- EOF with nothing read: the decision procedure
        match s.path with
        | none =>
          -- the path no longer exists: flush and end the stream
          { s1 with delivered := s1.delivered ++ finish st1.lr, stream := none }
        | some cur =>
          if cur.inode ≠ st1.inode then
            -- another file is at the path: a new stream on it, from the start
            let flushed := if cfg.finishOnRotate then finish st1.lr else []
            let s2 : St := { s1 with delivered := s1.delivered ++ flushed, stream := some ⟨cur.inode, 0, Reader.init⟩ }
            streamWake cfg fuel s2
          else if cur.data.length < st1.offset then
            -- shrunk: flush, seek to the start, read again
            let (fl, lr') := finishLR cfg st1.lr
            let s2 : St := { s1 with delivered := s1.delivered ++ fl, stream := some { st1 with offset := 0, lr := lr' } }
            streamWake cfg fuel s2
          else s1

/-- the pattern poll: a path with no stream gets one, positioned at the END of the file -/
def patternPoll (s : St) : St :=
  match s.stream, s.path with
  | none, some f => { s with stream := some ⟨f.inode, f.data.length, Reader.init⟩ }
  | _, _ => s

/-- one history step: mutate, then the tailer observes -/
def step (cfg : Cfg) (s : St) (op : Op) : St :=
  patternPoll (streamWake cfg 4 (mutate s op))

def run (cfg : Cfg) (s : St) (ops : List Op) : St := ops.foldl (step cfg) s

/-- tailing is stopped: the stream reads what is left to read and flushes its reader -/
def stop (s : St) : St :=
  match s.stream with
  | none => s
  | some st =>
    match fileOf s st.inode with
    | none => { s with delivered := s.delivered ++ finish st.lr, stream := none }
    | some f => { s with delivered := s.delivered ++ (readAvail st f).1 ++ finish (readAvail st f).2.lr, stream := none }

/-- tailing begins on an existing empty file -/
def start : St := patternPoll { path := some ⟨0, []⟩ }

/-! ### what the property prescribes -/

/-- state of the specification: the current generation's partial line, whether the path is
    being tailed, and the lines delivered so far -/
structure Spec where
  exists_ : Bool := true
  tailing : Bool := true
  partial_ : Bytes := []
  out : List Bytes := []
deriving Repr

def flush (sp : Spec) : Spec :=
  if sp.partial_.isEmpty then sp else { sp with out := sp.out ++ [sp.partial_], partial_ := [] }

def Spec.step (sp : Spec) : Op → Spec
  | .append b =>
    if sp.exists_ ∧ sp.tailing then
      let r := Reader.spec sp.partial_ b
      { sp with out := sp.out ++ r.1, partial_ := r.2 }
    else sp
  | .truncate => if sp.exists_ then flush sp else sp
  | .copyTruncate => if sp.exists_ then flush sp else sp
  | .rotate => if sp.exists_ then flush sp else sp
  | .delete => if sp.exists_ then { (flush sp) with exists_ := false, tailing := false } else sp
  | .create => if sp.exists_ then sp else { sp with exists_ := true, tailing := true }
  | .poll => sp

def Spec.run (ops : List Op) : Spec := ops.foldl Spec.step {}

/-- tailing stopped: the generation being tailed ends, its fragment is delivered -/
def Spec.stop (sp : Spec) : Spec := if sp.tailing then flush sp else sp

end MtailVerif.FileStream
