import MtailVerif.Model.Reader
/-! Model of the stream-socket log source (socketstream.go) at the level of connection events:
    every accepted connection is handled by `handleConn` with its *own* `LineReader`; all
    handlers send to one output channel; a closer goroutine closes the listener and, once every
    handler is done, the output.  A pipe (fifostream.go) is the one-connection special case. -/
namespace MtailVerif.Conn
open MtailVerif MtailVerif.Reader

inductive Ev
  | accept (c : Nat)
  | data (c : Nat) (chunk : Bytes)
  | close (c : Nat)             -- the peer closes: the handler sees EOF
  | cancel
deriving Repr

structure Handler where
  id : Nat
  lr : LR
  seen : Bytes                  -- ghost: every byte this handler has read
deriving Repr

structure S where
  conns : List Handler := []
  out : List (Nat × Bytes) := []     -- delivered lines, tagged (ghost) with the connection they came from
  started : Bool := false            -- `close(started)` after the first accepted connection
  cancelled : Bool := false
  listenerClosed : Bool := false
  linesClosed : Bool := false
  used : List Nat := []              -- ghost: every connection identity ever accepted
deriving Repr

structure Cfg where
  oneShot : Bool
  closerWaitsForCancelToo : Bool     -- regenerated: does the closer wait on `started` OR `ctx.Done()`?

/-- the closer goroutine: `<-started` (or cancellation), then unless one-shot `<-ctx.Done()`,
    close the listener, wait for the handlers, close the output -/
def closer (cfg : Cfg) (s : S) : S :=
  let pastFirstWait := s.started || (cfg.closerWaitsForCancelToo && s.cancelled)
  let pastSecondWait := cfg.oneShot || s.cancelled
  if pastFirstWait && pastSecondWait then
    let s1 := { s with listenerClosed := true }
    if s1.conns.isEmpty then { s1 with linesClosed := true } else s1
  else s

def tag (c : Nat) (ls : List Bytes) : List (Nat × Bytes) := ls.map (fun l => (c, l))

def handlerData (h : Handler) (chunk : Bytes) : List Bytes × Handler :=
  let r := readAndSend h.lr chunk
  (r.1, { h with lr := r.2, seen := h.seen ++ chunk })

def step (cfg : Cfg) (s : S) : Ev → S
  | .accept c =>
    if s.listenerClosed ∨ s.used.contains c then s
    else closer cfg { s with conns := s.conns ++ [⟨c, Reader.init, []⟩], started := true, used := c :: s.used }
  | .data c chunk =>
    match s.conns.find? (·.id = c) with
    | none => s
    | some h =>
      let r := handlerData h chunk
      { s with conns := s.conns.map (fun x => if x.id = c then r.2 else x), out := s.out ++ tag c r.1 }
  | .close c =>
    match s.conns.find? (·.id = c) with
    | none => s
    | some h => closer cfg { s with conns := s.conns.filter (·.id ≠ c), out := s.out ++ tag c (finish h.lr) }
  | .cancel =>
    -- every handler's read is interrupted by the deadline; each flushes its remainder and exits
    let flushed := s.conns.flatMap (fun h => tag h.id (finish h.lr))
    closer cfg { s with conns := [], out := s.out ++ flushed, cancelled := true }

def run (cfg : Cfg) (s : S) (evs : List Ev) : S := evs.foldl (step cfg) s

def proj (c : Nat) (out : List (Nat × Bytes)) : List Bytes := (out.filter (·.1 = c)).map (·.2)

end MtailVerif.Conn
