import MtailVerif.Model.Ast
/-! Model of the formatter (internal/runtime/compiler/parser/unparser.go): AST to program text.
    Number formatting is a parameter (`fmtFloat` = strconv.FormatFloat(f,'g',-1,64)); durations are
    printed by `fmtDur` (`durationLiteral`: time.Duration.String from a millisecond up, a fraction of
    a second below). -/
namespace MtailVerif.Unparse
open MtailVerif MtailVerif.Ast

structure Fmt where
  fmtFloat : UInt64 → String
  fmtDur : Int → String

/-- binding strength, loosest first (parser.y) -/
def precAssign : Nat := 0
def precLogical : Nat := 1
def precBitwise : Nat := 2
def precRel : Nat := 3
def precShift : Nat := 4
def precAdditive : Nat := 5
def precMultiplicative : Nat := 6
def precUnary : Nat := 7
def precPostfix : Nat := 8
def precPrimary : Nat := 9

def opPrec : Op → Nat
  | .assign | .addAssign => precAssign
  | .and | .or | .match | .notMatch => precLogical
  | .bitand | .bitor | .xor => precBitwise
  | .lt | .gt | .le | .ge | .eq | .ne => precRel
  | .shl | .shr => precShift
  | .plus | .minus => precAdditive
  | _ => precMultiplicative

def precedence : Node → Nat
  | .conv n _ => precedence n
  | .bin op _ _ _ => opPrec op
  | .un .not _ _ _ => precUnary
  | .un .inc _ _ _ => precPostfix
  | .un .dec _ _ _ => precPostfix
  | .un _ e _ _ => precedence e
  | .patexpr e _ => precedence e
  | _ => precPrimary

def isPatLit : Node → Bool
  | .patlit _ _ => true
  | _ => false

def isConcat : Node → Bool
  | .bin .plus l r _ => isPatLit r || isConcat l
  | _ => false

def isPatExpr : Node → Bool
  | .patexpr _ _ => true
  | _ => false

/-- what the grammar calls a pattern: a regular expression literal, then `+ /literal/` or `+ name` -/
def isPatternConcat : Node → Bool
  | .patlit _ _ => true
  | .bin .plus l (.patlit _ _) _ => isPatternConcat l
  | .bin .plus l (.id _ _ _) _ => isPatternConcat l
  | _ => false

def lhsNeedsParens (op : Op) (lhs : Node) : Bool :=
  match op with
  | .match | .notMatch => precedence lhs < precPrimary
  | .assign | .addAssign => precedence lhs < precUnary
  | _ => if isPatLit lhs || isConcat lhs then false else precedence lhs < opPrec op

def rhsNeedsParens (op : Op) (rhs : Node) : Bool :=
  match op with
  | .match | .notMatch =>
    match rhs with
    -- a pattern is written as it is; an expression the checker wrapped keeps its parentheses
    | .patexpr e _ => !isPatternConcat e && precedence e < precPrimary
    | _ => precedence rhs < precPrimary
  | .assign | .addAssign => precedence rhs < precLogical
  | _ => if isPatLit rhs then false else precedence rhs ≤ opPrec op

def opText : Op → String
  | .lt => " < " | .gt => " > " | .le => " <= " | .ge => " >= " | .eq => " == " | .ne => " != "
  | .shl => " << " | .shr => " >> " | .bitand => " & " | .bitor => " | " | .xor => " ^ " | .not => " ~ "
  | .and => " && " | .or => " || " | .plus => " + " | .minus => " - " | .mul => " * " | .div => " / "
  | .pow => " ** " | .assign => " = " | .addAssign => " += " | .mod => " % " | .match => " =~ "
  | .notMatch => " !~ " | .inc => "Unexpected op: INC" | .dec => "Unexpected op: DEC"

def replaceAll (s : String) (c : Char) (by_ : String) : String :=
  String.join (s.toList.map fun x => if x = c then by_ else String.singleton x)

def bytesToString (b : Bytes) : String := String.fromUTF8! ⟨b.toArray⟩

def quote (s : String) : String := "\"" ++ replaceAll s '"' "\\\"" ++ "\""

/-- the words the lexer does not return as an identifier: keywords and builtin names -/
def reservedWords : List String :=
  ["after", "as", "buckets", "by", "const", "counter", "def", "del", "else", "gauge", "hidden", "histogram",
   "limit", "next", "otherwise", "stop", "text", "timer",
   "bool", "float", "getfilename", "int", "len", "settime", "string", "strptime", "strtol", "subst", "timestamp", "tolower"]

/-- does the text lex as one identifier (a letter, then letters, digits and `_`; ASCII here)? -/
def isIdentifier (s : String) : Bool :=
  match s.toList with
  | [] => false
  | c :: cs => c.isAlpha && cs.all (fun x => x.isAlphanum || x == '_') && !reservedWords.contains s

/-- `keyName`: a label key is written bare when it reads back as an identifier, quoted otherwise -/
def keyName (k : String) : String := if isIdentifier k then k else quote k

def kindText : Nat → String
  | 1 => "counter " | 2 => "gauge " | 3 => "timer " | 4 => "text " | 5 => "histogram " | _ => ""

def declText (f : Fmt) (d : Decl) : String :=
  (if d.hidden then "hidden " else "") ++ kindText d.kind ++ d.name ++
  (if d.keys.isEmpty then "" else " by " ++ ", ".intercalate (d.keys.map keyName)) ++
  (if d.exported = "" then "" else " as " ++ quote d.exported) ++
  (if d.limit > 0 then " limit " ++ toString d.limit else "") ++
  (if d.buckets.isEmpty then "" else " buckets " ++ ", ".intercalate (d.buckets.map f.fmtFloat))

def floatLit (f : Fmt) (b : UInt64) : String :=
  let s := f.fmtFloat b
  if s.toList.any (fun c => c = '.' || c = 'e' || c = 'E' || c = 'I' || c = 'N') then s else s ++ ".0"

/-- the unparser's two buffers: finished output and the current line; `pos` is the indentation -/
structure U where
  out : String := ""
  line : String := ""
  pos : Nat := 0

def U.emit (u : U) (s : String) : U := { u with line := u.line ++ s }
def U.newline (u : U) : U :=
  { u with out := u.out ++ String.ofList (List.replicate u.pos ' ') ++ u.line ++ "\n", line := "" }
def U.indent (u : U) : U := { u with pos := u.pos + 2 }
def U.outdent (u : U) : U := { u with pos := u.pos - 2 }

def parenIf (b : Bool) (k : U → U) (u : U) : U :=
  if b then (k (u.emit "(")).emit ")" else k u

mutual
def unp (f : Fmt) : Node → U → U
  | .nil, u => u
  | .stmts cs, u => unpStmts f cs u
  | .exprs cs, u => unpArgs f cs true u
  | .cond c t e, u =>
    let u := unp f c u
    let u := ((u.emit " {").newline).indent
    let u := unp f t u
    let u := match e with
      | .nil => u
      | e => unp f e (((u.outdent.emit "} else {").newline).indent)
    u.outdent.emit "}"
  | .const i e _, u => unp f e ((unp f i (u.emit "const ")).emit " ")
  | .patlit p _, u => u.emit ("/" ++ replaceAll (bytesToString p) '/' "\\/" ++ "/")
  | .bin op l r _, u =>
    let u := parenIf (lhsNeedsParens op l) (unp f l) u
    let u := u.emit (opText op)
    parenIf (rhsNeedsParens op r) (unp f r) u
  | .id name _ _, u => u.emit name
  | .cap name _ _ _, u => u.emit ("$" ++ name)
  | .builtin name args _ _, u => ((unp f args (u.emit (name ++ "("))).emit ")")
  | .idx lhs index _, u =>
    let u := unp f lhs u
    match index with
    | .exprs .nil => u
    | index => (unp f index (u.emit "[")).emit "]"
  | .decl d _, u => u.emit (declText f d)
  | .un .inc e _ _, u => (parenIf (precedence e < precPostfix) (unp f e) u).emit "++"
  | .un .dec e _ _, u => (parenIf (precedence e < precPostfix) (unp f e) u).emit "--"
  | .un .not e _ _, u => parenIf (precedence e < precUnary) (unp f e) (u.emit " ~")
  | .un .match e _ _, u => unp f e u
  | .un op _ _ _, u => u.emit ("Unexpected op: " ++ toString (repr op))
  | .str t _, u => u.emit (quote (bytesToString t))
  | .int i _, u => u.emit (toString i)
  | .float b _, u => u.emit (floatLit f b)
  | .decodecl name block _, u =>
    ((unp f block (((u.emit ("def " ++ name ++ " {")).newline).indent)).outdent).emit "}"
  | .deco name block _, u =>
    ((unp f block (((u.emit ("@" ++ name ++ " {")).newline).indent)).outdent).emit "}"
  | .next _, u => u.emit "next"
  | .otherwise _, u => u.emit "otherwise"
  | .del n ex _, u =>
    let u := unp f n (u.emit "del ")
    let u := if ex > 0 then u.emit (" after " ++ f.fmtDur ex) else u
    u.newline
  | .conv n _, u => unp f n u
  | .patexpr e _, u => unp f e u
  | .error sp _, u => ((u.emit "// error").newline).emit (bytesToString sp)
  | .stop _, u => u.emit "stop"
def unpStmts (f : Fmt) : Nodes → U → U
  | .nil, u => u
  | .cons n ns, u => unpStmts f ns ((unp f n u).newline)
def unpArgs (f : Fmt) : Nodes → Bool → U → U
  | .nil, _, u => u
  | .cons n ns, first, u => unpArgs f ns false (unp f n (if first then u else u.emit ", "))
end

/-- `Unparser.Unparse` -/
def unparse (f : Fmt) (n : Node) : String := (unp f n {}).out

end MtailVerif.Unparse
