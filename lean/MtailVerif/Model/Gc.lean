import MtailVerif.Model.MetricSpec
/-! Model of `Store.Gc`'s per-metric closure (internal/metrics/store.go) and of
    `Metric.RemoveOldestDatum` (metric.go).  `tm` reads a datum's timestamp (ns since epoch).

    The expiry walk is the Go index loop, `i--` included, not a `filter`; that it *is* a
    filter is a theorem (`Proofs/Gc.lean`). -/
namespace MtailVerif.Gc
open MtailVerif MtailVerif.Metric

variable {V : Type}

def maxDur : Int := 9223372036854775807
def minDur : Int := -9223372036854775808

/-- `time.Time.Sub`: the difference saturates at the range of `time.Duration` -/
def sub (a b : Int) : Int :=
  let d := a - b
  if d > maxDur then maxDur else if d < minDur then minDur else d

/-- the scan of `RemoveOldestDatum`: first label value with the strictly smallest time
    (`oldestLV == nil || lv.time.Before(oldest.time)`) -/
def oldestOf (tm : V → Int) : Option (LV V) → List (LV V) → Option (LV V)
  | cur, [] => cur
  | none, lv :: rest => oldestOf tm (some lv) rest
  | some o, lv :: rest => if tm lv.value < tm o.value then oldestOf tm (some lv) rest else oldestOf tm (some o) rest

/-- `RemoveOldestDatum` (a failing `RemoveDatum` is only logged) -/
def removeOldest (tm : V → Int) (m : Metric V) : Metric V :=
  match oldestOf tm none m.lvs with
  | none => m
  | some lv => match removeDatum m lv.labels with
    | .ok m' => m'
    | .error _ => m

/-- `for i := len(m.LabelValues); i > m.Limit; i-- { m.RemoveOldestDatum() }` -/
def limitLoop (tm : V → Int) (limit : Nat) : Nat → Metric V → Metric V
  | i, m => if i > limit then
      match i with
      | 0 => m
      | i'+1 => limitLoop tm limit i' (removeOldest tm m)
    else m

def limitPhase (tm : V → Int) (limit : Int) (m : Metric V) : Metric V :=
  if limit > 0 ∧ (m.lvs.length : Int) ≥ limit then limitLoop tm limit.toNat m.lvs.length m else m

def expired (tm : V → Int) (now : Int) (lv : LV V) : Bool :=
  !(lv.expiry ≤ 0) && decide (sub now (tm lv.value) > lv.expiry)

/-- the expiry walk: `for i := 0; i < len; i++ { … RemoveDatum; i-- }`; `fuel` bounds the
    number of iterations (each either advances `i` or shortens the slice) -/
def expLoop (tm : V → Int) (now : Int) : Nat → Nat → Metric V → Except Err (Metric V)
  | 0, _, m => .ok m
  | fuel+1, i, m =>
    match m.lvs[i]? with
    | none => .ok m
    | some lv =>
      if expired tm now lv then
        match removeDatum m lv.labels with
        | .ok m' => expLoop tm now fuel i m'        -- `i--` then `i++`
        | .error e => .error e
      else expLoop tm now fuel (i + 1) m

/-- the closure passed to `Range` by `Store.Gc` -/
def gc (tm : V → Int) (now : Int) (limit : Int) (m : Metric V) : Except Err (Metric V) :=
  let m1 := limitPhase tm limit m
  expLoop tm now (m1.lvs.length + 1) 0 m1

/-! ### specification on the ordered map -/

def oldestS (tm : V → Int) : Option (Entry V) → Spec V → Option (Entry V)
  | cur, [] => cur
  | none, e :: rest => oldestS tm (some e) rest
  | some o, e :: rest => if tm e.value < tm o.value then oldestS tm (some e) rest else oldestS tm (some o) rest

def removeOldestS (tm : V → Int) (s : Spec V) : Spec V :=
  match oldestS tm none s with
  | none => s
  | some e => eraseS e.labels s

def dropOldest (tm : V → Int) : Nat → Spec V → Spec V
  | 0, s => s
  | n+1, s => dropOldest tm n (removeOldestS tm s)

def expiredS (tm : V → Int) (now : Int) (e : Entry V) : Bool :=
  !(e.expiry ≤ 0) && decide (sub now (tm e.value) > e.expiry)

/-- what the property prescribes: drop the oldest while over the limit, then drop exactly the
    entries whose expiry is set and whose last update is more than the expiry before `now` -/
def Spec.gc (tm : V → Int) (now : Int) (limit : Int) (s : Spec V) : Spec V :=
  let s1 := if limit > 0 ∧ (s.length : Int) ≥ limit then dropOldest tm (s.length - limit.toNat) s else s
  s1.filter (fun e => !expiredS tm now e)

end MtailVerif.Gc
