import MtailVerif.Generated.Access
/-! Lockset discipline over the access table regenerated from the Go source
    (`Generated/Access.lean`): which accesses to shared metric state can be in progress at the same
    time, given the locks each one holds (sync.RWMutex semantics: an exclusive holder excludes every
    other holder of that lock; shared holders coexist). -/
namespace MtailVerif.Lockset

inductive Kind | r | w | a
deriving DecidableEq, Repr

structure Acc where
  root : Nat                         -- index into `Generated.Access.rootNames`
  loc : Nat                          -- index into `locNames`
  kind : Kind
  locks : List (Nat × Bool)          -- (lock class, held exclusively)
deriving DecidableEq, Repr

def ofRow (x : Nat × Nat × Nat × List (Nat × Bool)) : Acc :=
  { root := x.1, loc := x.2.1, kind := (if x.2.2.1 = 1 then .w else if x.2.2.1 = 2 then .a else .r),
    locks := x.2.2.2 }

/-- the table of the current source -/
def table : List Acc := Generated.Access.table.map ofRow

/-- roots of which several instances can run at once (HTTP handlers prom=2 varz=3 graphite=4, push=5,
    json=6); the VM (0), the GC loop (1) and the loader (7) are single goroutines per program / store -/
def multi : List Nat := [2, 3, 4, 5, 6]

/-- Go memory model: two accesses to one location conflict unless both are reads or both atomic -/
def racePair (a b : Acc) : Bool :=
  a.loc == b.loc && !(a.kind == .r && b.kind == .r) && !(a.kind == .a && b.kind == .a)

/-- the two locksets cannot be held at the same time: some lock is in both, exclusively in one -/
def exclude (a b : Acc) : Bool :=
  a.locks.any fun la => b.locks.any fun lb => la.1 == lb.1 && (la.2 || lb.2)

/-- can accesses `a` and `b` belong to two different goroutines? -/
def concurrent (a b : Acc) : Bool := a.root != b.root || multi.contains a.root

def pairOK (a b : Acc) : Bool := !(concurrent a b && racePair a b) || exclude a b

def conflictFree (t : List Acc) : Bool := t.all fun a => t.all fun b => pairOK a b

/-- the offending pairs, for the report -/
def conflicts (t : List Acc) : List (Acc × Acc) :=
  t.flatMap fun a => (t.filter fun b => !pairOK a b).map fun b => (a, b)

/-! ### semantics: goroutines entering and leaving accesses -/

/-- one slot per goroutine: the access it is inside, if any -/
abbrev St := List (Option Acc)

/-- lock compatibility of RWMutex: `a` may be entered while `b` is in progress -/
def compat (a b : Acc) : Bool := !exclude a b

inductive Act
  | enter (i : Nat) (a : Acc)
  | leave (i : Nat)

def others (s : St) (i : Nat) : List Acc :=
  (s.zipIdx.filterMap fun p => if p.2 = i then none else p.1)

def step (s : St) : Act → Option St
  | .enter i a =>
    match s[i]? with
    | some none => if (others s i).all (compat a) then some (s.set i (some a)) else none
    | _ => none
  | .leave i =>
    match s[i]? with
    | some (some _) => some (s.set i none)
    | _ => none

def run : St → List Act → Option St
  | s, [] => some s
  | s, x :: xs => (step s x).bind (fun s' => run s' xs)

end MtailVerif.Lockset
