import MtailVerif.Generated.Lexer
/-! Model of the lexer (internal/runtime/compiler/parser/lexer.go): the state functions lexProg,
    lexComment, lexNumeric, lexDuration, lexQuotedString, lexCapref, lexIdentifier, lexRegex and
    lexDecorator over a rune sequence, with the read cursor (current rune, width, line, column,
    start column, token text) exactly as the code keeps it — including what `backup` restores,
    what `skip`/`ignore` do to the start column, and the rune U+2424 being read as end of file.

    Input: runes as the bufio reader delivers them (code point, width in bytes — 1 for an invalid
    byte read as U+FFFD — and the unicode class: 1 letter, 2 digit, 3 space, 0 other).
    `nextToken` is one call of Lexer.NextToken, with the value of the parser-controlled InRegex
    flag at the time of the call.  It is defined by well-founded recursion on the remaining input:
    that Lean accepts the definition is the proof that every request for a token returns. -/
namespace MtailVerif.Lexer

structure R where
  code : Nat
  width : Nat
  cls : Nat
deriving Repr, DecidableEq, Inhabited

inductive K
  | NL | LCURLY | RCURLY | LPAREN | RPAREN | LSQUARE | RSQUARE | COMMA | DEC | MINUS | INC | ADD_ASSIGN
  | PLUS | POW | MUL | EQ | MATCH | ASSIGN | LE | SHL | LT | GE | SHR | GT | NE | NOT_MATCH | DIV | MOD
  | AND | BITAND | OR | BITOR | XOR | NOT | EOF | INVALID | INTLITERAL | FLOATLITERAL | DURATIONLITERAL
  | STRING | CAPREF | CAPREF_NAMED | BUILTIN | ID | REGEX | DECO
  | KW (tokenName : String)
deriving Repr, DecidableEq, Inhabited

structure Tok where
  kind : K
  text : List Nat      -- the spelling, as runes; for INVALID the text the message quotes
  err : Nat := 0       -- INVALID: 1 unexpected input, 2 unterminated string, 3 unterminated regex
  errRune : Nat := 0   -- the rune an "Unexpected input" message names
  line : Nat
  startcol : Nat
  endcol : Int
deriving Repr, DecidableEq, Inhabited

/-- the read cursor -/
structure C where
  rune : Option R := none     -- none: eof
  width : Nat := 0
  line : Nat := 0
  col : Nat := 0
  startcol : Nat := 0
  text : List Nat := []
deriving Repr, Inhabited

def code (c : C) : Int := match c.rune with | some r => r.code | none => -1
def isDigitC (c : C) : Bool := match c.rune with | some r => r.cls == 2 | none => false
def isAlphaC (c : C) : Bool := match c.rune with | some r => r.cls == 1 | none => false
def isSpaceC (c : C) : Bool := match c.rune with | some r => r.cls == 3 | none => false
def isWordC (c : C) : Bool := isAlphaC c || isDigitC c || code c == 95
def isDurSuffix (r : Int) : Bool := r == 115 || r == 109 || r == 104 || r == 100
def isDurC (c : C) : Bool := isDigitC c || code c == 46 || code c == 45 || code c == 43 || isDurSuffix (code c)

def C.step (c : C) : C :=
  if code c == 10 then { c with line := c.line + 1, col := 0 } else { c with col := c.col + c.width }
def C.push (c : C) (r : Nat) : C := { c with text := c.text ++ [r] }
def C.accept (c : C) : C := (c.push (match c.rune with | some r => r.code | none => 0xFFFD)).step
def C.skip (c : C) : C := c.step
def C.ignore (c : C) : C := let c := c.step; { c with startcol := c.col }
def C.emit (c : C) (k : K) : Tok × C :=
  ({ kind := k, text := c.text, line := c.line, startcol := c.startcol, endcol := (c.col : Int) - 1 },
   { c with text := [], startcol := c.col })
def C.errorf (c : C) (e : Nat) (r : Nat) (quoted : List Nat) : Tok × C :=
  ({ kind := .INVALID, text := quoted, err := e, errRune := r, line := c.line, startcol := c.startcol,
     endcol := (c.col : Int) - 1 },
   { c with text := [], startcol := c.col })

/-- ReadRune delivered `r` -/
def read (r : R) (c : C) : C :=
  if r.code == 0x2424 then { c with rune := none, width := r.width } else { c with rune := some r, width := r.width }
/-- ReadRune reported end of input -/
def readEOF (c : C) : C := { c with rune := none, width := 1 }
def nextR (inp : List R) (c : C) : List R × C :=
  match inp with
  | [] => ([], readEOF c)
  | r :: rest => (rest, read r c)
/-- backup -/
def unread (c : C) (inp : List R) : List R × C :=
  match c.rune with
  | none => (inp, { c with width := 0 })
  | some r => (r :: inp, { c with width := 0 })

abbrev Out := Tok × List R × C

def emitAt (c : C) (k : K) (inp : List R) : Out := let (t, c) := c.emit k; (t, inp, c)

/-- `for { r := next(); if p(r) { accept } else { backup; break } }` -/
def wordLoop (p : C → Bool) : List R → C → List R × C
  | [], c => unread (readEOF c) []
  | r :: rest, c =>
    let c1 := read r c
    if p c1 then wordLoop p rest c1.accept else unread c1 rest

/-- the loop of lexCapref, which also notes whether a non-digit was accepted -/
def caprefLoop : List R → C → Bool → List R × C × Bool
  | [], c, named => let (i, c) := unread (readEOF c) []; (i, c, named)
  | r :: rest, c, named =>
    let c1 := read r c
    if isWordC c1 then caprefLoop rest c1.accept (named || !isDigitC c1)
    else let (i, c) := unread c1 rest; (i, c, named)

/-- `for isDigit(r) { accept; r = next() }` with `r` the current rune -/
def digitsLoop : List R → C → List R × C
  | [], c => if isDigitC c then ([], readEOF c.accept) else ([], c)
  | r :: rest, c => if isDigitC c then digitsLoop rest (read r c.accept) else (r :: rest, c)

def lexDuration (inp : List R) (c : C) : Out :=
  let (i, c) := wordLoop isDurC inp c
  emitAt c .DURATIONLITERAL i

/-- lexNumeric after the exponent part -/
def numEnd (i : List R) (c : C) : Out :=
  if isDurSuffix (code c) then lexDuration i c.accept
  else
    let (i, c) := unread c i
    emitAt c .FLOATLITERAL i

/-- the optional exponent: `e`/`E`, a sign, digits -/
def numExp (i : List R) (c : C) : List R × C :=
  if code c == 101 || code c == 69 then
    let x := nextR i c.accept
    let y := if code x.2 == 43 || code x.2 == 45 then nextR x.1 x.2.accept else x
    digitsLoop y.1 y.2
  else (i, c)

/-- the optional fraction: `.`, digits -/
def numFrac (i : List R) (c : C) : List R × C :=
  if code c == 46 then
    let x := nextR i c.accept
    digitsLoop x.1 x.2
  else (i, c)

/-- lexNumeric after the leading digits, `c` holding the first rune that is not one -/
def numTail (i : List R) (c : C) : Out :=
  let r := code c
  if r != 46 && r != 69 && r != 101 && !isDurSuffix r then
    let (i, c) := unread c i
    emitAt c .INTLITERAL i
  else
    let x := numFrac i c
    let y := numExp x.1 x.2
    numEnd y.1 y.2

def lexNumeric (inp : List R) (c : C) : Out :=
  let x := nextR inp c
  let y := digitsLoop x.1 x.2
  numTail y.1 y.2

/-- the loops of lexQuotedString (`close` = '"', error 2) and lexRegex (`close` = '/', error 3,
    the closing slash is backed up) -/
def quotedLoop (close : Nat) (isRegex : Bool) : List R → C → Out
  | [], c =>
    let c := readEOF c
    let (t, c) := c.errorf (if isRegex then 3 else 2) 0 c.text; (t, [], c)
  | r :: rest, c =>
    let c1 := read r c
    if code c1 == 92 then
      let c2 := c1.skip
      match rest with
      | [] =>
        let c3 := readEOF c2
        let (t, c) := c3.errorf (if isRegex then 3 else 2) 0 c3.text; (t, [], c)
      | r2 :: rest2 =>
        let c3 := read r2 c2
        if code c3 != -1 && code c3 != 10 then
          let c4 := if code c3 != close then c3.push 92 else c3
          quotedLoop close isRegex rest2 c4.accept
        else
          let (t, c) := c3.errorf (if isRegex then 3 else 2) 0 c3.text; (t, rest2, c)
    else if code c1 == -1 || code c1 == 10 then
      let (t, c) := c1.errorf (if isRegex then 3 else 2) 0 c1.text; (t, rest, c)
    else if code c1 == close then
      if isRegex then
        let (i, c) := unread c1 rest
        emitAt c .REGEX i
      else emitAt c1.skip .STRING rest
    else quotedLoop close isRegex rest c1.accept

def lexQuotedString (inp : List R) (c : C) : Out := quotedLoop 34 false inp c.skip
def lexRegex (inp : List R) (c : C) : Out := quotedLoop 47 true inp c

def lexCapref (inp : List R) (c : C) : Out :=
  let (i, c, named) := caprefLoop inp c.skip false
  emitAt c (if named then .CAPREF_NAMED else .CAPREF) i

def lexDecorator (inp : List R) (c : C) : Out :=
  let (i, c) := wordLoop isWordC inp c.skip
  emitAt c .DECO i

def spell (t : List Nat) : String := String.ofList (t.map Char.ofNat)

def identKind (t : List Nat) : K :=
  let s := spell t
  match Generated.Lexer.keywords.find? (fun (kw : String × String) => kw.1 == s) with
  | some kw => .KW kw.2
  | none => if Generated.Lexer.builtins.contains s then .BUILTIN else .ID

def lexIdentifier (inp : List R) (c : C) : Out :=
  let (i, c) := wordLoop isWordC inp c.accept
  emitAt c (identKind c.text) i

/-- lexComment: returns the input and cursor with which lexProg runs next -/
def commentLoop : List R → C → List R × C
  | [], c => ([], readEOF c)
  | r :: rest, c =>
    let c1 := read r c
    if code c1 == 10 then (rest, c1.skip)
    else if code c1 == -1 then (rest, c1)
    else commentLoop rest c1.ignore

theorem commentLoop_le : ∀ (inp : List R) (c : C), (commentLoop inp c).1.length ≤ inp.length
  | [], _ => by simp [commentLoop]
  | r :: rest, c => by
    rw [commentLoop]
    split
    · simp
    · split
      · simp
      · exact Nat.le_succ_of_le (commentLoop_le rest _)

/-- a two-rune operator: after accepting the first rune, the next rune decides -/
def twoRune (rest : List R) (c1 : C) (alts : List (Int × K)) (dflt : Option K) (errRune : Nat) : Out :=
  let x := nextR rest c1.accept
  match alts.find? (fun a => a.1 == code x.2) with
  | some a => emitAt x.2.accept a.2 x.1
  | none =>
    let y := unread x.2 x.1
    match dflt with
    | some k => emitAt y.2 k y.1
    | none => let (t, c) := y.2.errorf 1 errRune []; (t, y.1, c)

/-- the runes that are a token by themselves -/
def singles : List (Int × K) :=
  [(123, .LCURLY), (125, .RCURLY), (40, .LPAREN), (41, .RPAREN), (91, .LSQUARE), (93, .RSQUARE), (44, .COMMA),
   (47, .DIV), (37, .MOD), (94, .XOR), (126, .NOT)]

/-- first rune, (second rune, kind) alternatives, the kind of the first rune alone (none: an error
    naming the first rune) -/
def doubles : List (Int × List (Int × K) × Option K) :=
  [(43, [(43, .INC), (61, .ADD_ASSIGN)], some .PLUS), (42, [(42, .POW)], some .MUL),
   (61, [(61, .EQ), (126, .MATCH)], some .ASSIGN), (60, [(61, .LE), (60, .SHL)], some .LT),
   (62, [(61, .GE), (62, .SHR)], some .GT), (33, [(61, .NE), (126, .NOT_MATCH)], none),
   (38, [(38, .AND)], some .BITAND), (124, [(124, .OR)], some .BITOR)]

/-- `-`: `--`, a negative number, or minus -/
def lexMinus (rest : List R) (c1 : C) : Out :=
  let x := nextR rest c1.accept
  if code x.2 == 45 then emitAt x.2.accept .DEC x.1
  else if isDigitC x.2 then
    let y := unread x.2 x.1
    lexNumeric y.1 y.2
  else
    let y := unread x.2 x.1
    emitAt y.2 .MINUS y.1

/-- a digit or `.`: back up and lex a number -/
def lexNumberFrom (rest : List R) (c1 : C) : Out :=
  let y := unread c1 rest
  lexNumeric y.1 y.2

/-- lexProg on a rune that is not a newline, `#` or white space -/
def lexOther (r : R) (rest : List R) (c1 : C) : Out × Bool :=
  let x := code c1
  match singles.find? (fun a => a.1 == x) with
  | some a => (emitAt c1.accept a.2 rest, false)
  | none =>
    if x == 45 then (lexMinus rest c1, false)
    else
      match doubles.find? (fun a => a.1 == x) with
      | some a => (twoRune rest c1 a.2.1 a.2.2 x.toNat, false)
      | none =>
        if x == 34 then (lexQuotedString rest c1, false)
        else if x == 36 then (lexCapref rest c1, false)
        else if x == 64 then (lexDecorator rest c1, false)
        else if isDigitC c1 then (lexNumberFrom rest c1, false)
        else if isAlphaC c1 then (lexIdentifier rest c1, false)
        else if x == -1 then (emitAt c1.skip .EOF rest, true)
        else if x == 46 then (lexNumberFrom rest c1, false)
        else
          let (t, c) := c1.accept.errorf 1 r.code []; ((t, rest, c), false)

/-- One call of NextToken.  The last component says that the machine has stopped (EOF emitted). -/
def nextToken (inp : List R) (c : C) (inRegex : Bool) : Out × Bool :=
  if inRegex then (lexRegex inp c, false) else
  match inp with
  | [] => (emitAt (readEOF c).skip .EOF [], true)
  | r :: rest =>
    if code (read r c) == 10 then (emitAt (read r c).accept .NL rest, false)
    else if code (read r c) == 35 then
      have : (commentLoop rest (read r c).ignore).1.length < (r :: rest).length :=
        Nat.lt_succ_of_le (commentLoop_le rest (read r c).ignore)
      nextToken (commentLoop rest (read r c).ignore).1 (commentLoop rest (read r c).ignore).2 false
    else if isSpaceC (read r c) then nextToken rest (read r c).ignore false
    else lexOther r rest (read r c)
termination_by inp.length

end MtailVerif.Lexer
