/-! Model of the constant folder (internal/runtime/compiler/opt/opt.go) and of the typed
    evaluation of arithmetic that the checker + code generator + VM implement (type = least
    upper bound of int and float; the int side of a mixed operation is converted with `i2f`;
    integer operations wrap at 64 bits; integer `**` goes through float `Pow`).

    Float arithmetic is an abstract structure `FOps`: the folder and the VM call the same Go
    operations, so the same symbol appears on both sides of every statement. -/
namespace MtailVerif.Fold

inductive Op | plus | minus | mul | div | mod | pow
deriving DecidableEq, Repr

structure FOps (F : Type) where
  add : F → F → F
  sub : F → F → F
  mul : F → F → F
  div : F → F → F
  mod : F → F → F
  pow : F → F → F
  ofInt : Int → F
  toInt : F → Int          -- Go's int64(f)
  isZero : F → Bool        -- `f == 0`

/-- wrap into the int64 range (Go's two's-complement overflow) -/
def wrap (x : Int) : Int := ((x + 9223372036854775808) % 18446744073709551616) - 9223372036854775808

/-- Go's truncated division and remainder -/
def tdiv (a b : Int) : Int := Int.tdiv a b
def tmod (a b : Int) : Int := Int.tmod a b

variable {F : Type}

def fop (o : FOps F) : Op → F → F → F
  | .plus => o.add | .minus => o.sub | .mul => o.mul | .div => o.div | .mod => o.mod | .pow => o.pow

/-- integer operation for a non-zero divisor (the zero case is handled by the callers) -/
def iop (o : FOps F) : Op → Int → Int → Int
  | .plus, a, b => wrap (a + b)
  | .minus, a, b => wrap (a - b)
  | .mul, a, b => wrap (a * b)
  | .div, a, b => wrap (tdiv a b)
  | .mod, a, b => tmod a b
  | .pow, a, b => o.toInt (o.pow (o.ofInt a) (o.ofInt b))

/-- expressions: literals, typed non-constant leaves (capture groups, metrics, …), arithmetic -/
inductive E (F : Type)
  | int (i : Int)
  | float (f : F)
  | ivar (k : Nat)
  | fvar (k : Nat)
  | bin (op : Op) (a b : E F)
deriving Repr, DecidableEq

inductive Val (F : Type)
  | i (n : Int)
  | f (x : F)
deriving Repr, DecidableEq

structure Env (F : Type) where
  ints : Nat → Int
  floats : Nat → F

/-- typed evaluation; `none` = the VM's checked "divide by zero" runtime error -/
def eval (o : FOps F) (env : Env F) : E F → Option (Val F)
  | .int i => some (.i i)
  | .float f => some (.f f)
  | .ivar k => some (.i (env.ints k))
  | .fvar k => some (.f (env.floats k))
  | .bin op a b =>
    match eval o env a, eval o env b with
    | some (.i x), some (.i y) =>
      if (op = .div ∨ op = .mod) ∧ y = 0 then none else some (.i (iop o op x y))
    | some (.i x), some (.f y) => some (.f (fop o op (o.ofInt x) y))
    | some (.f x), some (.i y) => some (.f (fop o op x (o.ofInt y)))
    | some (.f x), some (.f y) => some (.f (fop o op x y))
    | _, _ => none

inductive FoldErr | divZero | modZero
deriving DecidableEq, Repr

/-- what `VisitAfter` does to a binary node whose operands have already been folded;
    `bugIntModFloat` mirrors the unrepaired `rhs.F = math.Mod(...)` (result left at 0.0) -/
def foldNode (o : FOps F) (zero : F) (intModFloatOk : Bool) (op : Op) : E F → E F → Except FoldErr (E F)
  | .int x, .int y =>
    if op = .div ∧ y = 0 then .error .divZero
    else if op = .mod ∧ y = 0 then .error .modZero
    else .ok (.int (iop o op x y))
  | .int x, .float y =>
    if op = .div ∧ o.isZero y then .error .divZero
    else if op = .mod ∧ o.isZero y then .error .modZero
    else if op = .mod ∧ !intModFloatOk then .ok (.float zero)
    else .ok (.float (fop o op (o.ofInt x) y))
  | .float x, .int y =>
    if op = .div ∧ y = 0 then .error .divZero
    else if op = .mod ∧ y = 0 then .error .modZero
    else .ok (.float (fop o op x (o.ofInt y)))
  | .float x, .float y =>
    if op = .div ∧ o.isZero y then .error .divZero
    else if op = .mod ∧ o.isZero y then .error .modZero
    else .ok (.float (fop o op x y))
  | a, b => .ok (.bin op a b)

/-- `ast.Walk` with the optimiser: children first, then the node -/
def fold (o : FOps F) (zero : F) (ok : Bool) : E F → Except FoldErr (E F)
  | .bin op a b =>
    match fold o zero ok a, fold o zero ok b with
    | .ok a', .ok b' => foldNode o zero ok op a' b'
    | .error e, _ => .error e
    | _, .error e => .error e
  | e => .ok e

/-- static type: int unless a float is involved -/
def isIntTyped : E F → Bool
  | .int _ => true
  | .float _ => false
  | .ivar _ => true
  | .fvar _ => false
  | .bin _ a b => isIntTyped a && isIntTyped b

/-- the checker's own literal-zero rule (checker.go, arithmetic case): `x / 0` or `x % 0` is
    rejected when the divisor is the integer literal 0 *and was not wrapped in a conversion*,
    i.e. when the dividend is int-typed too -/
def checkerRejects : E F → Bool
  | .bin op a b =>
    checkerRejects a || checkerRejects b ||
    ((op = .div || op = .mod) && isIntTyped a && (match b with | .int 0 => true | _ => false))
  | _ => false

end MtailVerif.Fold
