/-! # The line dispatcher and a reload, at the level of the handle lock

    `runtime.New`'s goroutine takes the handle table's read lock, hands the line to every program's
    channel and releases the lock; `CompileAndRun` takes the write lock, closes the old version's
    channel, installs the new handle and releases.  One program is enough to see what the read
    lock is for.  `underLock = true` is the code; `false` is a dispatcher that copies the channels
    under the lock and sends after releasing it. -/
namespace MtailVerif.DispatchRace

structure S where
  gen : Nat := 0                 -- generation in the handle table
  closed : List Nat := []        -- generations whose channel has been closed
  dLocked : Bool := false        -- the dispatcher holds the read lock
  target : Option Nat := none    -- the channel (by generation) the dispatcher is about to send on
  lLocked : Bool := false        -- a loader holds the write lock
  sent : List Nat := []          -- generation each line was handed to, latest first
  bad : Bool := false            -- a send on a closed channel (a panic that ends the process)
deriving Repr, DecidableEq

inductive Act | dLock | dSnap | dSend | dUnlock | lLock | lSwap | lUnlock
deriving Repr, DecidableEq

/-- one step; an action that is not enabled leaves the state as it is -/
def step (underLock : Bool) (s : S) : Act → S
  | .dLock => if !s.lLocked && !s.dLocked && s.target.isNone then { s with dLocked := true } else s
  | .dSnap => if s.dLocked && s.target.isNone then { s with target := some s.gen } else s
  | .dSend =>
    match s.target with
    | none => s
    | some g =>
      if underLock && !s.dLocked then s
      else if !underLock && s.dLocked then s
      else if g ∈ s.closed then { s with bad := true, target := none }
      else { s with sent := g :: s.sent, target := none }
  | .dUnlock =>
    if !s.dLocked then s
    else if underLock && s.target.isSome then s      -- the code releases after the sends
    else { s with dLocked := false }
  | .lLock => if !s.lLocked && !s.dLocked then { s with lLocked := true } else s
  | .lSwap => if s.lLocked then { s with closed := s.gen :: s.closed, gen := s.gen + 1 } else s
  | .lUnlock => { s with lLocked := false }

def run (underLock : Bool) (s : S) (as : List Act) : S := as.foldl (step underLock) s

end MtailVerif.DispatchRace
