/-! Model for C12: the lock / emitter-goroutine skeleton of each exporter loop
    (`Exporter.Collect`, `writeSocketMetrics`, `HandleVarz`, `HandleGraphite`).

    The skeleton of each loop is *regenerated from the Go AST* (`Generated/ExportLocks.lean`);
    this file gives skeletons a semantics and a syntactic safety check.  The semantics is
    nondeterministic: every `if` may or may not be taken (that is the fault plan: which label
    set is unrepresentable, which write fails, where the request is cancelled), and a metric
    may have any number of label sets. -/
namespace MtailVerif.ExportLocks

inductive Stmt
  | rlock                      -- m.RLock()
  | runlock                    -- m.RUnlock()
  | spawn                      -- go m.EmitLabelSets(ch)
  | ret                        -- return
  | cont                       -- continue (inside the receive loop)
  | drain                      -- for range ch {}
  | ifs (body : List Stmt)     -- if … { body }   (also: one arm of a select / else branch)
  | loop (body : List Stmt)    -- for x := range ch { body }
  | relock                     -- takes the metric's lock again (a locking method of Metric, or
                               --   formatting the metric, which calls Metric.String → RLock)
  | wait                       -- a loop with no bound of its own (`for cond { … }`, `for { … }`: a
                               --   retry or polling loop): it may go on for as long as the
                               --   outside world pleases
  | other                      -- anything that touches neither the lock nor the channel
deriving Repr

inductive Chan | none | open | closed
deriving DecidableEq, Repr

/-- abstract state of the analysis -/
structure A where
  held : Bool
  ch : Chan
deriving DecidableEq, Repr

/-! `check lp prog s`: `none` = possibly unsafe; `some none` = safe and never falls through;
    `some (some s')` = safe and may fall through in state `s'`.
    `lp` is the abstract state at the head of the enclosing receive loop, if any. -/
mutual
def check (lp : Option A) : List Stmt → A → Option (Option A)
  | [], s => some (some s)
  | st :: rest, s =>
    match checkS lp st s with
    | none => none
    | some none => some none
    | some (some s') => check lp rest s'
def checkS (lp : Option A) : Stmt → A → Option (Option A)
  | .rlock, s => if s.held then none else some (some { s with held := true })
  | .runlock, s => if s.held then some (some { s with held := false }) else none
  | .spawn, s => if s.ch = .none then some (some { s with ch := .open }) else none
  | .ret, s => if s.held = false ∧ s.ch ≠ .open then some none else none
  | .cont, s => match lp with
    | some l => if s = l then some none else none
    | none => none
  | .drain, s => if s.ch = .open then some (some { s with ch := .closed }) else none
  | .ifs body, s =>
    match check lp body s with
    | none => none
    | some none => some (some s)
    | some (some s') => if s' = s then some (some s) else none
  | .loop body, s =>
    if s.ch = .open ∧ lp = none then
      match check (some s) body s with
      | none => none
      | some none => some (some { s with ch := .closed })
      | some (some s') => if s' = s then some (some { s with ch := .closed }) else none
    else none
  | .relock, s => if s.held then none else some (some s)
  | .wait, s => if s.held then none else some (some s)
  | .other, s => some (some s)
end

/-- a skeleton is safe when, started unlocked with no emitter, every way out leaves the lock
    released and no emitter mid-channel -/
def safe (prog : List Stmt) : Bool :=
  match check none prog ⟨false, .none⟩ with
  | some none => true
  | some (some s) => s.held = false && s.ch ≠ .open
  | none => false

/-! ### concrete semantics -/

inductive Emitter
  | none                       -- not started
  | running (pending : Nat)    -- has `pending` label sets still to send on the unbuffered channel
  | done                       -- sent everything, closed the channel, exited
deriving DecidableEq, Repr

structure C where
  readers : Nat                -- read locks on the metric held by this export attempt
  em : Emitter
  /-- an RUnlock without a matching RLock (a Go runtime fatal error), or a second lock
      acquisition while the read lock is held (sync.RWMutex is not re-entrant: with a writer
      queued in between, both wait forever), or an unbounded wait entered while the read lock is
      held (every writer of the metric, that is the VM processing lines, waits as long) -/
  underflow : Bool := false
deriving Repr, DecidableEq

inductive Outcome
  | fall (c : C)               -- reached the end of the statement list
  | returned (c : C)           -- the closure returned
  | continued (c : C)          -- `continue`
deriving Repr, DecidableEq

/-! Executable semantics.  `n` = number of label sets of the metric being exported; `choices`
    is the fault plan: the i-th `if` reached is taken iff the i-th element is `true` (an
    exhausted plan means "no further fault").  `fuel` bounds the number of steps; `none` means
    the fuel ran out (never the case for `fuel ≥ (n+2) * size`, and theorems hold for every
    run that finishes). -/
mutual
def exec (n : Nat) : Nat → List Stmt → C → List Bool → Option (Outcome × List Bool)
  | 0, _, _, _ => none
  | _+1, [], c, ch => some (.fall c, ch)
  | f+1, st :: rest, c, ch =>
    match st with
    | .rlock => exec n f rest { c with readers := c.readers + 1 } ch
    | .runlock =>
      if c.readers = 0 then exec n f rest { c with underflow := true } ch
      else exec n f rest { c with readers := c.readers - 1 } ch
    | .spawn => exec n f rest { c with em := .running n } ch
    | .ret => some (.returned c, ch)
    | .cont => some (.continued c, ch)
    | .drain => exec n f rest { c with em := .done } ch
    | .other => exec n f rest c ch
    | .relock =>
      if c.readers = 0 then exec n f rest c ch else exec n f rest { c with underflow := true } ch
    | .wait =>
      if c.readers = 0 then exec n f rest c ch else exec n f rest { c with underflow := true } ch
    | .ifs body =>
      match ch with
      | [] => exec n f rest c []
      | false :: ch' => exec n f rest c ch'
      | true :: ch' =>
        match exec n f body c ch' with
        | some (.fall c', ch'') => exec n f rest c' ch''
        | r => r
    | .loop body =>
      match execLoop n f body c ch with
      | some (.fall c', ch') => exec n f rest c' ch'
      | r => r
/-- the receive loop: each iteration takes one label set from the emitter -/
def execLoop (n : Nat) : Nat → List Stmt → C → List Bool → Option (Outcome × List Bool)
  | 0, _, _, _ => none
  | f+1, body, c, ch =>
    match c.em with
    | .running 0 => some (.fall { c with em := .done }, ch)       -- channel closed
    | .running (k+1) =>
      match exec n f body { c with em := .running k } ch with
      | some (.fall c', ch') => execLoop n f body c' ch'
      | some (.continued c', ch') => execLoop n f body c' ch'
      | r => r
    | _ => none        -- ranging over a channel nobody sends on: blocks forever
end

/-- an emitter left with label sets to send after the closure has returned is blocked forever -/
def blocked (c : C) : Bool :=
  match c.em with
  | .running _ => true
  | _ => false

/-- the outcome the property demands of one export attempt on one metric -/
def Good (c : C) : Prop := c.readers = 0 ∧ blocked c = false ∧ c.underflow = false

/-- what the property demands of a finished run of an exporter closure -/
def GoodOutcome : Outcome → Prop
  | .fall c => Good c
  | .returned c => Good c
  | .continued _ => False

/-! ### the JSON export

    `HandleJSON` takes no lock itself; `json.MarshalIndent(e.store)` calls `(*Store).MarshalJSON`,
    which read-locks the store and every metric, encodes, and releases them in deferred calls.
    Its statements are regenerated from the source as `JTok`s. -/

inductive JTok
  | rlockStore          -- s.searchMu.RLock()
  | deferRUnlockStore   -- defer s.searchMu.RUnlock()
  | decl                -- ms := make(...)
  | collect             -- for _, ml := range s.Metrics { ms = append(ms, ml...) }
  | rlockAll            -- for _, m := range ms { m.RLock() }
  | deferRUnlockAll     -- defer func() { for _, m := range ms { m.RUnlock() } }()
  | retMarshal          -- return json.Marshal(ms)   (whether it succeeds or not)
  | unknown
deriving Repr, DecidableEq

/-- readers on the store's lock and on every metric's lock (the same count for each metric) -/
structure JSt where
  store : Int := 0
  metrics : Int := 0
  collected : Bool := false     -- `ms` holds every metric of the store
deriving Repr, DecidableEq

/-- a deferred call -/
def JSt.undo (s : JSt) : JTok → JSt
  | .deferRUnlockStore => { s with store := s.store - 1 }
  | .deferRUnlockAll => { s with metrics := s.metrics - 1 }
  | _ => s

/-- run to the `return`, then the deferred calls, last first.  `none`: a statement the model does
    not know, falling off the end, or metric locks taken before `ms` is complete.  The encoder's
    verdict (a value JSON cannot represent, for one) does not appear: the function returns its
    result unexamined, so every attempt takes this one path. -/
def runJ : List JTok → JSt → List JTok → Option JSt
  | [], _, _ => none
  | .retMarshal :: _, s, d => some (d.foldl JSt.undo s)
  | .rlockStore :: r, s, d => runJ r { s with store := s.store + 1 } d
  | .deferRUnlockStore :: r, s, d => runJ r s (.deferRUnlockStore :: d)
  | .decl :: r, s, d => runJ r s d
  | .collect :: r, s, d => runJ r { s with collected := true } d
  | .rlockAll :: r, s, d => if s.collected then runJ r { s with metrics := s.metrics + 1 } d else none
  | .deferRUnlockAll :: r, s, d => runJ r s (.deferRUnlockAll :: d)
  | .unknown :: _, _, _ => none

/-! ### the push connection

    `PushMetrics` dials a peer and hands the connection to `writeSocketMetrics`, which writes each
    line with the metric's read lock held.  A write to a peer that accepted and stopped reading
    returns only when a deadline set on the connection expires; so every call that can write must
    come after a call that sets one.  The calls are regenerated from the source, in order. -/

/-- calls on the connection that do not write to it -/
def connQuiet (c : String) : Bool :=
  c == "Dial" || c == "DialTimeout" || c == "DialContext" || c == "Close" || c == "SetDeadline" || c == "SetWriteDeadline" || c == "SetReadDeadline"

/-- calls that bound every later write -/
def connBounds (c : String) : Bool := c == "SetDeadline" || c == "SetWriteDeadline"

/-- `bounded` = a deadline has been set already -/
def deadlineBeforeWrites : Bool → List String → Bool
  | _, [] => true
  | bounded, c :: r =>
      if connBounds c then deadlineBeforeWrites true r
      else if connQuiet c then deadlineBeforeWrites bounded r
      else bounded && deadlineBeforeWrites bounded r

end MtailVerif.ExportLocks
