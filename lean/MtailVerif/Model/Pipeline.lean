import MtailVerif.Model.Bytes
/-! Transition system of a one-shot run (mtail.go, tailer/tail.go, runtime/runtime.go, vm.Run):
    file streams → per-stream forwarder → the shared (unbuffered) line channel → the runtime's
    fan-out → one VM per loaded program.

    Because every channel is unbuffered and has a single consumer, the order in which lines are
    taken off the shared channel (`arrived`) is the order every VM receives them; a VM processes
    a line completely before it accepts the next.  An action is one line moving one hop. -/
namespace MtailVerif.Pipeline
open MtailVerif

abbrev Line := Nat × Bytes      -- (file index, text)

structure St where
  remaining : List (List Bytes)   -- per file: lines not yet put on the shared channel
  arrived : List Line             -- lines taken off the shared channel, in arrival order
  done : List Nat                 -- per VM: how many of `arrived` it has processed
deriving Repr

inductive Act
  | emit (file : Nat)             -- the head line of a file goes through its forwarder to the fan-out
  | process (vm : Nat)            -- a VM finishes its next line
deriving Repr

def enabled (s : St) : Act → Bool
  | .emit i => match s.remaining[i]? with
    | some (_ :: _) => true      -- (the real fan-out is stricter: no VM is more than a line behind;
    | _ => false                  --  allowing more interleavings only strengthens the theorems)
  | .process v => match s.done[v]? with
    | some d => d < s.arrived.length
    | none => false

def step (s : St) : Act → St
  | .emit i => match s.remaining[i]? with
    | some (l :: rest) => { s with remaining := s.remaining.set i rest, arrived := s.arrived ++ [(i, l)] }
    | _ => s
  | .process v => match s.done[v]? with
    | some d => { s with done := s.done.set v (d + 1) }
    | none => s

def init (files : List (List Bytes)) (nvm : Nat) : St := ⟨files, [], List.replicate nvm 0⟩

/-- everything has been read and every VM has caught up: the channels close, the wait groups
    drain, `Run` returns -/
def final (s : St) : Bool := s.remaining.all (·.isEmpty) && s.done.all (· == s.arrived.length)

/-- the lines of file `i` within a sequence, in order -/
def projFile (i : Nat) (g : List Line) : List Bytes := (g.filter (·.1 = i)).map (·.2)

/-- measure for termination -/
def measure (s : St) : Nat :=
  (s.remaining.map (·.length)).sum * (s.done.length + 1) + (s.done.map (fun d => s.arrived.length - d)).sum

end MtailVerif.Pipeline
