import MtailVerif.Model.VM
/-! A bytecode verifier for the VM model: an abstract interpreter over representations
    (`bool | int64 | int | float64 | string | Duration | datum of metric m | metric m | unknown`)
    that accepts a program only if no instruction can meet an operand it does not accept, an
    empty stack, a bad constant/regexp/metric index, or a jump that is not forward and inside
    the program.  `Proofs/VMVerify.lean` proves it sound against `VM.step`.

    Abstract stacks describe the *top* of the concrete stack (expression statements leave their
    value behind, so the depth below is unknown); forgetting entries is always sound.

    `checkCert` is the verified part: it checks a per-pc certificate.  `infer` computes such a
    certificate in one forward pass (all of codegen's jumps go forward) and is not trusted. -/
namespace MtailVerif.VM.Verify
open MtailVerif MtailVerif.VM

inductive AV
  | top | bool | i64 | int | intc (n : Int) | f64 | str | dur | datum (m : Nat) | metric (m : Nat)
deriving DecidableEq, Repr

abbrev AStack := List AV
abbrev Cert := List (Option AStack)

def mtyp (p : Prog) (m : Nat) : Option Nat := (p.metrics[m]?).map (·.typ)
def mkeys (p : Prog) (m : Nat) : Option Nat := (p.metrics[m]?).map (·.nkeys)

/-- representations `PopInt` accepts -/
def apopInt (p : Prog) : AStack → Option AStack
  | .i64 :: r => some r
  | .int :: r => some r
  | .intc _ :: r => some r
  | .f64 :: r => some r
  | .bool :: r => some r
  | .str :: r => some r
  | .datum m :: r => if mtyp p m = some 0 then some r else none
  | _ => none

/-- representations `PopFloat` accepts -/
def apopFloat (p : Prog) : AStack → Option AStack
  | .f64 :: r => some r
  | .int :: r => some r
  | .intc _ :: r => some r
  | .i64 :: r => some r
  | .bool :: r => some r
  | .str :: r => some r
  | .datum m :: r => if mtyp p m = some 1 then some r else none
  | _ => none

def apopString (p : Prog) : AStack → Option AStack
  | .str :: r => some r
  | .f64 :: r => some r
  | .int :: r => some r
  | .intc _ :: r => some r
  | .i64 :: r => some r
  | .bool :: r => some r
  | .datum m :: r => if mtyp p m = some 2 then some r else none
  | _ => none

def apopKeys (p : Prog) : Nat → AStack → Option AStack
  | 0, s => some s
  | n+1, s => (apopString p s).bind (apopKeys p n)

/-- a jump target must be an `int` operand, forward, and at most the end of the program -/
def target (p : Prog) (pc : Nat) (i : Instr) : Option Nat :=
  match argInt i with
  | some n => if 0 ≤ n ∧ pc < n.toNat ∧ n.toNat ≤ p.code.length then some n.toNat else none
  | none => none

def cmpArgOK (i : Instr) : Bool :=
  match argInt i with
  | some n => n == -1 || n == 0 || n == 1
  | none => false

def isNum : AV → Bool
  | .f64 => true | .i64 => true | .int => true | .intc _ => true | .bool => true | _ => false

/-- successors of instruction `i` at `pc` from abstract stack `s`, or `none` if it may fault -/
def astep (p : Prog) (pc : Nat) (i : Instr) (s : AStack) : Option (List (Nat × AStack)) :=
  let nx := pc + 1
  let one := fun (s' : AStack) => some [(nx, s')]
  match i.op with
  | .bad => none
  | .stop => some []
  | .match =>
    (match argInt i with
     | some n => if 0 ≤ n ∧ n.toNat < p.nre then one (.bool :: s) else none
     | none => none)
  | .smatch =>
    (match argInt i with
     | some n => if 0 ≤ n ∧ n.toNat < p.nre then (apopString p s).bind (fun r => one (.bool :: r)) else none
     | none => none)
  | .cmp =>
    (match s with
     | b :: a :: r =>
       if cmpArgOK i ∧ ((isNum a ∧ (isNum b ∨ b = .str)) ∨ (a = .str ∧ b = .str)) then one (.bool :: r) else none
     | _ => none)
  | .icmp => if cmpArgOK i then ((apopInt p s).bind (apopInt p)).bind (fun r => one (.bool :: r)) else none
  | .fcmp => if cmpArgOK i then ((apopFloat p s).bind (apopFloat p)).bind (fun r => one (.bool :: r)) else none
  | .scmp => if cmpArgOK i then ((apopString p s).bind (apopString p)).bind (fun r => one (.bool :: r)) else none
  | .jnm | .jm =>
    (match s with
     | _ :: r => (target p pc i).map (fun tg => [(nx, r), (tg, r)])
     | [] => none)
  | .jmp => (target p pc i).map (fun tg => [(tg, s)])
  | .inc | .dec =>
    let s1 := match i.arg with | .none => some s | _ => apopInt p s
    s1.bind fun s1 =>
      match s1 with
      | .datum m :: r => if mtyp p m = some 0 then one (.i64 :: r) else none
      | _ => none
  | .iset =>
    (apopInt p s).bind fun s1 =>
      match s1 with
      | .datum m :: r => if mtyp p m = some 0 ∨ mtyp p m = some 3 then one r else none
      | _ => none
  | .fset =>
    (apopFloat p s).bind fun s1 =>
      match s1 with
      | .datum m :: r => if mtyp p m = some 1 ∨ mtyp p m = some 3 then one r else none
      | _ => none
  | .sset =>
    (apopString p s).bind fun s1 =>
      match s1 with
      | .datum m :: r => if mtyp p m = some 2 ∨ mtyp p m = some 3 then one r else none
      | _ => none
  | .strptime => (apopString p s).bind fun s1 => (apopString p s1).bind one
  | .timestamp => one (.i64 :: s)
  | .settime => (apopInt p s).bind one
  | .push =>
    (match i.arg with
     | .none => one (.top :: s)
     | .int n => one (.intc n :: s)
     | .bool _ => one (.bool :: s)
     | .i64 _ => one (.i64 :: s)
     | .f64 _ => one (.f64 :: s)
     | .dur _ => one (.dur :: s))
  | .capref =>
    (match s, argInt i with
     | .int :: r, some g => if 0 ≤ g then one (.str :: r) else none
     | .intc _ :: r, some g => if 0 ≤ g then one (.str :: r) else none
     | _, _ => none)
  | .str =>
    (match argInt i with
     | some n => if 0 ≤ n ∧ n.toNat < p.strs.length then one (.str :: s) else none
     | none => none)
  | .fadd | .fsub | .fmul | .fdiv | .fmod | .fpow =>
    ((apopFloat p s).bind (apopFloat p)).bind (fun r => one (.f64 :: r))
  | .iadd | .isub | .imul | .idiv | .imod | .ipow | .shl | .shr | .and | .or | .xor =>
    ((apopInt p s).bind (apopInt p)).bind (fun r => one (.i64 :: r))
  | .neg => (apopInt p s).bind (fun r => one (.i64 :: r))
  | .not =>
    (match s with
     | .bool :: r => one (.bool :: r)
     | _ => none)
  | .mload =>
    (match argInt i with
     | some n => if 0 ≤ n ∧ n.toNat < p.metrics.length then one (.metric n.toNat :: s) else none
     | none => none)
  | .dload =>
    (match s, argInt i with
     | .metric m :: r, some n =>
       if 0 ≤ n ∧ mkeys p m = some n.toNat then (apopKeys p n.toNat r).bind (fun r' => one (.datum m :: r')) else none
     | _, _ => none)
  | .iget =>
    (match s with
     | .datum m :: r => if mtyp p m = some 0 then one (.i64 :: r) else none
     | _ => none)
  | .fget =>
    (match s with
     | .datum m :: r => if mtyp p m = some 1 then one (.f64 :: r) else none
     | _ => none)
  | .sget =>
    (match s with
     | .datum m :: r => if mtyp p m = some 2 then one (.str :: r) else none
     | _ => none)
  | .del =>
    (match s, argInt i with
     | .metric m :: r, some n =>
       if 0 ≤ n ∧ mkeys p m = some n.toNat then (apopKeys p n.toNat r).bind one else none
     | _, _ => none)
  | .expire =>
    (match s, argInt i with
     | .metric m :: r, some n =>
       if 0 ≤ n ∧ mkeys p m = some n.toNat then
         (apopKeys p n.toNat r).bind fun r' =>
           match r' with
           | .dur :: r'' => one r''
           | _ => none
       else none
     | _, _ => none)
  | .tolower => (apopString p s).bind (fun r => one (.str :: r))
  | .length => (apopString p s).bind (fun r => one (.int :: r))
  | .s2i =>
    (match i.arg with
     | .none => (apopString p s).bind (fun r => one (.i64 :: r))
     | _ => ((apopInt p s).bind (apopString p)).bind (fun r => one (.i64 :: r)))
  | .s2f => (apopString p s).bind (fun r => one (.f64 :: r))
  | .i2f => (apopInt p s).bind (fun r => one (.f64 :: r))
  | .i2s => (apopInt p s).bind (fun r => one (.str :: r))
  | .f2s => (apopFloat p s).bind (fun r => one (.str :: r))
  | .setmatched =>
    (match i.arg with
     | .bool _ => one s
     | _ => none)
  | .otherwise => one (.bool :: s)
  | .getfilename => one (.str :: s)
  | .cat => ((apopString p s).bind (apopString p)).bind (fun r => one (.str :: r))
  | .subst => (((apopString p s).bind (apopString p)).bind (apopString p)).bind (fun r => one (.str :: r))
  | .rsubst =>
    (match s with
     | .intc n :: r =>
       if 0 ≤ n ∧ n.toNat < p.nre then ((apopString p r).bind (apopString p)).bind (fun r' => one (.str :: r')) else none
     | _ => none)

/-- `weak` describes no more than `strong`: a prefix, entry by entry equal or unknown -/
def le : AStack → AStack → Bool
  | [], _ => true
  | w :: ws, s :: ss => (w == .top || w == s) && le ws ss
  | _ :: _, [] => false

def certAt (c : Cert) (pc : Nat) : Option AStack := (c[pc]?).join

/-- the obligations at one pc -/
def checkAt (p : Prog) (c : Cert) (pc : Nat) (i : Instr) : Bool :=
  match certAt c pc with
  | none => true                         -- unreachable
  | some s =>
    match astep p pc i s with
    | none => false
    | some succs =>
      succs.all fun x =>
        decide (pc < x.1) &&            -- every jump goes forward: a line takes at most `code.length` steps
        if x.1 < p.code.length then
          match certAt c x.1 with
          | some w => le w x.2
          | none => false
        else true

def checkFrom (p : Prog) (c : Cert) : Nat → List Instr → Bool
  | _, [] => true
  | pc, i :: rest => checkAt p c pc i && checkFrom p c (pc + 1) rest

def metricsOK (p : Prog) : Bool := p.metrics.all (fun mi => mi.typ ≤ 3)

/-- the verified check: entry with nothing known about the stack, every reachable pc closed -/
def checkCert (p : Prog) (c : Cert) : Bool :=
  metricsOK p && (p.code.isEmpty || certAt c 0 == some []) && checkFrom p c 0 p.code

/-! ### certificate inference (untrusted) -/

def joinAV (a b : AV) : AV := if a = b then a else .top

def joinS : AStack → AStack → AStack
  | a :: as, b :: bs => joinAV a b :: joinS as bs
  | _, _ => []

def setAt (c : Cert) (pc : Nat) (s : AStack) : Cert :=
  match c[pc]? with
  | some (some old) => c.set pc (some (joinS old s))
  | some none => c.set pc (some s)
  | none => c

def avName : AV → String
  | .top => "unknown" | .bool => "bool" | .i64 => "int64" | .int => "int" | .intc _ => "int" | .f64 => "float64"
  | .str => "string" | .dur => "duration" | .datum _ => "datum" | .metric _ => "metric"

/-- a stable name for a rejection: the opcode and the representations of its top two operands -/
def why (i : Instr) (s : AStack) : String :=
  ((toString (repr i.op)).replace "MtailVerif.VM.Opcode." "") ++ "[" ++ ",".intercalate ((s.take 2).map avName) ++ "]"

def inferFrom (p : Prog) : Nat → List Instr → Cert → Except (Nat × String) Cert
  | _, [], c => .ok c
  | pc, i :: rest, c =>
    match certAt c pc with
    | none => inferFrom p (pc + 1) rest c
    | some s =>
      match astep p pc i s with
      | none => .error (pc, why i s)
      | some succs => inferFrom p (pc + 1) rest (succs.foldl (fun c x => setAt c x.1 x.2) c)

def verifyProg (p : Prog) : Except (Nat × String) Cert :=
  let c0 : Cert := (some []) :: List.replicate p.code.length none
  match inferFrom p 0 p.code c0 with
  | .error e => .error e
  | .ok c => if checkCert p c then .ok c else .error (0, "certificate-check-failed")

end MtailVerif.VM.Verify
