/-! Result plumbing of the compiler (internal/runtime/compiler/compiler.go Compile and the entry
    points of its stages): which of `(value, error)` each stage returns, and what Compile's named
    results `(obj, err)` hold when it returns.  The stages themselves are arbitrary functions. -/
namespace MtailVerif.CompilePipeline

/-- a Go `(value, error)` pair: `val = none` is a nil value, `err = none` a nil error; an error
    carries its list of messages (errors.ErrorList) -/
structure Ret (α : Type) where
  val : Option α
  err : Option (List String)
deriving Repr

/-- parser.Parse: `if r != 0 || p.errors != nil { return nil, p.errors }; return p.root, nil` -/
def parseRet {α : Type} (r : Int) (errors : List String) (root : α) : Ret α :=
  if r ≠ 0 ∨ errors ≠ [] then ⟨none, some errors⟩ else ⟨some root, none⟩

/-- opt.Optimise and checker.Check: `if len(errors) > 0 { return node, errors }; return node, nil` -/
def passRet {α : Type} (errors : List String) (node : α) : Ret α :=
  if errors.length > 0 then ⟨some node, some errors⟩ else ⟨some node, none⟩

/-- codegen.CodeGen: `if len(c.errors) > 0 { return nil, c.errors }; return &c.obj, nil` -/
def codegenRet {β : Type} (errors : List String) (obj : β) : Ret β :=
  if errors.length > 0 then ⟨none, some errors⟩ else ⟨some obj, none⟩

/-- what the stages do: anything -/
structure Stages (S A O : Type) where
  parse : S → Int × List String × A          -- goyacc's return code, the errors added, the root
  optimise : A → List String × A
  check : A → List String × A
  codegen : A → List String × O

/-- Compile: each stage's error is tested right after it (`if err != nil { return }` with the
    named results, `obj` still nil); the last statement assigns both results from CodeGen. -/
def compile {S A O : Type} (st : Stages S A O) (optimisation : Bool) (src : S) : Ret O :=
  let p := st.parse src
  let r0 := parseRet p.1 p.2.1 p.2.2
  match r0.err, r0.val with
  | some e, _ => ⟨none, some e⟩
  | none, none => ⟨none, none⟩       -- unreachable (parseRet), kept so that the model makes no assumption
  | none, some a0 =>
    let r1 := if optimisation then passRet (st.optimise a0).1 (st.optimise a0).2 else ⟨some a0, none⟩
    match r1.err, r1.val with
    | some e, _ => ⟨none, some e⟩
    | none, none => ⟨none, none⟩
    | none, some a1 =>
      let r2 := passRet (st.check a1).1 (st.check a1).2
      match r2.err, r2.val with
      | some e, _ => ⟨none, some e⟩
      | none, none => ⟨none, none⟩
      | none, some a2 =>
        let r3 := if optimisation then passRet (st.optimise a2).1 (st.optimise a2).2 else ⟨some a2, none⟩
        match r3.err, r3.val with
        | some e, _ => ⟨none, some e⟩
        | none, none => ⟨none, none⟩
        | none, some a3 => codegenRet (st.codegen a3).1 (st.codegen a3).2

end MtailVerif.CompilePipeline
