import MtailVerif.Model.Bytes
import MtailVerif.Generated.Key
/-! Model of `metrics.buildLabelValueKey` (internal/metrics/metric.go).

    Go: for each label, apply the extracted `strings.ReplaceAll(old, new)` calls in order,
    write the result, then write the extracted terminator.  The `(old,new)` pairs and the
    terminator are regenerated from the Go source on every run (`Generated/Key.lean`). -/
namespace MtailVerif.Key

/-- `strings.ReplaceAll` for a one-byte pattern -/
def replaceByte (old : UInt8) (new : Bytes) (s : Bytes) : Bytes :=
  s.flatMap (fun b => if b = old then new else [b])

/-- only one-byte patterns occur; anything else makes the shape obligation in
    `Props/C08.lean` fail, so the identity fallback is never relied upon -/
def replaceAll (old new : Bytes) (s : Bytes) : Bytes :=
  match old with
  | [o] => replaceByte o new s
  | _ => s

def escapeWith (reps : List (Bytes × Bytes)) (l : Bytes) : Bytes :=
  reps.foldl (fun acc r => replaceAll r.1 r.2 acc) l

def encodeWith (reps : List (Bytes × Bytes)) (term : Bytes) : List Bytes → Bytes
  | [] => []
  | l :: ls => escapeWith reps l ++ term ++ encodeWith reps term ls

/-- the key the current source computes -/
def encode (ls : List Bytes) : Bytes :=
  encodeWith Generated.Key.replacements Generated.Key.terminator ls

end MtailVerif.Key
