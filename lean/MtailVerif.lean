import MtailVerif.Props.C08
import MtailVerif.Props.C15
import MtailVerif.Props.C09
import MtailVerif.Props.C21
import MtailVerif.Props.C10
import MtailVerif.Props.C12
import MtailVerif.Props.C13
import MtailVerif.Props.C22
