import MtailVerif.Props.C08
