#!/bin/sh
# usage: lib/trymut.sh <prop> <sed-expression> <file-relative-to-repo>   (applies, checks, reverts)
prop=$1; expr=$2; file=$3
cd /repo && sed -i "$expr" "$file" && git diff --stat | tail -1
cd /verif && VERIF_EVIDENCE_DIR=/verif/.build/evidence-mutant ./check $prop | cut -c1-400
cd /repo && git checkout -- .
