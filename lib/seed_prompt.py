#!/usr/bin/env python3
"""Prints the prompt for an independent seeded-change agent: lib/seed_prompt.py <Cxx> <tag>"""
import json, sys
pid, tag = sys.argv[1], sys.argv[2]
p = [json.loads(l) for l in open('/verif/properties.jsonl') if json.loads(l)['id'] == pid][0]
import glob, os
prev = []
for d in sorted(glob.glob('/verif/seeded/%s?' % pid)):
    try:
        prev.append("- " + json.load(open(d + '/meta.json'))['summary'][:600])
    except Exception:
        pass
prevtext = ""
if prev:
    prevtext = "\n\nChanges of this kind that were ALREADY tried for this property (yours must use a DIFFERENT mechanism, preferably in a different function or file, and need a different trigger):\n" + "\n".join(prev)
wt = "/tmp/wt-%s" % tag
out = "/tmp/seedout/%s" % tag
print(f"""You are helping test a verification framework for the Go project google/mtail (a log-tailing daemon that compiles a small DSL to bytecode, runs it in a VM per log line, and exports metrics). Your job: write ONE realistic, subtle code change (a plausible regression a developer could introduce) that BREAKS the following behavioural property of mtail while still compiling and passing mtail's existing test suite.

PROPERTY ({pid}): {p['title']}
{p['statement']}
Quantified over: {p['quantifier']['text']}
Relevant source files (relative to the repo root): {', '.join(p['anchors']['files'])}

{prevtext}

Work ONLY in your own scratch git worktree at {wt} (create it first with: git -C /repo worktree add --detach {wt} HEAD ). Never edit /repo itself and never look at or touch /verif. The sandbox is offline; export these in every shell call before using go: export GOFLAGS=-mod=mod GOPROXY=off GOSUMDB=off GOTOOLCHAIN=local

Requirements for the change:
- It must be a change to non-test Go source of mtail (not tests, not docs), small (ideally 1-15 lines), and look like an honest mistake or a plausible "cleanup"/"optimisation".
- It must need something SPECIFIC to manifest: a particular interleaving, a fault at a particular point, a multi-step sequence of operations, an unusual input, or two cooperating sites that each look fine alone. Do NOT produce a change that ordinary use or the existing tests would expose at once.
- The project must still build (go build ./...) and the existing tests of the packages you touched and their dependants must still pass (run e.g. go test -vet=off -count=1 ./internal/... ; note: 4 tests in internal/mtail that depend on testdata/anonymised_dhcpd_log fail even on the unchanged tree because that file was emptied - ignore those).
- Write a demonstration: a Go test file (or small program) placed inside the worktree that FAILS with your change and PASSES without it (verify both ways; do NOT use `git stash` - the stash is shared between all worktrees of /repo and other people are working in sibling worktrees; instead save your change with `git diff > patch.diff`, revert with `git checkout -- <files>`, and re-apply with `git apply patch.diff`). The demonstration must exercise the real mtail code.

Deliverables, written to {out}/ (create the directory):
- patch.diff : output of `git -C {wt} diff` containing ONLY the source change (not the demonstration)
- demo/ : the demonstration file(s) with a note of which package directory they belong in, and the exact command to run them
- meta.json : {{"property": "{pid}", "summary": "<what the change does>", "needs": "<what is needed for it to manifest>", "ran": "<commands you ran and their outcome with and without the change>"}}

While reading the code you may notice that the UNCHANGED tree itself already breaks the property on some input (independently of your change). If so, say so at the end of your reply under the heading "Unchanged tree" with the exact program / input / call sequence and what you observed - confirmed by running it, not guessed. This is as valuable as the seeded change.

When done, reply with a short summary (what you changed, what it needs to manifest, and confirmation that tests pass and the demo fails/passes as required). Do not remove the worktree; leave it in place.""")
