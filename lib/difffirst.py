#!/usr/bin/env python3
"""lib/difffirst.py <workdir> [n]: show the first differing ' || ' segment of mismatching cases"""
import sys
w=sys.argv[1]; n=int(sys.argv[2]) if len(sys.argv)>2 else 3
impl={};model={};cases={}
for l in open(w+'/cases.txt'):
    p=l.rstrip('\n').split(' ',1); cases[p[0]]=p[1] if len(p)>1 else ''
for name,d in (('impl',impl),('model',model)):
    for l in open(w+'/%s.txt'%name):
        p=l.rstrip('\n').split(' ',2)
        if len(p)>2 and p[1]=='OBS': d[p[0]]=p[2]
k=0
for c in impl:
    if impl[c]!=model.get(c):
        print('CASE', cases[c].split(' ')[-1][:300])
        a=impl[c].split(' || '); m=(model.get(c) or '').split(' || ')
        for i,(x,y) in enumerate(zip(a,m)):
            if x!=y: print(' seg',i); print('  impl ',x[:600]); print('  model',y[:600]); break
        else: print(' lengths',len(a),len(m))
        k+=1
        if k>=n: break
