#!/bin/sh
# usage: lib/tryseed.sh <patch.diff> <prop> [tier]   applies to /repo, runs the check, reverts
patch=$1; prop=$2; tier=${3:-quick}
cd /repo || exit 2
git apply "$patch" || { echo "PATCH DOES NOT APPLY"; exit 2; }
git diff --stat | tail -1
cd /verif && VERIF_EVIDENCE_DIR=/verif/.build/evidence-mutant ./check $prop --tier $tier | cut -c1-700
cd /repo && git checkout -- . && git status --short | head -3
