#!/bin/sh
# runs every registered quick (or $1) check on the current tree, refreshing evidence/
tier=${1:-quick}
cd /verif
for p in $(python3 -c "
import sys; sys.path.insert(0,'lib'); import props
print(' '.join(sorted(props.PROPS)))"); do
  ./check $p --tier $tier | grep -E "^(OK|VIOLATION|KNOWN|broken)" | cut -c1-220
done
python3-vt - <<'PY'
import json,jsonschema,glob
sch=json.load(open('/root/.vp/EVIDENCE.schema.json'))
for f in sorted(glob.glob('/verif/evidence/*.json')):
    e=json.load(open(f))
    try:
        jsonschema.validate(e,sch)
        c=e['coverage']
        ok = c.get('obligations')==c.get('discharged')
        print(f.split('/')[-1], 'valid', 'obligations==discharged' if ok else 'MISMATCH %s/%s'%(c.get('discharged'),c.get('obligations')))
    except Exception as ex:
        print(f, 'INVALID', str(ex)[:200])
PY
