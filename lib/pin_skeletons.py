#!/usr/bin/env python3
"""lib/pin_skeletons.py: (re)writes lean/MtailVerif/Proofs/Skeletons.lean from the CURRENT
Generated/Skeletons.lean.  Run by hand only, after reading the diff it produces: the file it writes
is the expectation the regenerated skeletons are held against on every run.  ./check never runs it."""
import os, re, sys
V = os.path.dirname(os.path.dirname(os.path.abspath(__file__)))
g = open(os.path.join(V, "lean/MtailVerif/Generated/Skeletons.lean")).read()
groups = {}
cur = None
for line in g.splitlines():
    m = re.match(r"namespace (\w+)$", line)
    if m and m.group(1) != "MtailVerif":
        cur = m.group(1); groups[cur] = []
    m = re.match(r"def (\w+) : String := (\".*\")$", line)
    if m and cur:
        groups[cur].append((m.group(1), m.group(2)))
doc = {
 "Metric": "internal/metrics/metric.go: what `Model/Metric.lean` (C08, C09, C10) stands for",
 "Loader": "internal/metrics/store.go `Add`/`Range` and internal/runtime/runtime.go: what `Model/Runtime.lean` and `Model/Reload.lean` (C06, C14, C20, C25, C26) stand for",
 "Export": "internal/exporter: what `Model/Prom.lean`, `Model/Formats.lean` and `Model/ExportLocks.lean` (C12, C13, C22) stand for",
 "Streams": "internal/tailer/logstream: what `Model/Reader.lean`, `Model/FileStream.lean`, `Model/Conn.lean` and `Model/Pipeline.lean` (C15, C16, C17, C19) stand for",
 "Line": "internal/runtime/vm/vm.go, around the instruction cycle: what `Model/VM.lean`'s `run` and `Model/Reload.lean`'s VM (C01, C05, C19, C20) stand for",
 "Datum": "internal/metrics/datum: the stamped updates and the bucket arithmetic that `Model/VM.lean`, `Model/Buckets.lean` and `Model/Prom.lean` (C07, C09, C13, C21) stand for",
 "Dispatch": "the goroutines that hand lines on (runtime.New, tailer.New), pattern registration, the server's Run, a datagram read: what `Model/Pipeline.lean`, `Model/Reload.lean`, `Model/TailerPoll.lean` and `Model/Conn.lean` (C17, C18, C19, C20) stand for",
 "Symbols": "the symbol table, type unification and the checker's regex and unused-symbol passes: what `Model/Scope.lean` and `Model/Lower.lean` (C01, C03, C24) stand for",
 "Text": "the lexer's string literals, the formatter's quoting and bracketing, and the mfmt command: what `Model/Unparse.lean` and `Model/ExprGrammar.lean` (C23) stand for",
 "Lex": "every function of lexer.go: what `Model/Lexer.lean` (C03) stands for, state function by state function",
 "Exec": "every clause of `VM.execute`: what `Model/VM.lean` spells out opcode by opcode (C01, C02, C04, C05, C07, C21, C25)",
 "Compare": "the VM's `compare`: what `Model/VM.lean`'s comparison clauses stand for",
 "CodegenBefore": "codegen's pre-order visit, clause by clause: what `Model/Lower.lean` and `Model/IR.lean`'s `emit` (C01, C03, C04, C21) stand for",
 "CodegenAfter": "codegen's post-order visit, clause by clause",
 "CheckerBefore": "the checker's pre-order visit, clause by clause: what `Model/Scope.lean` (C24) stands for, and what decides which programs reach the VM (C03, C04)",
 "CheckerAfter": "the checker's post-order visit, clause by clause",
 "PatternEval": "the checker's pattern evaluator",
 "OptBefore": "the optimiser's pre-order visit: what `Model/Fold.lean` (C02) stands for",
 "OptAfter": "the optimiser's post-order visit, clause by clause",
 "UnparseBefore": "the formatter's visit, clause by clause: what `Model/Unparse.lean` (C23) stands for",
}
out = ["import MtailVerif.Generated.Skeletons",
       "/-! Obligations over regenerated facts: the control skeleton of every function a hand-written model",
       "    stands for (conditions, loop headers, what each branch ends in, calls by name, locks, updates",
       "    of fields, map entries and slice elements; logging, comments and assignments to local variables",
       "    left out), as `go/extract` reads it from the source on every run, is the one the model was",
       "    written against.  A change to one of these functions makes the matching `rfl` fail: the model",
       "    has then to be read against the new source (and `lib/pin_skeletons.py` run by hand).",
       "    Written by lib/pin_skeletons.py from the source as it was when the models were last read. -/",
       "namespace MtailVerif.Skeletons", "open MtailVerif.Generated.Skeletons", ""]
for gname, defs in groups.items():
    out.append("/-- %s -/" % doc.get(gname, gname))
    out.append("def %sShape : Prop :=" % gname)
    out.append("    " + " ∧\n    ".join("%s.%s = %s" % (gname, n, v) for n, v in defs))
    out.append("theorem %s_shape : %sShape :=" % (gname[0].lower() + gname[1:], gname))
    out.append("  ⟨" + ", ".join(["rfl"] * len(defs)) + "⟩" if len(defs) > 1 else "  rfl")
    out.append("")
out.append("end MtailVerif.Skeletons")
open(os.path.join(V, "lean/MtailVerif/Proofs/Skeletons.lean"), "w").write("\n".join(out) + "\n")
print("pinned", {k: len(v) for k, v in groups.items()})
