#!/usr/bin/env python3
"""lib/seedfacts.py: for every kept seeded change, does the fact extractor see it?  Applies each patch to a
scratch worktree of /repo HEAD, runs go/extract on it and compares the Generated files with those of
the unchanged tree (paths normalised).  Prints one line per seed and a count.  Measurement only."""
import json, os, subprocess, sys, tempfile, shutil, glob, re
V = os.path.dirname(os.path.dirname(os.path.abspath(__file__)))
ex = os.path.join(V, ".build", "extract")
def gen(repo, out):
    os.makedirs(out, exist_ok=True)
    subprocess.run([ex, "-repo", repo, "-out", out], capture_output=True, text=True)
    d = {}
    for f in glob.glob(out + "/*.lean"):
        d[os.path.basename(f)] = open(f).read().replace(repo + "/", "").replace("/repo/", "")
    return d
base = gen("/repo", "/tmp/sf-base")
base = {k: v.replace("/repo/", "") for k, v in base.items()}
seen, total, rows = 0, 0, []
for d in sorted(glob.glob(V + "/seeded/*")):
    tag = os.path.basename(d)
    wt = "/tmp/sf-wt"
    subprocess.run(["git", "-C", "/repo", "worktree", "remove", "--force", wt], capture_output=True)
    shutil.rmtree(wt, ignore_errors=True)
    subprocess.run(["git", "-C", "/repo", "worktree", "add", "--detach", wt, "HEAD"], capture_output=True)
    r = subprocess.run(["git", "-C", wt, "apply", d + "/patch.diff"], capture_output=True, text=True)
    if r.returncode != 0:
        rows.append((tag, "PATCH-DOES-NOT-APPLY")); continue
    total += 1
    shutil.rmtree("/tmp/sf-out", ignore_errors=True)
    g = gen(wt, "/tmp/sf-out")
    changed = sorted(k for k in base if g.get(k) != base[k])
    if changed: seen += 1
    rows.append((tag, ",".join(c.replace(".lean", "") for c in changed) or "-"))
subprocess.run(["git", "-C", "/repo", "worktree", "remove", "--force", "/tmp/sf-wt"], capture_output=True)
for t, c in rows: print(t, c)
print("seeds whose patch applies: %d; seen by the extractor: %d" % (total, seen))
