#!/usr/bin/env python3
"""Engine behind /verif/check: regenerate facts from /repo, re-check the Lean proofs, audit
axioms, build the harness into /repo's module (overlay), run the correspondence and the
property predicate, decide, write evidence.  See DESIGN.md section 4."""
import fcntl, glob, hashlib, json, os, re, shutil, subprocess, sys, time

VERIF = os.path.dirname(os.path.dirname(os.path.abspath(__file__)))
REPO = os.environ.get("VERIF_REPO", "/repo")
LEAN = os.path.join(VERIF, "lean")
BUILD = os.path.join(VERIF, ".build")
GOENV = dict(os.environ, GOFLAGS="-mod=mod", GOPROXY="off", GOSUMDB="off", GOTOOLCHAIN="local",
             CGO_ENABLED=os.environ.get("CGO_ENABLED", "0"))
ALLOWED_AXIOMS = {"propext", "Classical.choice", "Quot.sound"}
FORBIDDEN = re.compile(r"\b(sorry|admit|native_decide|bv_decide|implemented_by|unsafe)\b|^axiom |maxHeartbeats 0")

TRUSTED_BASE = [
    "Lean 4.33.0 kernel (thorough tier: re-checked with leanchecker)",
    "axioms allowed per theorem: propext, Classical.choice, Quot.sound (audited by #print axioms on every run)",
    "the statement of each theorem in lean/MtailVerif/Props and the abstract specs it mentions",
    "tie: hand-written model functions correspond to the named Go functions; checked by running both on the same cases (sampled, coverage below) and by facts regenerated from the Go source with go/ast (go/extract)",
    "Go standard library, Go runtime/scheduler and OS behaviour are modelled or used as oracles, not verified",
]


def sh(cmd, cwd=None, env=None, timeout=None, stdin=None, stdout=subprocess.PIPE, stderr=subprocess.STDOUT):
    try:
        p = subprocess.run(cmd, cwd=cwd, env=env, timeout=timeout, stdin=stdin, stdout=stdout, stderr=stderr)
        out = p.stdout.decode("utf-8", "replace") if p.stdout else ""
        return p.returncode, out
    except subprocess.TimeoutExpired as e:
        out = e.stdout.decode("utf-8", "replace") if e.stdout else ""
        return 124, out + "\nTIMEOUT"


class Lock:
    def __enter__(self):
        os.makedirs(BUILD, exist_ok=True)
        self.f = open(os.path.join(BUILD, "lock"), "w")
        fcntl.flock(self.f, fcntl.LOCK_EX)
        return self

    def __exit__(self, *a):
        fcntl.flock(self.f, fcntl.LOCK_UN)
        self.f.close()


def strip_comments(src):
    # remove /- ... -/ (nested) and -- comments, and string literals
    out, i, depth, n = [], 0, 0, len(src)
    while i < n:
        if src.startswith("/-", i):
            depth += 1; i += 2; continue
        if depth > 0:
            if src.startswith("-/", i):
                depth -= 1; i += 2
            else:
                i += 1
            continue
        if src.startswith("--", i):
            j = src.find("\n", i)
            i = n if j < 0 else j
            continue
        if src[i] == '"':
            j = i + 1
            while j < n and src[j] != '"':
                j += 2 if src[j] == "\\" else 1
            i = j + 1
            out.append('""')
            continue
        out.append(src[i]); i += 1
    return "".join(out)


def grep_forbidden():
    hits = []
    for p in glob.glob(os.path.join(LEAN, "MtailVerif", "**", "*.lean"), recursive=True):
        txt = strip_comments(open(p).read())
        for ln, line in enumerate(txt.split("\n"), 1):
            if FORBIDDEN.search(line):
                hits.append("%s:%d: %s" % (os.path.relpath(p, VERIF), ln, line.strip()[:100]))
    return hits


class Check:
    """One run of one property's check."""

    def __init__(self, cfg, tier, seed):
        self.cfg, self.tier, self.seed = cfg, tier, seed
        self.pid = cfg["id"]
        self.work = os.path.join(BUILD, "run", "%s-%s-%d" % (self.pid, tier, os.getpid()))
        shutil.rmtree(self.work, ignore_errors=True)
        os.makedirs(self.work)
        self.broken = []      # things that no longer check (proof obligation, shape, build, correspondence)
        self.notes = []
        self.t0 = time.time()
        self.obligations = []  # (theorem, axioms or None)
        self.stats = {}
        self.samples = []
        self.evals = 0
        self.distinct_nontrivial = 0
        self.fails = []        # (id, class, detail, replay case lines)
        self.mismatches = []   # (id, case, impl, model)
        self.harness_ok = False
        self.model_ok = False

    # ---- phase 1: facts + proofs ----
    def regen_and_prove(self):
        cfg = self.cfg
        with Lock():
            rc, out = sh(["go", "build", "-o", os.path.join(BUILD, "extract"), "."], cwd=os.path.join(VERIF, "go", "extract"), env=GOENV)
            if rc != 0:
                self.broken.append("extractor build failed: " + out[-400:])
            else:
                rc, out = sh([os.path.join(BUILD, "extract"), "-repo", REPO, "-out", os.path.join(LEAN, "MtailVerif", "Generated")])
                for line in out.splitlines():
                    if line.startswith("SHAPE-ERROR"):
                        gen = line.split()[1].rstrip(":")
                        if gen in cfg.get("gens", []) or gen == "parse":
                            self.broken.append("extracted fact: " + line[len("SHAPE-ERROR "):])
            targets = cfg["lean_targets"] + ["mtailmodel"]
            rc, out = sh(["lake", "build"] + targets, cwd=LEAN, timeout=1800)
            self.lake_log = out
            if rc != 0:
                # which failed: proof modules or the driver?
                rc2, out2 = sh(["lake", "build"] + cfg["lean_targets"], cwd=LEAN, timeout=1800)
                if rc2 != 0:
                    errs = [l for l in out2.splitlines() if l.startswith("error:")][:6]
                    self.broken.append("proof obligation: lake build %s failed: %s" % (" ".join(cfg["lean_targets"]), " | ".join(errs)))
                rc3, out3 = sh(["lake", "build", "mtailmodel"], cwd=LEAN, timeout=1800)
                self.model_ok = rc3 == 0
                if rc3 != 0:
                    errs = [l for l in out3.splitlines() if l.startswith("error:")][:4]
                    self.broken.append("model driver does not build: " + " | ".join(errs))
            else:
                self.model_ok = True
            self.proofs_ok = rc == 0 or (rc != 0 and rc2 == 0)
            if self.model_ok:
                self.model_bin = os.path.join(self.work, "mtailmodel")
                shutil.copy2(os.path.join(LEAN, ".lake", "build", "bin", "mtailmodel"), self.model_bin)
            # axiom audit
            if self.proofs_ok:
                audit = os.path.join("MtailVerif", "Audit", self.pid + ".lean")
                rc, out = sh(["lake", "env", "lean", audit], cwd=LEAN, timeout=900)
                cur = None
                text = out.replace("\n  ", " ")
                for m in re.finditer(r"'([^']+)' (depends on axioms: \[([^\]]*)\]|does not depend on any axioms)", text):
                    name = m.group(1)
                    axs = [a.strip() for a in (m.group(3) or "").split(",") if a.strip()]
                    self.obligations.append((name, axs))
                    bad = [a for a in axs if a not in ALLOWED_AXIOMS]
                    if bad:
                        self.broken.append("axiom audit: %s depends on %s" % (name, bad))
                if rc != 0:
                    self.broken.append("axiom audit file failed: " + out[-300:])
                if not self.obligations:
                    self.broken.append("axiom audit found no theorems")
            hits = grep_forbidden()
            if hits:
                self.broken.append("forbidden construct in Lean sources: " + "; ".join(hits[:5]))
            if self.tier == "thorough" and self.proofs_ok and not os.environ.get("VERIF_NO_LEANCHECKER"):
                mods = [t for t in cfg["lean_targets"]]
                rc, out = sh(["lake", "env", "leanchecker"] + mods, cwd=LEAN, timeout=1800)
                if rc != 0:
                    self.broken.append("leanchecker rejected: " + out[-300:])
                else:
                    self.notes.append("leanchecker re-checked " + " ".join(mods))

    # ---- phase 2: harness ----
    def build_harness(self):
        hdir = os.path.join(VERIF, "go", "harness")
        ov = {}
        for p in glob.glob(os.path.join(hdir, "main", "*.go")):
            ov[os.path.join(REPO, "internal", "verifharness", os.path.basename(p))] = p
        for p in glob.glob(os.path.join(hdir, "access", "*.go")):
            base = os.path.basename(p)            # <pkgpath with _>_access.go, mapping in ACCESS
            pkg = ACCESS.get(base)
            if pkg:
                ov[os.path.join(REPO, pkg, "verif_" + base)] = p
        ovp = os.path.join(self.work, "overlay.json")
        json.dump({"Replace": ov}, open(ovp, "w"))
        self.harness_bin = os.path.join(self.work, "verifharness")
        # never let the go command rewrite /repo/go.mod or go.sum: work on copies
        shutil.copy2(os.path.join(REPO, "go.mod"), os.path.join(self.work, "go.mod"))
        if os.path.exists(os.path.join(REPO, "go.sum")):
            shutil.copy2(os.path.join(REPO, "go.sum"), os.path.join(self.work, "go.sum"))
        cmd = ["go", "build", "-tags", "verif", "-overlay", ovp, "-modfile", os.path.join(self.work, "go.mod"), "-o", self.harness_bin]
        if self.cfg.get("race"):
            cmd.insert(2, "-race")
        rc, out = sh(cmd + ["./internal/verifharness"], cwd=REPO, env=dict(GOENV, CGO_ENABLED="1" if "-race" in cmd else GOENV["CGO_ENABLED"]), timeout=900)
        if rc != 0:
            self.broken.append("harness does not build against the current tree: " + out[-600:])
            self.harness_ok = False
        else:
            self.harness_ok = True
        # commands of the repository the harness runs as they are shipped (e.g. cmd/mfmt)
        self.tool_env = {}
        for tool in self.cfg.get("tools", []):
            tb = os.path.join(self.work, "tool-" + os.path.basename(tool))
            rc, out = sh(["go", "build", "-modfile", os.path.join(self.work, "go.mod"), "-o", tb, "./" + tool], cwd=REPO, env=GOENV, timeout=900)
            if rc != 0:
                self.broken.append("%s does not build: %s" % (tool, out[-400:]))
            else:
                self.tool_env["VERIF_TOOL_" + os.path.basename(tool).upper()] = tb

    # ---- phase 3: cases ----
    def make_cases(self, replay=None):
        cases = []
        if replay:
            rp = json.load(open(replay))
            cases = list(rp.get("cases", []))
        else:
            cdir = os.path.join(VERIF, "corpus", self.pid)
            for p in sorted(glob.glob(os.path.join(cdir, "*.cases"))):
                tag = os.path.basename(p)[:-6]
                for i, l in enumerate(x for x in open(p).read().splitlines() if x and not x.startswith("#")):
                    cases.append("k%s_%d %s" % (tag, i, l))
            kf = load_known()
            for i, k in enumerate(kf.get("findings", [])):
                if k["property"] == self.pid:
                    for j, l in enumerate(k.get("witness_cases", [])):
                        cases.append("w%d_%d %s" % (i, j, l))
            if self.harness_ok:
                rc, out = sh([self.harness_bin, "gen", self.cfg.get("harness", self.pid), "-tier", self.tier, "-seed", str(self.seed)], timeout=600, stderr=subprocess.PIPE)
                if rc != 0:
                    self.broken.append("harness gen failed rc=%d" % rc)
                cases += [l for l in out.splitlines() if l]
        self.cases = cases
        self.cases_path = os.path.join(self.work, "cases.txt")
        open(self.cases_path, "w").write("\n".join(cases) + "\n")

    def run_both(self):
        tmo = self.cfg.get("timeout", {}).get(self.tier, 600)
        impl = {}
        preds = {}
        replays = {}
        trivial = set()
        relayed = {}
        if self.harness_ok:
            ip = os.path.join(self.work, "impl.txt")
            env = dict(os.environ, GOMEMLIMIT="6GiB", GOTRACEBACK="single")
            if self.model_ok:
                env["VERIF_MODEL_BIN"] = self.model_bin
            if self.cfg.get("race"):
                env["GORACE"] = "halt_on_error=0 log_path=%s" % os.path.join(self.work, "race")
            env.update(getattr(self, "tool_env", {}))
            remaining = list(self.cases)
            open(ip, "w").close()
            crashes = 0
            hangs = 0
            while remaining:
                part_in = os.path.join(self.work, "cases.part.txt")
                part_out = os.path.join(self.work, "impl.part.txt")
                open(part_in, "w").write("\n".join(remaining) + "\n")
                with open(part_in) as fin, open(part_out, "w") as fout:
                    rc, _ = sh([self.harness_bin, "run", self.cfg.get("harness", self.pid)], stdin=fin, stdout=fout, stderr=open(os.path.join(self.work, "impl.err"), "w"), timeout=tmo, env=env)
                outtxt = open(part_out).read()
                done = [l.split(" ", 1)[0] for l in outtxt.splitlines() if l.endswith(" DONE")]
                with open(ip, "a") as acc:
                    if rc == 0:
                        acc.write(outtxt)
                        break
                    # the process died: keep the finished cases, blame the first unfinished one
                    keep = set(done)
                    for l in outtxt.splitlines():
                        if l.split(" ", 1)[0] in keep or l.startswith("#STAT"):
                            acc.write(l + "\n")
                    crashed = remaining[len(done)] if len(done) < len(remaining) else None
                    err = open(os.path.join(self.work, "impl.err")).read()
                    head = " | ".join(x.strip() for x in err.strip().splitlines()[:6])[:500]
                    if crashed is None or crashes >= 25 or rc == 124:
                        self.broken.append("harness run on the implementation exited %d (%s)" % (rc, "timeout" if rc == 124 else head))
                        break
                    cid = crashed.split(" ", 1)[0]
                    if "did not return within" in head:
                        hangs += 1
                    acc.write("%s OBS CRASH\n%s PRED FAIL crash the process running the code under test died on this case: %s\n" % (cid, cid, head.replace("\n", " ")))
                    crashes += 1
                    remaining = remaining[len(done) + 1:]
                    if hangs >= 3:
                        # each blocked case costs its whole deadline; three are replay enough
                        self.notes.append("three cases blocked the code under test; the %d cases after them were not run" % len(remaining))
                        break
            if crashes:
                self.notes.append("%d case(s) crashed the harness process and were isolated" % crashes)
            for l in open(ip):
                l = l.rstrip("\n")
                if l.startswith("#STAT "):
                    _, k, v = l.split(" ", 2)
                    self.stats[k] = self.stats.get(k, 0) + int(v)
                    continue
                sp = l.split(" ", 2)
                if len(sp) < 2:
                    continue
                cid, kind = sp[0], sp[1]
                rest = sp[2] if len(sp) > 2 else ""
                if kind == "OBS":
                    impl.setdefault(cid, []).append(rest)
                elif kind == "MOBS":
                    relayed.setdefault(cid, []).append(rest)
                elif kind == "PRED":
                    preds.setdefault(cid, []).append(rest)
                elif kind == "REPLAY":
                    replays.setdefault(cid, []).append(rest)
                elif kind == "TRIV":
                    trivial.add(cid)
                elif kind == "DONE":
                    pass
        model = {}
        if self.cfg.get("relay_model"):
            # the harness drives the model server itself (interactive oracle protocol) and relays
            # the model's observations
            model = relayed
        elif self.model_ok and not self.cfg.get("no_model"):
            mp = os.path.join(self.work, "model.txt")
            with open(self.cases_path) as fin, open(mp, "w") as fout:
                rc, _ = sh([self.model_bin, self.cfg.get("model", self.pid)], stdin=fin, stdout=fout, stderr=open(os.path.join(self.work, "model.err"), "w"), timeout=tmo)
            if rc != 0:
                self.broken.append("model driver exited %d: %s" % (rc, open(os.path.join(self.work, "model.err")).read()[-300:]))
            for l in open(mp):
                sp = l.rstrip("\n").split(" ", 2)
                if len(sp) >= 2 and sp[1] == "OBS":
                    model.setdefault(sp[0], []).append(sp[2] if len(sp) > 2 else "")
        # compare
        case_by_id = {}
        distinct = set()
        for c in self.cases:
            cid, _, payload = c.partition(" ")
            case_by_id[cid] = payload
        self.evals = len(case_by_id)
        for cid, payload in case_by_id.items():
            if cid not in trivial:
                distinct.add(payload)
        self.distinct_nontrivial = len(distinct)
        if self.harness_ok and self.model_ok and not self.cfg.get("no_model"):
            for cid, payload in case_by_id.items():
                a, b = impl.get(cid), model.get(cid)
                if a != b:
                    self.mismatches.append((cid, payload, a, b))
        for cid, ps in preds.items():
            for p in ps:
                if p.startswith("FAIL"):
                    sp = p.split(" ", 2)
                    cls = sp[1] if len(sp) > 1 else "unclassified"
                    det = sp[2] if len(sp) > 2 else ""
                    rcases = replays.get(cid) or [case_by_id.get(cid, "")]
                    self.fails.append((cid, cls, det, rcases))
        self.n_pred = sum(len(v) for v in preds.values())
        # samples: first of each kind
        seen = set()
        for c in self.cases:
            cid, _, payload = c.partition(" ")
            kind = payload.split(" ", 1)[0]
            if kind not in seen and len(self.samples) < 8:
                seen.add(kind)
                self.samples.append({"case": payload[:400], "impl_obs": (impl.get(cid) or [""])[0][:400], "model_obs": (model.get(cid) or [""])[0][:400]})
        self.impl, self.model = impl, model


ACCESS = {
    "metrics_access.go": "internal/metrics",
    "datum_access.go": "internal/metrics/datum",
    "vm_access.go": "internal/runtime/vm",
    "runtime_access.go": "internal/runtime",
    "logstream_access.go": "internal/tailer/logstream",
    "tailer_access.go": "internal/tailer",
    "exporter_access.go": "internal/exporter",
    "compiler_access.go": "internal/runtime/compiler",
    "parser_access.go": "internal/runtime/compiler/parser",
    "checker_access.go": "internal/runtime/compiler/checker",
    "codegen_access.go": "internal/runtime/compiler/codegen",
    "mtail_access.go": "internal/mtail",
}


def load_known():
    p = os.path.join(VERIF, "known_findings.json")
    if os.path.exists(p):
        return json.load(open(p))
    return {"findings": [], "fixed": []}


def write_replay(chk, name, obj):
    d = os.path.join(VERIF, "replays", chk.pid)
    os.makedirs(d, exist_ok=True)
    name = re.sub(r"[^A-Za-z0-9_.:-]", "_", name)
    p = os.path.join(d, name)
    json.dump(obj, open(p, "w"), indent=1)
    return p


def decide_and_report(chk, replay_mode=False):
    """Returns exit code; prints VIOLATION / KNOWN-FINDING lines; writes evidence."""
    cfg, pid = chk.cfg, chk.pid
    known = [k for k in load_known().get("findings", []) if k["property"] == pid]
    known_classes = {k["class"]: k for k in known}
    violations = 0
    kf_seen = {}
    new_fails = []
    for (cid, cls, det, rcases) in chk.fails:
        if cls in known_classes:
            kf_seen.setdefault(cls, (cid, det))
        else:
            new_fails.append((cid, cls, det, rcases))
    for cls, k in known_classes.items():
        if cls in kf_seen:
            print("KNOWN-FINDING: property=%s %s [class %s; e.g. %s]" % (pid, k["what"], cls, kf_seen[cls][1][:200]))
        else:
            print("note: known finding %s/%s was not reproduced on this tree (witness no longer fails)" % (pid, cls))
    # correspondence mismatches
    if chk.mismatches:
        cid, payload, a, b = chk.mismatches[0]
        chk.broken.append("correspondence: model and implementation disagree on %d of %d cases; first: case `%s` impl=%s model=%s" % (len(chk.mismatches), chk.evals, payload[:300], str(a)[:300], str(b)[:300]))
    if new_fails:
        # one VIOLATION line per class, smallest replay first
        by_cls = {}
        for f in new_fails:
            by_cls.setdefault(f[1], []).append(f)
        for cls, fs in by_cls.items():
            fs.sort(key=lambda f: sum(len(c) for c in f[3]))
            cid, _, det, rcases = fs[0]
            cases = ["r%d %s" % (i, c) for i, c in enumerate(rcases)]
            rp = write_replay(chk, "violation-%s.json" % cls, {
                "property": pid, "class": cls, "what_failed": det, "cases": cases,
                "count_in_this_run": len(fs), "broken": chk.broken,
                "how_to_replay": "./check %s --replay <this file>" % pid})
            print("VIOLATION property=%s replay=%s" % (pid, rp))
            violations += 1
    elif chk.broken and not replay_mode:
        first_mis = None
        if chk.mismatches:
            cid, payload, a, b = chk.mismatches[0]
            first_mis = {"case": payload, "impl": a, "model": b}
        rp = write_replay(chk, "unproved.json", {
            "property": pid, "no_longer_checks": chk.broken, "first_disagreeing_case": first_mis,
            "cases": (["r0 " + first_mis["case"]] if first_mis else []),
            "searched": "property predicate evaluated on the implementation over %d cases (corpus, exhaustive small scope, seeded random; tier %s, seed %d): no failing input" % (chk.n_pred if hasattr(chk, "n_pred") else 0, chk.tier, chk.seed)})
        print("VIOLATION property=%s replay=%s no-failing-input-found" % (pid, rp))
        violations += 1
    for b in chk.broken:
        print("broken: " + b[:600])
    # evidence
    ob = len(chk.obligations)
    ev = {
        "property_id": pid, "tier": chk.tier, "seed": chk.seed, "level": cfg.get("level", "proof"),
        "coverage": {
            "obligations": max(ob, 1) if not chk.broken else ob + len(chk.broken),
            "discharged": ob if ob > 0 else 0,
            "checker_cmd": "cd /verif/lean && lake build %s && lake env lean MtailVerif/Audit/%s.lean%s" % (" ".join(cfg["lean_targets"]), pid, " && lake env leanchecker " + " ".join(cfg["lean_targets"]) if chk.tier == "thorough" else ""),
            "trusted_base": TRUSTED_BASE + cfg.get("trusted_extra", []),
            "theorems": [{"name": n, "axioms": a} for n, a in chk.obligations],
            "regenerated_facts": cfg.get("gens", []),
            "evaluations": chk.evals, "distinct_nontrivial": chk.distinct_nontrivial,
            "rule": cfg.get("rule", ""),
            "samples": chk.samples or [{"note": "no cases were run"}],
            "traces_validated_against_impl": chk.evals - len(chk.mismatches) if chk.harness_ok and chk.model_ok else 0,
            "correspondence_mismatches": len(chk.mismatches),
            "predicate_evaluations_on_impl": getattr(chk, "n_pred", 0),
            "predicate_failures": len(chk.fails),
            "distribution": chk.stats,
            "no_longer_checks": chk.broken,
            "known_findings_replayed": sorted(kf_seen.keys()),
            "notes": chk.notes,
        },
        "assumptions": cfg.get("assumptions", []),
        "wall_s": round(time.time() - chk.t0, 2),
        "violations": violations,
    }
    if ev["coverage"]["discharged"] == 0:
        ev["coverage"]["discharged"] = 0
        ev["coverage"]["obligations"] = max(ev["coverage"]["obligations"], 1)
    if not replay_mode:
        evdir = os.environ.get("VERIF_EVIDENCE_DIR") or os.path.join(VERIF, "evidence")
        os.makedirs(evdir, exist_ok=True)
        json.dump(ev, open(os.path.join(evdir, pid + ".json"), "w"), indent=1)
    if violations == 0:
        print("OK property=%s tier=%s seed=%d theorems=%d cases=%d nontrivial=%d wall=%.1fs" % (pid, chk.tier, chk.seed, ob, chk.evals, chk.distinct_nontrivial, time.time() - chk.t0))
    if not os.environ.get("VERIF_KEEP"):
        shutil.rmtree(chk.work, ignore_errors=True)
    else:
        print("kept work dir", chk.work)
    return 1 if violations else 0


def run_check(cfg, tier, seed, replay=None):
    if not replay:
        shutil.rmtree(os.path.join(VERIF, "replays", cfg["id"]), ignore_errors=True)
    chk = Check(cfg, tier, seed)
    chk.regen_and_prove()
    chk.build_harness()
    chk.make_cases(replay)
    chk.run_both()
    # search when something broke and nothing failed yet: widen
    if chk.broken and not chk.fails and not replay and chk.harness_ok and tier == "quick" and not os.environ.get("VERIF_NO_WIDEN"):
        chk.notes.append("something no longer checks and the quick scope has no failing input: widening the search to the thorough scope")
        wide = Check(cfg, "thorough", seed)
        wide.harness_ok, wide.harness_bin = True, chk.harness_bin
        wide.model_ok = False
        wide.make_cases()
        wide.run_both()
        chk.fails = wide.fails
        chk.n_pred += wide.n_pred
        shutil.rmtree(wide.work, ignore_errors=True)
    if replay:
        for cid in sorted(chk.impl):
            print("impl  %s OBS %s" % (cid, " || ".join(chk.impl[cid])[:1000]))
            if cid in chk.model:
                print("model %s OBS %s" % (cid, " || ".join(chk.model[cid])[:1000]))
        for f in chk.fails:
            print("FAIL %s class=%s %s" % (f[0], f[1], f[2][:1000]))
    return decide_and_report(chk, replay_mode=bool(replay))
