#!/usr/bin/env python3
"""lib/keep_seed.py <tag> <prop> <caught-by text>: copies a verified seeded change into /verif/seeded/<tag>/"""
import json, os, shutil, sys
tag, prop, caught = sys.argv[1], sys.argv[2], sys.argv[3]
src = "/tmp/seedout/" + tag
dst = "/verif/seeded/" + tag
os.makedirs(dst, exist_ok=True)
shutil.copy(src + "/patch.diff", dst + "/patch.diff")
if os.path.isdir(dst + "/demo"):
    shutil.rmtree(dst + "/demo")
shutil.copytree(src + "/demo", dst + "/demo")
meta = json.load(open(src + "/meta.json"))
ver = open(src + "/verified.txt", errors="replace").read()
meta["property"] = prop
meta["confirmed_by_me"] = "lib/verify_seed.sh in a fresh scratch worktree of /repo HEAD: patch applies, go build ./... ok, demo passes without the change and fails with it, go test ./... with the change fails only the two baseline-failing tests (anonymised_dhcpd_log emptied)"
meta["verification_log_excerpt"] = [l for l in ver.splitlines() if l.startswith(("==", "rc=", "--- FAIL", "ok", "PATCH"))][:30]
meta["check_result"] = caught
json.dump(meta, open(dst + "/meta.json", "w"), indent=1)
print("kept", dst)
