"""Per-property configuration for ./check (see DESIGN.md section 6)."""

PROPS = {}
NOT_APPLICABLE = {}
HOOK_COMMITS = []


def prop(id, **kw):
    kw["id"] = id
    kw.setdefault("lean_targets", ["MtailVerif.Props." + id])
    kw.setdefault("level", "proof")
    PROPS[id] = kw


prop("C08",
     gens=["Key"],
     level_text="Proof: Key.encode (the model of buildLabelValueKey, with its replacement pairs and terminator regenerated from the Go source on every run) is proved injective on tuples of equal arity for all byte strings (encode_injective, via an explicit decoder); the datum-level clauses follow from the C09 refinement. Tie: exact key bytes and a create/expire/delete scenario on a real Metric are compared with the model over an exhaustive small scope plus seeded random tuples.",
     level_note="Trusted: Lean kernel; the go/ast extractor (ReplaceAll pairs, terminator); the harness diff; Go's map and strings.ReplaceAll semantics as modelled. The theorem is about the model; the correspondence is sampled.",
     rule="exhaustive: every tuple over {'-','\\\\','a',0x00,0xff} (quick: arity1 len<=3, arity2 len<=2, arity3/4 len<=1; thorough: arity1 len<=5, arity2 len<=3, arity3 len<=2, arity4 len<=1) -> key bytes compared with the model and checked for collisions on the implementation; seeded random long tuples; seeded pairs (equal / boundary-shifted / mutated) driven through GetDatum, ExpireDatum, RemoveDatum on a real Metric. Non-trivial = distinct case payloads (all cases exercise the encoder; duplicates are not counted).",
     assumptions=["Go map semantics (lookup/insert/delete by string key) modelled as an association list",
                  "strings.ReplaceAll with a one-byte pattern is modelled as a per-byte substitution"])
