"""Per-property configuration for ./check (see DESIGN.md section 6)."""

PROPS = {}
NOT_APPLICABLE = {}
HOOK_COMMITS = []


def prop(id, **kw):
    kw["id"] = id
    kw.setdefault("lean_targets", ["MtailVerif.Props." + id])
    kw.setdefault("level", "proof")
    PROPS[id] = kw


prop("C08",
     gens=["Key"],
     lean_targets=["MtailVerif.Props.C08", "MtailVerif.Props.C09"],
     level_text="Proof: Key.encode (the model of buildLabelValueKey, with its replacement pairs and terminator regenerated from the Go source on every run) is proved injective on tuples of equal arity for all byte strings (encode_injective, via an explicit decoder); the datum-level clauses follow from the C09 refinement. Tie: exact key bytes and a create/expire/delete scenario on a real Metric are compared with the model over an exhaustive small scope plus seeded random tuples.",
     level_note="Trusted: Lean kernel; the go/ast extractor (ReplaceAll pairs, terminator); the harness diff; Go's map and strings.ReplaceAll semantics as modelled. The theorem is about the model; the correspondence is sampled.",
     rule="exhaustive: every tuple over {'-','\\\\','a',0x00,0xff} (quick: arity1 len<=3, arity2 len<=2, arity3/4 len<=1; thorough: arity1 len<=5, arity2 len<=3, arity3 len<=2, arity4 len<=1) -> key bytes compared with the model and checked for collisions on the implementation; seeded random long tuples; seeded pairs (equal / boundary-shifted / mutated) driven through GetDatum, ExpireDatum, RemoveDatum on a real Metric. Non-trivial = distinct case payloads (all cases exercise the encoder; duplicates are not counted).",
     assumptions=["Go map semantics (lookup/insert/delete by string key) modelled as an association list",
                  "strings.ReplaceAll with a one-byte pattern is modelled as a per-byte substitution"])

prop("C15",
     gens=["Reader"],
     level_text="Proof: the model of LineReader (buf/off state, the index-based send loop with the absolute-index CR test exactly as written, Finish) is proved to deliver, for every byte stream and every chunking into reads, exactly the stream split at newlines with one trailing CR removed plus the non-empty unterminated remainder (framing_chunk_independent; no bound on lengths). Delimiter, CR byte, CR test and skip widths are regenerated from the Go source. Tie: a real LineReader fed by a scripted io.Reader is compared with the model on all streams over {\\n,\\r,a} (and multi-byte fragments) in all compositions into reads with buffer sizes 1-4, plus long random streams.",
     level_note="Trusted: Lean kernel; extractor; harness diff. Not modelled: Go slice capacity/aliasing inside ReadAndSend (exercised by buffer sizes 1-4 in the correspondence), the stale-read timer, the expvar counter.",
     rule="exhaustive: all strings over {\\n,\\r,a} up to length 5 (thorough 8) and over {\\n,\\r,a,0xC3,0xA9} up to 4 (thorough 6) x all compositions into chunks, buffer size cycling 1..4, EOF-with-last-read alternating; seeded random streams up to 1500 bytes with random chunking and zero-length reads. Non-trivial = distinct cases whose stream contains at least one newline.",
     assumptions=["each Read result is one chunk; a chunk larger than the offered buffer is continued on the next Read"])

prop("C09",
     gens=["Key"],
     level_text="Proof: the model of Metric keeps both Go representations (LabelValues slice, labelValuesMap index keyed by the regenerated key encoding) and is proved to refine an insertion-ordered map for every operation sequence (metric_refines_ordered_map, every_step_agrees: same outputs, same content, representation invariant preserved), with the named clauses as corollaries (each live tuple enumerated once, deleting an absent tuple is a no-op, expiry on an absent tuple is an error, wrong arity rejected unchanged, frame). Key injectivity is the C08 theorem, used not assumed. Tie: operation sequences (exhaustive to length 3/4 over 3 tuples + seeded random to length 60, arity 0-3, every kind and scalar type) on a real Metric, comparing per-step outputs, slice order, values, timestamps, expiry, index size and slice/index agreement.",
     level_note="Trusted: Lean kernel; extractor (key encoding); harness diff; Go map semantics as an association list; pointer identity modelled by allocation counters. Datum arithmetic is not part of this property (the payload is abstract in the theorems).",
     rule="exhaustive: all operation sequences up to length 3 (thorough 4) over 17 operations on 3 tuples (get/set/remove/expire/find x {a,-,a-}, emit, wrong-arity get and expire), each followed by an emit; seeded random sequences up to length 60 over a 7-string universe including separator/escape bytes, arity 0-3, types int/float/string, kinds 1-5. Non-trivial = distinct cases with at least two operations.",
     assumptions=["Go map semantics modelled as association list", "the Buckets value type is covered by C21, not here"])

prop("C21",
     gens=["Buckets"],
     level_text="Proof: over the model of datum.Buckets (Observe's loop with the regenerated comparison and last-bucket fall-through, MakeBuckets, and the histogram clause of codegen) with floats as an order-preserving key plus NaN: every observation increments exactly one bucket by one - the first whose bound is >= the value, else the last, which for every declared histogram is the +Inf bucket (observe_exactly_one_bucket, target_is_first_fitting, nan_goes_to_last, declared_last_is_inf); bucket counts sum to the count and the sum is the fold of the observed values for every declaration and every observation sequence (sum_buckets_eq_count); exported bounds = declared + Inf when the first bound is > 0 (partial; the <= 0 case is a recorded finding with a kernel-checked counterexample). Tie: real MakeBuckets/Observe and real compiled declarations vs the model on a boundary grid with values at/just below/just above each bound, +-0, +-Inf, NaN.",
     level_note="Trusted: Lean kernel; extractor (Observe condition/break/increment, codegen first-bound and sortedness tests); harness diff; IEEE comparison modelled by an order key (NaN unordered, -0 = +0); float addition is an abstract accumulator in the theorems and native binary64 addition in the executable model.",
     rule="every 2- and 3-subset of the bound grid {-2,-1,0,1e-7,0.5,1,2,4,1000000.5} as a declaration, observed with NaN, +-Inf, +-0, -3.5, 1e308 and each bound / its predecessor / its successor (thorough: additionally each value alone); rejected declarations; seeded random observation sequences (length < 30) through compiled declarations and directly built range lists with and without an explicit +Inf range. Non-trivial = distinct cases with at least one observation.",
     assumptions=["bucket bounds are never NaN (the parser produces only finite literals)"])

prop("C10",
     gens=["Gc", "Key"],
     level_text="Proof: the model of Store.Gc's closure (limit loop calling RemoveOldestDatum, then the Go index walk with its i-- after a removal) is proved, for every metric satisfying the C09 invariant, every now and every limit, to compute exactly Spec.gc on the ordered-map view (gc_refines_spec); Spec.gc is proved to leave exactly `limit` entries when over the limit, to remove for the limit only entries no newer than every entry kept, to keep after that exactly the entries not (expiry > 0 and now - time > expiry) with time.Sub's saturation modelled, and to change nothing else (sublist, order kept). Each comparison operator at the decision points is regenerated from the source and checked by gc_source_shape. Tie: stores built from create/update(arbitrary timestamp)/expire/remove sequences, then the real Store.Gc(), survivors compared; deadlines keep a 2 s guard band from the GC instant.",
     level_note="Trusted: Lean kernel; extractor (seven source facts); harness diff; wall clock handled by guard bands, so a boundary-only operator change is caught by the regenerated-fact obligation, not by a run (reported with no-failing-input-found). time.Time.Before/Sub modelled on int64 nanoseconds.",
     rule="exhaustive: 3 tuples x (timestamp offset in {-10 s,-5 s,+2 s}) x (expiry in {0,3 s,7 s}) x limit 0..3 (quick: one third of the grid; thorough: all 2916); seeded random sequences (<= 25 ops over 6 tuples, offsets -1 h..+1 min, expiries incl. non-positive, limits 0..5). Non-trivial = distinct cases with at least two operations.",
     assumptions=["Store.Gc reads time.Now() itself; the harness cannot inject a clock, so boundary instants (now - time == expiry) are covered by the extracted operators only"])

prop("C12",
     gens=["ExportLocks"],
     level="proof",
     level_text="Proof: the lock/emitter skeleton of every exporter loop (Collect, writeSocketMetrics, HandleVarz, HandleGraphite) is regenerated from the Go AST on every run; a syntactic check `safe` is proved sound against an executable semantics of skeletons (safe_sound: for every number of label sets and every fault plan - any subset of branches taken - a finished run ends with the read lock released, no emitter goroutine blocked on its channel, no unlock of an unheld lock), and `safe` is decided by the kernel on the four regenerated skeletons (skeletons_safe), giving export_releases. Tie: regeneration (translator) plus fault enumeration on the real exporters: every label-set position made unrepresentable (non-UTF-8 value, bad metric name, duplicate label name), a failing io.Writer at every write, request cancellation after every write, observing TryLock on every metric and a census of goroutines inside EmitLabelSets; the model's single-fault exploration must agree with the implementation per (exporter, store shape).",
     level_note="Trusted: Lean kernel; the go/ast skeleton extractor (which statements count as lock, unlock, spawn, receive loop, drain, return; `defer m.RUnlock()` is desugared; unknown constructs are shape errors); the harness's TryLock/goroutine census. The semantics abstracts goroutines and the unbuffered channel to a pending-count; Go's scheduler and sync.RWMutex are trusted. JSON export takes no per-metric lock in a loop and is outside this model.",
     rule="every (exporter in prom/push/varz/graphite) x (0..3 metrics) x (0..4 label sets) (thorough 0..4 x 0..6); per case every fault position: non-UTF-8 label value, failing write, cancellation at each label set, bad metric name and duplicate label name per metric, plus the fault-free run. Non-trivial = cases with at least one metric and one label set.",
     timeout={"quick": 600, "thorough": 3000},
     assumptions=["an emitter goroutine that still has label sets to send when the closure returns is blocked forever (unbuffered channel, no other receiver)"])

prop("C13",
     gens=["Buckets"],
     lean_targets=["MtailVerif.Props.C13"],
     level_text="Proof over the model of Exporter.Collect (the Range closure, the per-label-set loop with skip-on-error, the HELP bookkeeping, promTypeForKind, noHyphens, GetBucketsCumByMax) and of the pinned client's legacy validity rules: the output is exactly one sample per representable label set of each non-text metric and nothing else, independent of the bookkeeping state (collect_spec, representable_exported, exported_only_representable); each sample carries the hyphen-mapped name, prog+keys labels, kind-derived type, timestamp iff enabled, datum value (sample_fields); cumulative bucket counts are non-decreasing and, for distinct bounds, end at the sum of the bucket counts, which C21 proves equal to the count. Tie: random stores scraped through the real Exporter.Write, the text parsed back with the Prometheus parser and compared sample by sample with the model; validity predicates cross-checked against the client library called directly.",
     level_note="Trusted: Lean kernel; harness diff and text parser; the Prometheus client (registry, text encoder) and its validity rules as modelled (legacy name scheme, UTF-8 label values, duplicate label names); int->float conversion is an oracle computed by Go directly. HELP/TYPE comment lines other than the type are not compared. Precondition of the property (no two series with the same name and label set; distinct names modulo hyphens) is enforced by the generator.",
     rule="seeded random stores: 0-6 metrics with distinct names (incl. hyphenated, invalid, non-ASCII, empty), kinds counter/gauge/timer/text/histogram, types int/float/string/buckets, 0-3 keys (incl. invalid, reserved, duplicate, `prog`), 0-5 label sets with values incl. empty, spaces, quotes, newline, backslash, non-UTF-8; ints incl. +-2^53+1 and int64 extremes; floats incl. NaN, +-Inf, -0; prog label and timestamps on/off. Non-trivial = distinct cases expecting at least one sample.",
     assumptions=["the registry sorts families and label pairs; comparison is on sorted canonical samples"])

prop("C22",
     gens=[],
     level_text="Proof over the model of formatLabels, metricToGraphite/Statsd/Collectd/Varz and the push/handler loops: the record(s) of a label set are a function of the metric's static fields and that label set's own datum only - non-interference with every other label set (graphite/statsd/collectd/varz_own_label_set); a graphite histogram yields one line per bucket plus count plus value line, each ending in the label set's own timestamp (graphite_shape); the loops produce exactly one record per label set in order (one_record_per_label_set[_handlers]). Number formatting is an oracle (fmt called directly by the harness). Tie: random stores with several label sets of distinct values; the real formatter functions, HandleVarz/HandleGraphite bodies and HandleJSON output are compared byte for byte (JSON as parsed trees) with the model, and the property (own value, own timestamp, own bucket counts, JSON round trip) is evaluated on the real records.",
     level_note="Trusted: Lean kernel; harness diff; fmt's %d/%g/%v as oracles; encoding/json (the JSON side of the model is the value tree, not the bytes). The theorems are about the model; which datum each formatter reads in the Go code is tied by the byte-for-byte correspondence on stores whose label sets hold distinct values.",
     rule="seeded random stores (0-5 metrics, every kind/type, 0-3 keys, 0-5 label sets with distinct values incl. histograms with different observations per label set, non-finite floats; 3 of 4 stores with separator-free label values), 3 hostnames x 3 prefixes, prog label on/off. Non-trivial = distinct cases with at least one label set.",
     assumptions=["label values without whitespace or field separators for the parse-back part of the predicate (as the property states)"])
