#!/usr/bin/env python3
"""ad-hoc: lib/obsdiff.py out.txt cases.txt  -> first mismatches between OBS and MOBS"""
import sys
impl, model = {}, {}
for l in open(sys.argv[1], errors='replace'):
    sp = l.rstrip('\n').split(' ', 2)
    if len(sp) < 2: continue
    if sp[1] == 'OBS': impl.setdefault(sp[0], []).append(sp[2] if len(sp) > 2 else '')
    if sp[1] == 'MOBS': model.setdefault(sp[0], []).append(sp[2] if len(sp) > 2 else '')
cases = {}
if len(sys.argv) > 2:
    for l in open(sys.argv[2]):
        a, _, b = l.rstrip('\n').partition(' ')
        cases[a] = b
n = 0
for cid in impl:
    a, b = impl[cid], model.get(cid)
    if a != b:
        n += 1
        if n <= int(sys.argv[3]) if len(sys.argv) > 3 else n <= 5:
            print('==', cid)
            if cid in cases:
                f = cases[cid].split()
                try:
                    print(bytes.fromhex(f[2]).decode('utf8', 'replace'))
                    ls = [bytes.fromhex(x).decode('utf8','replace') if x != '-' else '' for x in f[3].split(',')]
                except Exception as e:
                    ls = []
            for i, (x, y) in enumerate(zip(a, b or [])):
                if x != y:
                    print(' impl :', x[:600]); print(' model:', y[:600])
                    try: print(' line :', repr(ls[int(x.split()[0])]))
                    except Exception: pass
                    break
            if b is None: print(' no model obs')
            elif len(a) != len(b): print(' lens', len(a), len(b))
print('mismatching cases:', n, 'of', len(impl))
