#!/usr/bin/env python3
"""lib/wire_skeletons.py: (re)writes the skeleton re-exports in Props/Cxx.lean, the audit lines and the
`gens` entries, from the mapping below.  Run by hand when the mapping changes."""
import os, re
V = os.path.dirname(os.path.dirname(os.path.abspath(__file__)))
M = {
 "Metric": ["C08", "C09", "C10"],
 "Loader": ["C06", "C14", "C20", "C25", "C26"],
 "Export": ["C12", "C13", "C22"],
 "Streams": ["C15", "C16", "C17", "C19"],
 "Line": ["C01", "C05", "C19", "C20"],
 "Datum": ["C07", "C09", "C13", "C21"],
 "Dispatch": ["C17", "C18", "C19", "C20"],
 "Symbols": ["C01", "C03", "C24"],
 "Lex": ["C03", "C23"],
 "Text": ["C23"], "UnparseBefore": ["C23"],
 "Exec": ["C01", "C02", "C04", "C05", "C07", "C21", "C25"], "Compare": ["C01", "C02", "C04"],
 "CodegenBefore": ["C01", "C03", "C04", "C21"], "CodegenAfter": ["C01", "C03", "C04", "C21"],
 "CheckerBefore": ["C03", "C04", "C24"], "CheckerAfter": ["C02", "C03", "C04", "C24"], "PatternEval": ["C03", "C24"],
 "OptBefore": ["C02", "C24"], "OptAfter": ["C02", "C24"],
}
import json
def fgroup(path):
    parts = path[:-3].split("/")
    return "F_" + "_".join(parts[-2:])
SKIP = {"internal/runtime/compiler/parser/lexer.go", "internal/runtime/compiler/parser/parser.go", "internal/runtime/code/opcodes.go", "internal/runtime/fuzz.go"}
for l in open(os.path.join(V, "properties.jsonl")):
    pr = json.loads(l)
    for f in pr["anchors"]["files"]:
        if f.endswith(".go") and f not in SKIP:
            M.setdefault(fgroup(f), []).append(pr["id"])
# the syntax tree and its positions: what every compiler pass walks (C03's time bound, C24's positions)
for g in ("F_ast_ast", "F_ast_walk", "F_position_position"):
    M.setdefault(g, []).extend(["C03", "C24"])
# the path fix made logstream.go part of what C16/C18/C19 rest on
M.setdefault("F_logstream_logstream", []).extend(["C16", "C17", "C18", "C19"])
byprop = {}
for g, ps in M.items():
    for p in ps:
        byprop.setdefault(p, []).append(g)
BEGIN = "/-! ### regenerated control skeletons (written by lib/wire_skeletons.py) -/"
for p, gs in sorted(byprop.items()):
    f = os.path.join(V, "lean/MtailVerif/Props/%s.lean" % p)
    s = open(f).read()
    # drop what an earlier run wrote
    s = re.sub(r"/-- Obligation over regenerated facts: [^\n]*\(`Proofs/Skeletons.lean`, one `rfl` per function\) -/\ntheorem \w+_skeletons[^\n]*\n\n", "", s)
    i = s.find(BEGIN)
    end = "end MtailVerif.%s" % p
    if i >= 0:
        s = s[:i] + s[s.index(end):]
    if "import MtailVerif.Proofs.Skeletons" not in s:
        lines = s.split("\n")
        k = max(n for n, l in enumerate(lines) if l.startswith("import "))
        lines.insert(k + 1, "import MtailVerif.Proofs.Skeletons")
        s = "\n".join(lines)
    blk = BEGIN + "\n/-- Obligations over regenerated facts: the functions this property's model stands for have the\n    control skeleton the model was written against (`Proofs/Skeletons.lean`, one `rfl` per function\n    or clause; DESIGN.md §11.6a) -/\n"
    names = []
    for g in gs:
        n = g[0].lower() + g[1:] + "_skeletons"
        names.append(n)
        blk += "theorem %s : Skeletons.%sShape := Skeletons.%s_shape\n" % (n, g, g[0].lower() + g[1:])
    s = s.replace(end, blk + "\n" + end)
    open(f, "w").write(s)
    a = os.path.join(V, "lean/MtailVerif/Audit/%s.lean" % p)
    t = "\n".join(l for l in open(a).read().split("\n") if "_skeletons" not in l).rstrip("\n") + "\n"
    for n in names:
        t += "#print axioms MtailVerif.%s.%s\n" % (p, n)
    open(a, "w").write(t)
pp = os.path.join(V, "lib/props.py")
s = open(pp).read()
for p in byprop:
    i = s.index('prop("%s",' % p)
    j = s.index("gens=[", i)
    assert j - i < 200, p
    k = s.index("]", j)
    inner = s[j + 6:k]
    if "Skeletons" not in inner:
        s = s[:j + 6] + (inner + ", " if inner.strip() else "") + '"Skeletons"' + s[k:]
open(pp, "w").write(s)
print({p: len(g) for p, g in sorted(byprop.items())})
