#!/bin/sh
# builds the harness against /repo's working tree into /verif/.build/verifharness (ad-hoc runs)
export GOFLAGS=-mod=mod GOPROXY=off GOSUMDB=off GOTOOLCHAIN=local CGO_ENABLED=0
cd /verif && mkdir -p .build/adhoc
python3 - <<'PY'
import glob, json, os, sys
sys.path.insert(0, '/verif/lib')
import vcheck
ov = {}
for p in glob.glob('/verif/go/harness/main/*.go'):
    ov[os.path.join('/repo/internal/verifharness', os.path.basename(p))] = p
for p in glob.glob('/verif/go/harness/access/*.go'):
    pkg = vcheck.ACCESS.get(os.path.basename(p))
    if pkg:
        ov[os.path.join('/repo', pkg, 'verif_' + os.path.basename(p))] = p
json.dump({'Replace': ov}, open('/verif/.build/adhoc/overlay.json', 'w'))
PY
cp /repo/go.mod /repo/go.sum .build/adhoc/
if [ -n "$RACE" ]; then
  cd /repo && CGO_ENABLED=1 go build -race -tags verif -overlay /verif/.build/adhoc/overlay.json -modfile /verif/.build/adhoc/go.mod -o /verif/.build/verifharness-race ./internal/verifharness
else
  cd /repo && go build -tags verif -overlay /verif/.build/adhoc/overlay.json -modfile /verif/.build/adhoc/go.mod -o /verif/.build/verifharness ./internal/verifharness
fi
