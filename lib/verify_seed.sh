#!/bin/sh
# usage: lib/verify_seed.sh <tag> <demo-pkg-dir> <demo-test-regex>
# Confirms, in a fresh scratch worktree of /repo HEAD: patch applies, builds, whole suite passes with
# it (same failures as baseline only), demo fails with it and passes without it. Writes
# /tmp/seedout/<tag>/verified.txt and removes the worktree.
tag=$1; pkg=$2; re=$3; extra=$4
export GOFLAGS=-mod=mod GOPROXY=off GOSUMDB=off GOTOOLCHAIN=local
out=/tmp/seedout/$tag; wt=/tmp/vs-$tag
log=$out/verified.txt; : > $log
git -C /repo worktree add --detach $wt HEAD >/dev/null 2>&1 || { echo "worktree failed" >> $log; exit 1; }
cd $wt
mkdir -p $wt/$pkg; cp $out/demo/*_test.go $wt/$pkg/ 2>/dev/null
echo "== demo WITHOUT change" >> $log
go test $extra -vet=off -count=1 -run "$re" ./$pkg/ >> $log 2>&1; echo "rc=$?" >> $log
git apply $out/patch.diff >> $log 2>&1 || echo "PATCH-APPLY-FAILED" >> $log
echo "== build WITH change" >> $log
go build ./... >> $log 2>&1; echo "rc=$?" >> $log
echo "== demo WITH change" >> $log
go test $extra -vet=off -count=1 -run "$re" ./$pkg/ 2>&1 | grep -E "^\s*--- FAIL|^FAIL|^ok|^panic" | head -12 >> $log; 
rm -f $wt/$pkg/seed_c*_test.go $wt/$pkg/*c[0-9][0-9]*demo*_test.go $wt/$pkg/*_demo_test.go $wt/$pkg/*_demo_unix_test.go $wt/$pkg/*_verif_test.go $wt/$pkg/c01b_*_test.go
for f in $out/demo/*_test.go; do rm -f $wt/$pkg/$(basename $f); done
echo "== suite WITH change (failures only)" >> $log
go test -vet=off -count=1 -timeout 25m ./... 2>&1 | grep -E "^(FAIL|---|ok|panic)" | grep -v "^ok" >> $log
echo "== done" >> $log
cd /; git -C /repo worktree remove --force $wt
