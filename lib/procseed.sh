#!/bin/sh
# usage: lib/procseed.sh <tag> <prop> <pkg> <regex> : confirm a proposed seeded change and run its property's quick check on it
tag=$1; prop=$2; pkg=$3; re=$4; extra=$5
git -C /repo worktree remove --force /tmp/wt-$tag >/dev/null 2>&1
lib/verify_seed.sh $tag $pkg "$re" $extra
grep -E "^(==|rc=|--- FAIL|PATCH|ok|FAIL)" /tmp/seedout/$tag/verified.txt
lib/seedrun.sh $tag $prop quick /tmp/seedout/$tag/patch.diff | grep -v "^KNOWN"
