#!/bin/sh
# runs every kept seeded change against its property's quick check (scratch copies; /repo untouched)
# usage: lib/allseeds.sh [parallel jobs]   (VERIF_SRC=<snapshot of /verif> to run from a copy)
cd /verif
ls seeded | xargs -P ${1:-1} -I{} sh -c '
  tag={}
  prop=$(python3 -c "import json;print(json.load(open(\"/verif/seeded/$tag/meta.json\"))[\"property\"])")
  res=$(lib/seedrun.sh $tag $prop quick /verif/seeded/$tag/patch.diff 2>&1 | grep -v "^KNOWN" | grep -E "^(OK|VIOLATION|PATCH|worktree)" | head -1 | cut -c1-160)
  echo "$tag $prop :: $res"'
