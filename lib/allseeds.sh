#!/bin/sh
# runs every kept seeded change against its property's quick check (scratch copies; /repo untouched)
cd /verif
for d in seeded/*/; do
  tag=$(basename $d)
  prop=$(python3 -c "import json;print(json.load(open('$d/meta.json'))['property'])")
  res=$(lib/seedrun.sh $tag $prop quick /verif/seeded/$tag/patch.diff 2>&1 | grep -v "^KNOWN" | grep -E "^(OK|VIOLATION|PATCH|worktree)" | head -1 | cut -c1-160)
  echo "$tag $prop :: $res"
done
