#!/bin/sh
# usage: lib/seedrun.sh <tag> <prop> [tier] [patchfile]
# Runs ./check <prop> from a scratch copy of /verif against a scratch worktree of /repo with the
# seeded patch applied, so that neither /repo nor /verif's generated files are touched.
tag=$1; prop=$2; tier=${3:-quick}; patch=${4:-/tmp/seedout/$tag/patch.diff}
[ -f "$patch" ] || patch=/verif/seeded/$tag/patch.diff
wt=/tmp/sr-wt-$tag-$prop; vc=/tmp/sr-verif-$tag-$prop
out=/tmp/seedout/$tag; mkdir -p $out
git -C /repo worktree remove --force $wt >/dev/null 2>&1; rm -rf $wt $vc
git -C /repo worktree add --detach $wt HEAD >/dev/null 2>&1 || { echo "worktree failed"; exit 2; }
git -C $wt apply "$patch" || { echo "PATCH DOES NOT APPLY"; git -C /repo worktree remove --force $wt; exit 2; }
mkdir -p $vc && rsync -a --exclude .git --exclude .build/run --exclude replays ${VERIF_SRC:-/verif}/ $vc/
(cd $vc && VERIF_REPO=$wt VERIF_EVIDENCE_DIR=$vc/.build/evidence-mutant ./check $prop --tier $tier) > $out/check-$prop.txt 2>&1
echo "rc=$?" >> $out/check-$prop.txt
git -C /repo worktree remove --force $wt; rm -rf $vc
grep -E "^(OK|VIOLATION|KNOWN|rc=)" $out/check-$prop.txt | cut -c1-300
